---- MODULE IntMat ----
(* Exact integer matrices, vectors and tensors (shared by Kernels, Stats and the solvers).                 *)
(* A matrix is a record [row, col, d] with d \in [1..row -> [1..col -> Int]]; row and col are explicit so   *)
(* that 0 x c and r x 0 matrices exist and are distinguished.  A vector is a function [1..n -> Int]        *)
(* (a TLA+ sequence).  A tensor is a sequence of equally shaped matrices (the slices).                     *)
EXTENDS Integers, Sequences, FiniteSets

Mat(r, c, F(_, _)) == [row |-> r, col |-> c, d |-> [i \in 1..r |-> [j \in 1..c |-> F(i, j)]]]
Vec(n, F(_)) == [i \in 1..n |-> F(i)]

RECURSIVE SumF(_, _)                 \* f[1] + ... + f[n]
SumF(f, n) == IF n = 0 THEN 0 ELSE f[n] + SumF(f, n - 1)
Dot(x, y, n) == SumF([k \in 1..n |-> x[k] * y[k]], n)

IsMat(M) == /\ M.row \in Nat /\ M.col \in Nat /\ DOMAIN M.d = 1..M.row
            /\ \A i \in 1..M.row : DOMAIN M.d[i] = 1..M.col
Row(M, i) == M.d[i]
Column(M, j) == [i \in 1..M.row |-> M.d[i][j]]

Transpose(M) == Mat(M.col, M.row, LAMBDA i, j : M.d[j][i])
MatAdd(A, B) == Mat(A.row, A.col, LAMBDA i, j : A.d[i][j] + B.d[i][j])
MatScale(s, A) == Mat(A.row, A.col, LAMBDA i, j : s * A.d[i][j])
(* (A B)[i][j] = sum_k A[i][k] B[k][j];  requires A.col = B.row; an empty inner dimension gives zeros *)
MatMul(A, B) == LET Bt == Transpose(B) IN Mat(A.row, B.col, LAMBDA i, j : Dot(A.d[i], Bt.d[j], A.col))
MatVec(M, v) == [i \in 1..M.row |-> Dot(M.d[i], v, M.col)]                    \* M v
VecMat(v, M) == [j \in 1..M.col |-> Dot(v, Column(M, j), M.row)]              \* v' M
Outer(a, b) == Mat(Len(a), Len(b), LAMBDA i, j : a[i] * b[j])                 \* a b'
ColAsMat(v) == Mat(Len(v), 1, LAMBDA i, j : v[i])
RowAsMat(v) == Mat(1, Len(v), LAMBDA i, j : v[j])
Trace(M) == SumF([i \in 1..M.row |-> M.d[i][i]], M.row)                       \* square M only
SumSq(M) == SumF([i \in 1..M.row |-> Dot(M.d[i], M.d[i], M.col)], M.row)      \* squared Frobenius norm
ColSum(M, j) == SumF(Column(M, j), M.row)
RowSum(M, i) == SumF(M.d[i], M.col)
ColSumSq(M, j) == LET x == Column(M, j) IN Dot(x, x, M.row)
ColCross(M, i, j) == Dot(Column(M, i), Column(M, j), M.row)
QuadForm(v, C) == Dot(v, MatVec(C, v), C.row)                                 \* v' C v

(* ---- second batch (C11 extension): element-wise maps, order statistics, ranks, determinant, Kronecker product ---- *)
AbsI(x) == IF x < 0 THEN -x ELSE x
SgnI(x) == IF x < 0 THEN -1 ELSE IF x > 0 THEN 1 ELSE 0
VecAdd(a, b) == [i \in 1..Len(a) |-> a[i] + b[i]]
VecSub(a, b) == [i \in 1..Len(a) |-> a[i] - b[i]]
MapMat(M, F(_)) == Mat(M.row, M.col, LAMBDA i, j : F(M.d[i][j]))
IdentityMat(n) == Mat(n, n, LAMBDA i, j : IF i = j THEN 1 ELSE 0)
(* order statistics of the first n >= 1 entries of v: Kth(v, n, q) is the q-th smallest, counted with multiplicity *)
Below(v, n, x) == Cardinality({i \in 1..n : v[i] < x})
UpTo(v, n, x) == Cardinality({i \in 1..n : v[i] <= x})
Kth(v, n, q) == CHOOSE x \in {v[i] : i \in 1..n} : Below(v, n, x) < q /\ q <= UpTo(v, n, x)
VecMin(v, n) == CHOOSE x \in {v[i] : i \in 1..n} : \A i \in 1..n : x <= v[i]
VecMax(v, n) == CHOOSE x \in {v[i] : i \in 1..n} : \A i \in 1..n : v[i] <= x
(* twice the median (an integer): the middle order statistic, or the sum of the two middle ones *)
Median2(v, n) == IF n % 2 = 1 THEN 2 * Kth(v, n, (n + 1) \div 2) ELSE Kth(v, n, n \div 2) + Kth(v, n, n \div 2 + 1)
TieFree(v, n) == \A i, j \in 1..n : i # j => v[i] # v[j]
RankIn(v, n, i) == Below(v, n, v[i]) + 1                     \* rank 1 = smallest; the textbook rank when v is tie-free
Without(v, n, q) == [i \in 1..(n - 1) |-> IF i < q THEN v[i] ELSE v[i + 1]]      \* v with entry q removed
(* determinant by cofactor expansion along the first row (small n only); d is the cell function of an n x n matrix *)
MinorOf(d, n, col) == [i \in 1..(n - 1) |-> [j \in 1..(n - 1) |-> d[i + 1][IF j < col THEN j ELSE j + 1]]]
RECURSIVE DetI(_, _)
DetI(d, n) == IF n = 0 THEN 1 ELSE IF n = 1 THEN d[1][1]
              ELSE SumF([col \in 1..n |-> (IF col % 2 = 1 THEN 1 ELSE -1) * d[1][col] * DetI(MinorOf(d, n, col), n - 1)], n)
ReplaceCol(d, n, col, v) == [i \in 1..n |-> [j \in 1..n |-> IF j = col THEN v[i] ELSE d[i][j]]]
(* Kronecker product of a column vector v (n x 1) with M (p x q): the (n p) x q block matrix whose i-th block is v[i] M *)
Kron(v, M) == Mat(Len(v) * M.row, M.col, LAMBDA a, q : v[((a - 1) \div M.row) + 1] * M.d[((a - 1) % M.row) + 1][q])
(* integer bracketing of irrational maps: floor(sqrt(x)), powers of ten *)
IntSqrt(x) == CHOOSE s \in 0..(x + 1) : s * s <= x /\ x < (s + 1) * (s + 1)
RECURSIVE Pow10(_)
Pow10(p) == IF p = 0 THEN 1 ELSE 10 * Pow10(p - 1)
====
