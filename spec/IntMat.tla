---- MODULE IntMat ----
(* Exact integer matrices, vectors and tensors (shared by Kernels, Stats and the solvers).                 *)
(* A matrix is a record [row, col, d] with d \in [1..row -> [1..col -> Int]]; row and col are explicit so   *)
(* that 0 x c and r x 0 matrices exist and are distinguished.  A vector is a function [1..n -> Int]        *)
(* (a TLA+ sequence).  A tensor is a sequence of equally shaped matrices (the slices).                     *)
EXTENDS Integers, Sequences

Mat(r, c, F(_, _)) == [row |-> r, col |-> c, d |-> [i \in 1..r |-> [j \in 1..c |-> F(i, j)]]]
Vec(n, F(_)) == [i \in 1..n |-> F(i)]

RECURSIVE SumF(_, _)                 \* f[1] + ... + f[n]
SumF(f, n) == IF n = 0 THEN 0 ELSE f[n] + SumF(f, n - 1)
Dot(x, y, n) == SumF([k \in 1..n |-> x[k] * y[k]], n)

IsMat(M) == /\ M.row \in Nat /\ M.col \in Nat /\ DOMAIN M.d = 1..M.row
            /\ \A i \in 1..M.row : DOMAIN M.d[i] = 1..M.col
Row(M, i) == M.d[i]
Column(M, j) == [i \in 1..M.row |-> M.d[i][j]]

Transpose(M) == Mat(M.col, M.row, LAMBDA i, j : M.d[j][i])
MatAdd(A, B) == Mat(A.row, A.col, LAMBDA i, j : A.d[i][j] + B.d[i][j])
MatScale(s, A) == Mat(A.row, A.col, LAMBDA i, j : s * A.d[i][j])
(* (A B)[i][j] = sum_k A[i][k] B[k][j];  requires A.col = B.row; an empty inner dimension gives zeros *)
MatMul(A, B) == LET Bt == Transpose(B) IN Mat(A.row, B.col, LAMBDA i, j : Dot(A.d[i], Bt.d[j], A.col))
MatVec(M, v) == [i \in 1..M.row |-> Dot(M.d[i], v, M.col)]                    \* M v
VecMat(v, M) == [j \in 1..M.col |-> Dot(v, Column(M, j), M.row)]              \* v' M
Outer(a, b) == Mat(Len(a), Len(b), LAMBDA i, j : a[i] * b[j])                 \* a b'
ColAsMat(v) == Mat(Len(v), 1, LAMBDA i, j : v[i])
RowAsMat(v) == Mat(1, Len(v), LAMBDA i, j : v[j])
Trace(M) == SumF([i \in 1..M.row |-> M.d[i][i]], M.row)                       \* square M only
SumSq(M) == SumF([i \in 1..M.row |-> Dot(M.d[i], M.d[i], M.col)], M.row)      \* squared Frobenius norm
ColSum(M, j) == SumF(Column(M, j), M.row)
RowSum(M, i) == SumF(M.d[i], M.col)
ColSumSq(M, j) == LET x == Column(M, j) IN Dot(x, x, M.row)
ColCross(M, i, j) == Dot(Column(M, i), Column(M, j), M.row)
QuadForm(v, C) == Dot(v, MatVec(C, v), C.row)                                 \* v' C v
====
