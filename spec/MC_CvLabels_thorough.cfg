SPECIFICATION LSpec
CONSTANTS
  MaxN = 6
  MaxLab = 3
INVARIANT LabelFolds
