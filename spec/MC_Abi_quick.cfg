\* C20: Abi.tla over the generated data module AbiData.tla (the check copies Abi.tla and this file next to
\* the freshly generated AbiData.tla in its run directory; quick and thorough evaluate every declaration).
\* Run with -continue so that every mismatching declaration is reported, and without -coverage.
SPECIFICATION Spec
INVARIANT LayoutRule
INVARIANT StructsAgree
INVARIANT FuncsDeclared
INVARIANT FuncsCompatible
CONSTRAINT Emit
CHECK_DEADLOCK FALSE
