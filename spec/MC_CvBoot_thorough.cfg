SPECIFICATION Spec
CONSTANTS
  N = 3
  MaxIt = 6
  MaxTh = 4
  Clear = "fresh"
  Divide = "counter"
INVARIANT NoMergeBeforeJoin
INVARIANT CounterIsPasses
INVARIANT AverageIsMean
INVARIANT FirstCallExpected
INVARIANT SecondCallIndependent
INVARIANT SequentialWhenDividing
INVARIANT ExtraPassesOtherwise
