SPECIFICATION TSpec
CONSTANTS
  PropOnly = TRUE
CONSTRAINT Diag
POSTCONDITION TraceAccepted
CHECK_DEADLOCK FALSE
