\* C08's invariance clauses as theorems of the exact discriminant: x -> Ax + b on training and test data alike (small integer
\* maps incl. shear, swap, reflection, scale 2 and 3, shifts), reordering of the training objects
SPECIFICATION Spec
CONSTANTS
  MaxN = 6
  MaxK = 3
  NPat = 3
  LabelMap = "plus_start"
INVARIANT InQuantifier
INVARIANT AffineSgn
INVARIANT MeanEquivariant
INVARIANT PermSgn
