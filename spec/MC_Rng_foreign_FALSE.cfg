SPECIFICATION Spec
CONSTANTS
  NW = 2
  K = 1
  PerThread = FALSE
  Shape = "foreign"
INVARIANT StreamIsolation
VIEW NoSched
CHECK_DEADLOCK FALSE
