---- MODULE TracePcaSpectral ----
(* Trace specification for C02 (spectral correctness and equivariance of PCA()), recorded by c02_drv.c.              *)
(* One case = Reset, Case, Spectrum, [Loc], Oracle, [Kern x 2], Stop x npc, Axis x npc, Pair x 2..3, Scale x 1..2,     *)
(*            [Hist], [Prep], [Reuse].                                                                              *)
(* From the logged true spectrum TLC computes how many leading components the property speaks about (up to the first  *)
(* squared singular ratio > 0.7225) and the criterion-implied bound of each (LedgerArith BoundsPT, K = KK); a component  *)
(* is accepted only if it sits on the true axis of the same index, carries its eigenvalue within TolEig and its score  *)
(* and loading errors are within the bound; paired runs must agree within twice the bound.                            *)
(* Location class (K3): the Loc event carries what one ulp of the column locations means for the preprocessed matrix  *)
(* (from the input alone); the bounds then come from Pca!BoundsPTL, the eigenvalue tolerances get the same term.  A    *)
(* case outside that class carries no Loc event and is judged with exactly the bounds it always had.                 *)
(* Layers: Prop (the statement of C02), Impl (how the present code does it: slices of the MT kernels, the stopping     *)
(* rule as coded, bit-identical refits; switched off by PropOnly), Ext (Prep, Reuse: behaviour the statement does not  *)
(* cover; the check validates those events in a trace of their own and reports rejections as extra findings).        *)
EXTENDS Pca, TraceBase
CONSTANT PropOnly
VARIABLES l, sn, ncmp, bndT, bndP, sig, sphase, cse, locb
tvars == <<lvars, svars, l, sn, ncmp, bndT, bndP, sig, sphase, cse, locb>>
Ev == Tr[l]
Step == l' = l + 1 /\ UNCHANGED svars /\ UNCHANGED lvars

MaxCmp == 6
MinS == 1000                          \* spectrum entries below 1e-6 of the largest are not resolved by the 1e-9 quantisation
OracleTol == 1000000                  \* the two oracles (and the construction) agree to 1e-6 of lambda_1 (1e-12 units); observed <= 1e-12
MaxRatio == 200000000                 \* K3: |mean|/sdev of a column up to 1e8 (2e8 with the rounding of the generator)
PrepTol == 1000                       \* Ext: stored column statistics agree with the long-double ones to 1e-6 (relative)
ConvCrit13 == 1000                    \* PCACONVERGENCE = 1e-10 in the 1e-13 units of the Stop event
(* eigenvalue tolerance relative to the eigenvalue itself: TolEig's relative part + its absolute part 1e-9*ss0 (ss0 <= entries * lambda_1) *)
EvTol9(nn, s2k, entries) == RelEig9(nn) + (entries + 1) * (One \div s2k) + 2
EvTolL(kk) == SatAdd(Min2(EvTol9(sn, sig[kk], Len(sig)), Cap), LocK9(sig, kk, locb))
NoCase == [n |-> 2, c |-> 1, scaling |-> 0, nproc |-> 1, loc |-> 0, deg |-> 0, hist |-> 0, src |-> "svd"]

TInit == /\ l = 1 /\ LInit /\ spectrum = {} /\ remaining = {} /\ extracted = <<>> /\ shape = <<0, 0, 1>>
         /\ sn = 2 /\ ncmp = 0 /\ bndT = <<>> /\ bndP = <<>> /\ sig = <<>> /\ sphase = "Idle" /\ cse = NoCase /\ locb = 0

TReset == /\ l <= Len(Tr) /\ Ev.e = "Reset" /\ Step
          /\ sphase \in {"Idle", "Body"}
          /\ sphase' = "Idle" /\ ncmp' = 0 /\ bndT' = <<>> /\ bndP' = <<>> /\ sig' = <<>> /\ cse' = NoCase /\ locb' = 0 /\ UNCHANGED sn
TDropped == /\ l <= Len(Tr) /\ Ev.e = "Dropped" /\ Step /\ sphase \in {"Idle", "Case"}
            /\ sphase' = "Idle" /\ UNCHANGED <<sn, ncmp, bndT, bndP, sig, cse, locb>>
(* the generator stays inside the quantifier (a rejection here is the check's fault, never the library's) *)
UncentredOffsets(ev) == ev.scaling = -1 /\ ev.src = "jacobi"
NeedsLoc(ev) == ev.loc > 0 \/ UncentredOffsets(ev)
TCase == /\ l <= Len(Tr) /\ Ev.e = "Case" /\ Step /\ sphase = "Idle"
         /\ Ev.n \in 2..130 /\ Ev.c \in 1..70 /\ Ev.scaling \in -1..5 /\ Ev.L >= 1 /\ Ev.L <= Min2(Ev.n - 1, Ev.c)
         /\ Ev.nproc \in 1..64 /\ Ev.loc \in ({0} \cup 3..8) /\ Ev.deg \in 0..4 /\ Ev.hist \in {0, 1} /\ Ev.src \in {"svd", "jacobi"}
         /\ (Ev.loc > 0 => Ev.src = "jacobi" /\ Ev.deg = 0)           \* the construction is not the truth of a matrix stored with 8 digits of spread
         /\ (Ev.scaling >= 1 => Ev.src = "jacobi")
         /\ sn' = Ev.n /\ sphase' = "Case"
         /\ cse' = [n |-> Ev.n, c |-> Ev.c, scaling |-> Ev.scaling, nproc |-> Ev.nproc, loc |-> Ev.loc, deg |-> Ev.deg, hist |-> Ev.hist, src |-> Ev.src]
         /\ UNCHANGED <<ncmp, bndT, bndP, sig, locb>>
TSpectrum == /\ l <= Len(Tr) /\ Ev.e = "Spectrum" /\ Step /\ sphase = "Case"
             /\ Len(Ev.sig2) >= 1 /\ Ev.sig2[1] = One
             /\ \A i \in 2..Len(Ev.sig2) : Ev.sig2[i] >= 0 /\ Ev.sig2[i] <= Ev.sig2[i-1]          \* the oracle's spectrum is descending
             /\ LET m == NCmp(Ev.sig2, 1, MinS, MaxCmp)
                    b == BoundsPT(Ev.sig2, KK * EpsPca9(sn), m)
                IN ncmp' = m /\ bndT' = b.t /\ bndP' = b.p
             /\ sig' = Ev.sig2 /\ sphase' = (IF NeedsLoc(cse) THEN "NeedLoc" ELSE "Spectrum") /\ UNCHANGED <<sn, cse, locb>>
(* K3: the bounds of this case get the location term the spec computes from the logged representability of the input *)
TLoc == /\ l <= Len(Tr) /\ Ev.e = "Loc" /\ Step /\ sphase = "NeedLoc"
        /\ Ev.loc12 >= 0 /\ Ev.ratio >= 0 /\ Ev.ratio <= MaxRatio
        /\ LET lb == LocBase9(sn, Ev.loc12)
               b  == BoundsPTL(sig, KK * EpsPca9(sn), ncmp, lb)
           IN locb' = lb /\ bndT' = b.t /\ bndP' = b.p
        /\ sphase' = "Spectrum" /\ UNCHANGED <<sn, ncmp, sig, cse>>
TOracle == /\ l <= Len(Tr) /\ Ev.e = "Oracle" /\ Step /\ sphase = "Spectrum"
           /\ Ev.err <= OracleTol
           /\ sphase' = "Body" /\ UNCHANGED <<sn, ncmp, bndT, bndP, sig, cse, locb>>

Same == UNCHANGED <<sn, ncmp, bndT, bndP, sig, sphase, cse, locb>>

(* Impl: the first call of each MT kernel in the fit under test hands every column (site vm) / row (site mv) to exactly one of nproc workers *)
EvSlices(ev) == [w \in 1..Len(ev.from) |-> <<ev.from[w], ev.to[w]>>]
ImplKern(ev) == /\ ev.np = cse.nproc /\ Len(ev.from) = ev.np /\ Len(ev.to) = ev.np /\ ev.calls >= 1
                /\ ev.len = (IF ev.site = "vm" THEN cse.c ELSE cse.n)
                /\ SliceCover(EvSlices(ev), ev.len)
TKern == /\ l <= Len(Tr) /\ Ev.e = "Kern" /\ Step /\ sphase = "Body"
         /\ Ev.site \in {"vm", "mv"} /\ cse.nproc > 1
         /\ (PropOnly \/ ImplKern(Ev))
         /\ Same
(* Impl: the loop of a compared component stops at the first iteration whose criterion value is below 1e-10 *)
(* and the first component starts from the column of E with the largest sum of squares (pca.c Step 1; 1e-6 + the location term)              *)
StartTol == 1000
ImplStop(ev) == /\ ev.k <= ncmp => ev.its >= 1 /\ ev.conv <= ConvCrit13 /\ (ev.its >= 2 => ev.prev >= ConvCrit13)
                /\ (ev.k = 1 /\ ncmp >= 1) => ev.start <= SatAdd(StartTol, LocK9(sig, 1, locb))
TStop == /\ l <= Len(Tr) /\ Ev.e = "Stop" /\ Step /\ sphase = "Body"
         /\ Ev.k >= 1
         /\ (PropOnly \/ ImplStop(Ev))
         /\ Same

PropAxisOrder(ev) == ev.match = ev.k
PropAxisEigen(ev) == /\ ev.evalErr <= EvTolL(ev.k)
                     /\ ev.vErr <= EvTolL(ev.k)
PropAxisBound(ev) == ev.terr <= bndT[ev.k] /\ ev.perr <= bndP[ev.k]
TAxis == /\ l <= Len(Tr) /\ Ev.e = "Axis" /\ Step /\ sphase = "Body"
         /\ Ev.k >= 1
         /\ (Ev.k <= ncmp => PropAxisOrder(Ev) /\ PropAxisEigen(Ev) /\ PropAxisBound(Ev))
         /\ Same

(* paired runs: both runs are within bound_k of the same truth, hence within 2 bound_k of each other *)
Within2(errs, b) == \A i \in 1..Min2(ncmp, Len(errs)) : errs[i] <= 2 * b[i]
TPair == /\ l <= Len(Tr) /\ Ev.e = "Pair" /\ Step /\ sphase = "Body"
         /\ Ev.kind \in {"rowperm", "colperm", "rot"}
         /\ Within2(Ev.terr, bndT) /\ Within2(Ev.perr, bndP)
         /\ Same
TScale == /\ l <= Len(Tr) /\ Ev.e = "Scale" /\ Step /\ sphase = "Body"
          /\ Within2(Ev.terr, bndT) /\ Within2(Ev.perr, bndP)
          /\ \A i \in 1..Min2(ncmp, Len(Ev.verr)) : Ev.verr[i] <= 2 * EvTolL(i)
          /\ Same
(* K7: the same fit repeated after fits of other shapes / data in the same process: within twice the bound (Prop), bit-identical (Impl) *)
THist == /\ l <= Len(Tr) /\ Ev.e = "Hist" /\ Step /\ sphase = "Body"
         /\ cse.hist = 1
         /\ Within2(Ev.terr, bndT) /\ Within2(Ev.perr, bndP)
         /\ (PropOnly \/ Ev.same = 1)
         /\ Same
(* Ext (outside the statement of C02): the statistics the model stores; a fit into a model that already holds one *)
TPrep == /\ l <= Len(Tr) /\ Ev.e = "Prep" /\ Step /\ sphase = "Body"
         /\ Ev.avgErr <= PrepTol /\ Ev.sclErr <= PrepTol
         /\ Same
TReuse == /\ l <= Len(Tr) /\ Ev.e = "Reuse" /\ Step /\ sphase = "Body"
          /\ cse.hist = 1
          /\ Within2(Ev.terr, bndT) /\ Within2(Ev.perr, bndP)
          /\ Ev.vlen = Len(Ev.terr)                                   \* one explained variance per component, not appended to the old ones
          /\ Same

TNext == TReset \/ TDropped \/ TCase \/ TSpectrum \/ TLoc \/ TOracle \/ TKern \/ TStop \/ TAxis \/ TPair \/ TScale \/ THist \/ TPrep \/ TReuse
TSpec == TInit /\ [][TNext]_tvars
TraceAccepted == Accepted
Diag == ShowCursor(l)
====
