---- MODULE TracePcaSpectral ----
(* Trace specification for C02 (spectral correctness and equivariance of PCA()), recorded by c02_drv.c.              *)
(* One case = Reset, Case, Spectrum, Oracle, Axis x npc, Pair x 2..3, Scale x 1..2.                                   *)
(* From the logged true spectrum TLC computes how many leading components the property speaks about (up to the first  *)
(* squared singular ratio > 0.7225) and the criterion-implied bound of each (LedgerArith BoundsPT, K = KK); a component  *)
(* is accepted only if it sits on the true axis of the same index, carries its eigenvalue within TolEig and its score  *)
(* and loading errors are within the bound; paired runs must agree within twice the bound.                            *)
EXTENDS Pca, TraceBase
CONSTANT PropOnly
VARIABLES l, sn, ncmp, bndT, bndP, sig, sphase
tvars == <<lvars, svars, l, sn, ncmp, bndT, bndP, sig, sphase>>
Ev == Tr[l]
Step == l' = l + 1 /\ UNCHANGED svars /\ UNCHANGED lvars

MaxCmp == 6
MinS == 1000                          \* spectrum entries below 1e-6 of the largest are not resolved by the 1e-9 quantisation
OracleTol == 1000000                  \* the two oracles (and the construction) agree to 1e-6 of lambda_1 (1e-12 units); observed <= 1e-12
(* eigenvalue tolerance relative to the eigenvalue itself: TolEig's relative part + its absolute part 1e-9*ss0 (ss0 <= entries * lambda_1) *)
EvTol9(nn, s2k, entries) == RelEig9(nn) + (entries + 1) * (One \div s2k) + 2

TInit == /\ l = 1 /\ LInit /\ spectrum = {} /\ remaining = {} /\ extracted = <<>> /\ shape = <<0, 0>>
         /\ sn = 2 /\ ncmp = 0 /\ bndT = <<>> /\ bndP = <<>> /\ sig = <<>> /\ sphase = "Idle"

TReset == /\ l <= Len(Tr) /\ Ev.e = "Reset" /\ Step
          /\ sphase \in {"Idle", "Body"}
          /\ sphase' = "Idle" /\ ncmp' = 0 /\ bndT' = <<>> /\ bndP' = <<>> /\ sig' = <<>> /\ UNCHANGED sn
TDropped == /\ l <= Len(Tr) /\ Ev.e = "Dropped" /\ Step /\ sphase \in {"Idle", "Case"}
            /\ sphase' = "Idle" /\ UNCHANGED <<sn, ncmp, bndT, bndP, sig>>
TCase == /\ l <= Len(Tr) /\ Ev.e = "Case" /\ Step /\ sphase = "Idle"
         /\ Ev.n \in 2..60 /\ Ev.c \in 1..25 /\ Ev.scaling \in -1..5 /\ Ev.L >= 1 /\ Ev.L <= Min2(Ev.n - 1, Ev.c)
         /\ sn' = Ev.n /\ sphase' = "Case" /\ UNCHANGED <<ncmp, bndT, bndP, sig>>
TSpectrum == /\ l <= Len(Tr) /\ Ev.e = "Spectrum" /\ Step /\ sphase = "Case"
             /\ Len(Ev.sig2) >= 1 /\ Ev.sig2[1] = One
             /\ \A i \in 2..Len(Ev.sig2) : Ev.sig2[i] >= 0 /\ Ev.sig2[i] <= Ev.sig2[i-1]          \* the oracle's spectrum is descending
             /\ LET m == NCmp(Ev.sig2, 1, MinS, MaxCmp)
                    b == BoundsPT(Ev.sig2, KK * EpsPca9(sn), m)
                IN ncmp' = m /\ bndT' = b.t /\ bndP' = b.p
             /\ sig' = Ev.sig2 /\ sphase' = "Spectrum" /\ UNCHANGED sn
TOracle == /\ l <= Len(Tr) /\ Ev.e = "Oracle" /\ Step /\ sphase = "Spectrum"
           /\ Ev.err <= OracleTol
           /\ sphase' = "Body" /\ UNCHANGED <<sn, ncmp, bndT, bndP, sig>>

PropAxisOrder(ev) == ev.match = ev.k
PropAxisEigen(ev) == /\ ev.evalErr <= EvTol9(sn, sig[ev.k], Len(sig))
                     /\ ev.vErr <= EvTol9(sn, sig[ev.k], Len(sig))
PropAxisBound(ev) == ev.terr <= bndT[ev.k] /\ ev.perr <= bndP[ev.k]
TAxis == /\ l <= Len(Tr) /\ Ev.e = "Axis" /\ Step /\ sphase = "Body"
         /\ Ev.k >= 1
         /\ (Ev.k <= ncmp => PropAxisOrder(Ev) /\ PropAxisEigen(Ev) /\ PropAxisBound(Ev))
         /\ UNCHANGED <<sn, ncmp, bndT, bndP, sig, sphase>>

(* paired runs: both runs are within bound_k of the same truth, hence within 2 bound_k of each other *)
Within2(errs, b) == \A i \in 1..Min2(ncmp, Len(errs)) : errs[i] <= 2 * b[i]
TPair == /\ l <= Len(Tr) /\ Ev.e = "Pair" /\ Step /\ sphase = "Body"
         /\ Ev.kind \in {"rowperm", "colperm", "rot"}
         /\ Within2(Ev.terr, bndT) /\ Within2(Ev.perr, bndP)
         /\ UNCHANGED <<sn, ncmp, bndT, bndP, sig, sphase>>
TScale == /\ l <= Len(Tr) /\ Ev.e = "Scale" /\ Step /\ sphase = "Body"
          /\ Within2(Ev.terr, bndT) /\ Within2(Ev.perr, bndP)
          /\ \A i \in 1..Min2(ncmp, Len(Ev.verr)) : Ev.verr[i] <= 2 * EvTol9(sn, sig[i], Len(sig))
          /\ UNCHANGED <<sn, ncmp, bndT, bndP, sig, sphase>>

TNext == TReset \/ TDropped \/ TCase \/ TSpectrum \/ TOracle \/ TAxis \/ TPair \/ TScale
TSpec == TInit /\ [][TNext]_tvars
TraceAccepted == Accepted
Diag == ShowCursor(l)
====
