SPECIFICATION DSpec
CONSTANTS
  MaxRows = 0
  MaxThreads = 1
  MaxCond = 0
  NPts = 3
  Dim = 3
  Range = 1
INVARIANT AxiomsHold
INVARIANT CauchySchwarz
