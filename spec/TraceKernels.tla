---- MODULE TraceKernels ----
(* C11, validate direction: what MatrixSort / MatrixReverseSort and MatrixGetMaxValueIndex /               *)
(* MatrixGetMinValueIndex really returned, judged by TLC.                                                  *)
(* The result of sorting is not a function of the input when keys tie, so it cannot be replayed against one  *)
(* expected value: the harness records input and output and the specification accepts ANY row permutation     *)
(* ordered by the key column (Prop layer).  The Impl layer pins the permutation the present exchange sort     *)
(* produces; a different but valid tie order is SPEC-DRIFT, not a violation.                                *)
EXTENDS Kernels, TraceBase
CONSTANT PropOnly
VARIABLE l
tvars == <<kern, r, k, c, sd, st, l>>
Ev == Tr[l]
Step == l' = l + 1 /\ UNCHANGED <<kern, r, k, c, sd, st>>

TInit == l = 1 /\ kern = "Sort" /\ r = 0 /\ k = 0 /\ c = 0 /\ sd = 0 /\ st = 1
TReset == l <= Len(Tr) /\ Ev.e = "Reset" /\ Step

Shaped(d, rows, cols) == Len(d) = rows /\ \A i \in 1..rows : Len(d[i]) = cols
PropSort(ev) == /\ ev.exact = 1                                    \* every cell of the result is a cell value of the input scale
                /\ Shaped(ev.m, ev.rows, ev.cols) /\ Shaped(ev.res, ev.rows, ev.cols)
                /\ ev.key \in 1..ev.cols
                /\ IsSortOf(ev.res, ev.m, ev.key, ev.rev = 1)
ImplSort(ev) == PropOnly \/ ev.res = ExchangeSort(ev.m, ev.key, ev.rev = 1)
TSort == l <= Len(Tr) /\ Ev.e = "Sort" /\ Step /\ PropSort(Ev) /\ ImplSort(Ev)

(* MatrixGetMaxValueIndex / MatrixGetMinValueIndex: the returned (0-based) position must hold an extreme value of the   *)
(* recorded matrix (Prop: any extreme cell); the Impl layer pins the one the column-major scan ends on.                    *)
PropArg(ev) == /\ Shaped(ev.m, ev.rows, ev.cols) /\ ev.rows >= 1 /\ ev.cols >= 1 /\ ev.max \in {0, 1}
               /\ IsArgExt(ev.m, ev.rows, ev.cols, ev.row + 1, ev.col + 1, ev.max = 1)
ImplArg(ev) == PropOnly \/ LastArgExt(ev.m, ev.rows, ev.cols, ev.row + 1, ev.col + 1, ev.max = 1)
TArgExt == l <= Len(Tr) /\ Ev.e = "ArgExt" /\ Step /\ PropArg(Ev) /\ ImplArg(Ev)

(* K3 ledger: a statistic that does not depend on the location of the data (variance, standard deviation, covariance) was      *)
(* computed again on columns moved by `off` units (|mean| / spread = off / sp, 1e5 .. 5e5) - the harness logs the largest           *)
(* relative residual against the exact value in units of 1e-12.  The tolerance is a function of what is logged: any two-pass /      *)
(* updating algorithm keeps n eps + n^2 eps^2 cond^2 (far below 1e-12 here); a one-pass sum-of-squares formula loses eps cond^2     *)
(* (1e-6 .. 1e-4 here).  LocTol sits between them and grows with the conditioning: 1e-10 + n^2 (cond / 1024)^2 / 200 * 1e-12.        *)
LocCondK(ev) == (ev.off \div ev.sp) \div 1024
LocTol(ev) == 100 + (ev.n * ev.n * LocCondK(ev) * LocCondK(ev)) \div 200
PropLoc(ev) == /\ ev.n \in 2..100 /\ ev.sp \in 1..1000 /\ ev.off \in 1..1048576      \* inside the class the tolerance was derived for
               /\ ev.res >= 0 /\ ev.res <= LocTol(ev)
TLoc == l <= Len(Tr) /\ Ev.e = "Loc" /\ Step /\ PropLoc(Ev)

TNext == TReset \/ TSort \/ TArgExt \/ TLoc
TSpec == TInit /\ [][TNext]_tvars
TraceAccepted == Accepted
Diag == ShowCursor(l)
====
