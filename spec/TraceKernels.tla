---- MODULE TraceKernels ----
(* C11, validate direction: what MatrixSort / MatrixReverseSort and MatrixGetMaxValueIndex /               *)
(* MatrixGetMinValueIndex really returned, judged by TLC.                                                  *)
(* The result of sorting is not a function of the input when keys tie, so it cannot be replayed against one  *)
(* expected value: the harness records input and output and the specification accepts ANY row permutation     *)
(* ordered by the key column (Prop layer).  The Impl layer pins the permutation the present exchange sort     *)
(* produces; a different but valid tie order is SPEC-DRIFT, not a violation.                                *)
EXTENDS Kernels, TraceBase
CONSTANT PropOnly
VARIABLE l
tvars == <<kern, r, k, c, sd, st, l>>
Ev == Tr[l]
Step == l' = l + 1 /\ UNCHANGED <<kern, r, k, c, sd, st>>

TInit == l = 1 /\ kern = "Sort" /\ r = 0 /\ k = 0 /\ c = 0 /\ sd = 0 /\ st = 1
TReset == l <= Len(Tr) /\ Ev.e = "Reset" /\ Step

Shaped(d, rows, cols) == Len(d) = rows /\ \A i \in 1..rows : Len(d[i]) = cols
PropSort(ev) == /\ ev.exact = 1                                    \* every cell of the result is a cell value of the input scale
                /\ Shaped(ev.m, ev.rows, ev.cols) /\ Shaped(ev.res, ev.rows, ev.cols)
                /\ ev.key \in 1..ev.cols
                /\ IsSortOf(ev.res, ev.m, ev.key, ev.rev = 1)
ImplSort(ev) == PropOnly \/ ev.res = ExchangeSort(ev.m, ev.key, ev.rev = 1)
TSort == l <= Len(Tr) /\ Ev.e = "Sort" /\ Step /\ PropSort(Ev) /\ ImplSort(Ev)

(* MatrixGetMaxValueIndex / MatrixGetMinValueIndex: the returned (0-based) position must hold an extreme value of the   *)
(* recorded matrix (Prop: any extreme cell); the Impl layer pins the one the column-major scan ends on.                    *)
PropArg(ev) == /\ Shaped(ev.m, ev.rows, ev.cols) /\ ev.rows >= 1 /\ ev.cols >= 1 /\ ev.max \in {0, 1}
               /\ IsArgExt(ev.m, ev.rows, ev.cols, ev.row + 1, ev.col + 1, ev.max = 1)
ImplArg(ev) == PropOnly \/ LastArgExt(ev.m, ev.rows, ev.cols, ev.row + 1, ev.col + 1, ev.max = 1)
TArgExt == l <= Len(Tr) /\ Ev.e = "ArgExt" /\ Step /\ PropArg(Ev) /\ ImplArg(Ev)

TNext == TReset \/ TSort \/ TArgExt
TSpec == TInit /\ [][TNext]_tvars
TraceAccepted == Accepted
Diag == ShowCursor(l)
====
