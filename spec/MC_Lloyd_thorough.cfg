\* 4 points, distinct start objects (initialisers 1..3), every k
SPECIFICATION Spec
CONSTANTS
  NPts = 4
  Dim = 2
  Grid = 2
  KMax = 4
  DistinctStart = TRUE
  IterCap = 8
  Variant = "dowhile"
  Off = 0
  SExp = 0
INVARIANT TypeOK
INVARIANT PostHolds
INVARIANT CostMonotone
INVARIANT CapNeedsRestart
INVARIANT StopIsFixedPoint
CHECK_DEADLOCK FALSE
