SPECIFICATION Spec
CONSTANTS
  Paths = {"p1", "p2"}
  MaxHist = 4
  DropTables = FALSE
  SaveAll = TRUE
  ReadBlock = 0
  SizeSet = {1, 2, 3}
  Rewrites = FALSE
  Shape = "all"
  Reuse = "off"
INVARIANT ReadsLast
VIEW MCView
CHECK_DEADLOCK FALSE
