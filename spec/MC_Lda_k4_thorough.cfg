\* thorough tier, second scope: up to FOUR classes on label vectors of length <= 6 (the cases with four classes are replayed as well)
SPECIFICATION Spec
CONSTANTS
  MaxN = 6
  MaxK = 4
  NPat = 3
  LabelMap = "plus_start"
INVARIANT InQuantifier
INVARIANT RowLabelBijection
INVARIANT PredictionIsALabel
INVARIANT TableIndexInRange
INVARIANT PriorsSumToOne
INVARIANT MeansGiveGrandMean
\* round 3: the exact discriminant is a difference of ONE score per class, some row is never beaten, mirror data tie exactly,
\* renumbering moves labels not rows, confusion counts partition the objects
INVARIANT DiscTheorems
INVARIANT StartSgn
INVARIANT ConfusionModel
\* GEN: Emit prints one replay case per distinct state (as an invariant it is evaluated exactly once per state)
INVARIANT Emit
