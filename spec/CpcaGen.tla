---- MODULE CpcaGen ----
(* C09 (GEN): the shape space of the stratified conformance cases.  TLC enumerates every multi-block shape <<n, widths, nproc>> of the  *)
(* scope below, proves that each lies inside the quantifier of C09 (PropFitC of Cpca.tla) and that the threaded kernel's slicing       *)
(* (KernelSlices) hands every index of every vector length CPCA gives it (width_b, n, blocks) to exactly one worker, and emits the      *)
(* shape with its input-class tags (INPUT-CLASSES.md K1, K2, K6).  lib/checks/c09.py draws the stratified cases from these emits;      *)
(* the remaining class coordinates (scaling, components, constant variables, offsets, magnitudes, histories, sized outputs, duplicates) *)
(* are drawn per case and checked by PropFitC when the recorded Fit event is validated.                                                  *)
EXTENDS Cpca, Json, IOUtils

CONSTANT GenTier       \* "quick" | "thorough" | "list"; "list": the shapes of the cases that were executed (random sweep included), read from the
                       \* ndjson file named by environment variable SHAPES, to be tagged by the same definitions
VARIABLE g             \* <<n, widths, nproc>>
gvars == <<cvars, g>>

GenNs == IF GenTier = "quick" THEN {5, 7, 8, 9, 17, 30} ELSE {5, 6, 7, 8, 9, 10, 11, 12, 15, 16, 17, 23, 24, 25, 29, 30}
GenWs == IF GenTier = "quick" THEN {1, 2, 3, 5, 8} ELSE 1..8
GenMtWs == {1, 2, 8}
GenNps == IF GenTier = "quick" THEN {2, 3, 16} ELSE {2, 3, 5, 16, 24}
SeqsOver(S) == UNION {[1..B -> S] : B \in 2..4}
GenList == LET s == ndJsonDeserialize(IOEnv.SHAPES) IN {<<s[i].n, s[i].w, s[i].np>> : i \in 1..Len(s)}
GenShapes == IF GenTier = "list" THEN GenList
             ELSE IF GenTier = "quick"
                  THEN {<<n, w, 1>> : n \in GenNs, w \in [1..2 -> GenWs] \cup [1..3 -> GenWs] \cup [1..4 -> GenMtWs]}
                       \cup {<<n, w, np>> : n \in {5, 7, 9, 17, 30}, w \in SeqsOver(GenMtWs), np \in GenNps}
             ELSE {<<n, w, 1>> : n \in GenNs, w \in [1..2 -> GenWs] \cup [1..3 -> GenWs] \cup [1..4 -> {1, 2, 3, 5, 8}]}
                  \cup {<<n, w, np>> : n \in GenNs, w \in SeqsOver(GenMtWs), np \in GenNps}

GN == g[1]
GW == g[2]
GB == Len(g[2])
GP == g[3]
GM == SumSeq(GW, GB)
MinW == CHOOSE x \in {GW[b] : b \in 1..GB} : \A b \in 1..GB : x <= GW[b]
KernelLens == {GN, GB} \cup {GW[b] : b \in 1..GB}

Tag(c, s) == IF c THEN {s} ELSE {}
ShapeTags ==
     Tag(GN > GM, "K1:tall(n>M)") \cup Tag(GN < GM, "K1:concat-wide(n<M)") \cup Tag(GN = GM, "K1:n=M")
  \cup Tag(GN = GM + 1 \/ GN + 1 = GM, "K1:n=M+-1")
  \cup Tag(\E b \in 1..GB : GW[b] > GN, "K1:block-wider-than-n")
  \cup Tag(\E b \in 1..GB : GW[b] = 1, "K1:width1-block") \cup Tag(\A b \in 1..GB : GW[b] = 1, "K1:all-width1")
  \cup Tag(\E b \in 1..GB : GW[b] = GN + 1 \/ GW[b] + 1 = GN, "K1:n=width+-1")
  \cup Tag(\A b \in 1..GB : GW[b] = GW[1], "K1:equal-widths") \cup Tag(\E b \in 1..GB : GW[b] # GW[1], "K1:different-widths")
  \cup {"K1:blocks=" \o ToString(GB)}
  \cup Tag(GN = 5, "K1:n=5") \cup Tag(GN = 30, "K1:n=30") \cup Tag(GN = 30 /\ GB = 4 /\ \A b \in 1..GB : GW[b] = 8, "K1:largest-shape")
  \cup Tag(MinW >= GN, "K1:rank-limited-by-n")
  \cup Tag(GN % 4 = 0, "K2:n=4k") \cup Tag(GN % 4 = 1, "K2:n=4k+1") \cup Tag(GN % 4 = 3, "K2:n=4k-1")
  \cup Tag(\E b \in 1..GB : GW[b] % 4 = 0, "K2:width=4k") \cup Tag(GM % 4 = 0, "K2:M=4k") \cup Tag(GM % 4 = 1, "K2:M=4k+1") \cup Tag(GM % 4 = 3, "K2:M=4k-1")
  \cup (IF GP = 1 THEN {} ELSE
           Tag(\E b \in 1..GB : GW[b] < GP, "K6:width<nproc") \cup Tag(GB < GP, "K6:blocks<nproc") \cup Tag(GN < GP, "K6:n<nproc")
        \cup Tag(GN % GP = 1 \/ GN % GP = GP - 1, "K6:n=k*nproc+-1")
        \cup Tag(RaggedTail(GN, GP), "K6:n-ragged-slice") \cup Tag(IdleTail(GN, GP), "K6:n-idle-worker")
        \cup Tag(\E b \in 1..GB : GW[b] >= GP /\ RaggedTail(GW[b], GP), "K6:width-ragged-slice")
        \cup Tag(\E b \in 1..GB : IdleTail(GW[b], GP), "K6:width-idle-worker")
        \cup Tag(\E b \in 1..GB : GW[b] = 1, "K6:single-index-vector"))

GInit == CInit /\ g \in GenShapes
GNext == UNCHANGED gvars
GSpec == GInit /\ [][GNext]_gvars

AsFit == [blocks |-> GB, widths |-> GW, n |-> GN, scaling |-> 0, npc |-> 1, nproc |-> GP, dec |-> 0, cc |-> 0, off |-> 0, hist |-> 0, sized |-> 0, deg |-> 0,
          bm |-> [b \in 1..GB |-> 0]]
GenInQuantifier == PropFitC(AsFit)
GenSlicesCover == GP > 1 => \A len \in KernelLens : /\ Len(KernelSlices(len, GP)) = GP /\ SliceCover(KernelSlices(len, GP), len)
                                                     /\ (EmptySlices(len, GP) <=> KernelSlices(len, GP)[GP] = <<len, len>> /\ len < GP)
GenTagged == /\ ShapeTags # {}
             /\ (GP >= 5 => "K6:blocks<nproc" \in ShapeTags)                    \* the super-weight product always has idle workers then
             /\ (GP > GN => {"K6:n<nproc", "K6:width<nproc"} \subseteq ShapeTags)
Emit == PrintT("@@" \o ToJson([n |-> GN, w |-> GW, np |-> GP, tags |-> ShapeTags]))
====
