SPECIFICATION MSpecK
CONSTANTS
  MaxNy = 2
  MaxNlv = 2
  ResidualIndex = "mod_ny"
  Deep = FALSE
  TrackPairs = FALSE
  R2Direct = TRUE
INVARIANT InvShape
INVARIANT InvR2RangeK
INVARIANT InvFloorK
INVARIANT InvR2Link
INVARIANT InvHist
INVARIANT InvExk
PROPERTY PropR2Mono
CHECK_DEADLOCK FALSE
