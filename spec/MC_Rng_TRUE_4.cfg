SPECIFICATION Spec
CONSTANTS
  NW = 4
  K = 1
  PerThread = TRUE
  Shape = "seedDraw"
INVARIANT StreamIsolation
INVARIANT NoClock
INVARIANT SeedDrawStream
INVARIANT EqualsSequential
INVARIANT WordPrivate
VIEW NoSched
CHECK_DEADLOCK FALSE
