---- MODULE PlsLs ----
(* C04 - PLS regression is a correct least-squares family: the least-squares ledger of Pls.tla (section LS) carried over to the    *)
(* input / history classes of INPUT-CLASSES.md.  This module EXTENDS Pls.tla (shared with C03) and never changes it: an event of a *)
(* class that existed before (both offsets below 1000 spreads) is decided by the very operators PRss / POls / PBeta / PAffine /    *)
(* PXScale of Pls.tla; for a centred block far from the origin (class K3) the same guards are evaluated with tolerances that are   *)
(* functions of what the Fit event logs about the INPUT (offx, offy, objects) and of the logged least-squares solution (bn).       *)
(*                                                                                                                                  *)
(* Clause table of the statement (who decides it, which event carries it):                                                         *)
(*  S1 "with as many LVs as rank(X) the PLS fitted responses coincide with the OLS fitted responses, one or many responses,        *)
(*      any scaling of either block"          LOls: full = 1 => err <= TolOls /\ |rssPls - rssOls| <= TolRssFull     event Ols     *)
(*  S2 "training RSS never increases when an LV is added"   LRss: rss <= prev[j] + TolMonoOf (prev kept here)        event Rss     *)
(*     (and no model beats the least-squares optimum: rss >= floorRss[j] - TolMonoOf, LOls: rssPls >= rssOls - FloorTol)  Rss, Ols *)
(*  S3 "R2 is non-decreasing in the LV count"  LRss: R2Guard - the REPORTED R2 (PLSRegressionStatistics) is linked to One - rss     *)
(*     for a centred response and must not fall below the previous reported value of the response (r2prev kept here);              *)
(*     r2gap <= TolAlg ties the reported R2 / RMSE to their definitions                                               event Rss     *)
(*  S4 "the coefficient form for a LVs predicts what the score-based predictor predicts, training and unseen objects"               *)
(*                                             LBeta: errTrain, errNew <= TolBetaOf, every a in 1..nlv               event Beta    *)
(*  S5 "predictions of a single centred response are equivariant to y -> c*y + d"                                                   *)
(*                                             LAffine: ny = 1, ysc >= 0, c # 0, errTrain, errNew <= TolAffOf        event Affine  *)
(*  Q  quantifier (shape, rank, LV count, options): PFit of Pls.tla + the class tags re-derived in LFit              event Fit     *)
(* Modelled, not stated (deviations are extra findings, never verdicts): statistics of unseen objects = their definitions (LStat   *)
(* was already a verdict of the existing check and stays one), bias = |1 - slope| (LBias), per-column change of units (LXUnits),   *)
(* OLS coefficients applied to unseen objects = score-based predictions at nlv = rank (LOlsNew),                                   *)
(* exact fit from the Krylov count on (LExact), change of units of the whole predictor block (LXScale: the statement's             *)
(* equivariance clause is about the RESPONSE only).                                                                                *)
(*                                                                                                                                  *)
(* History ledger (class K7): the ledger counts the fits made so far in one operating-system process (nfits) and remembers the     *)
(* dimensions of the previous one; the position and the relation "first / same dimensions / other dimensions" a Fit event claims    *)
(* must be the ones the ledger derives.  Every guard above is evaluated for every fit of a history, whatever was fitted before.     *)
EXTENDS Pls
CONSTANTS Deep, TrackPairs, R2Direct   \* Deep: larger alphabets of the small model; TrackPairs: keep the set of scaling pairs on which S1 was decided; R2Direct TRUE: S3 is guarded on the reported R2 itself (trace validation); FALSE: model variant showing that S3 follows from S2 + the link
VARIABLES r2prev, r2a, nfits, pdims, exk, pairs
lsvars == <<r2prev, r2a, nfits, pdims, exk, pairs>>
allvars == <<pvars, lsvars>>

Max(a, b) == IF a < b THEN b ELSE a
BnCap == 50000                \* admission: sum |beta_j| sd(x_j) / sd(y) <= 50 (1e-3 units)
DrCap == 1000000              \* D / TSS above 1000: the reported R2 of an uncentred response says nothing about the RSS ledger
TolLink == TolMono + 2        \* reported R2 (1e-9, rounded) against One - rss (rss rounded up): the 1e-8 of r2gap plus two quantisations

\* ---------------------------------------------------------------------------------------------- tolerance functions of the logged input
\* n_ objects, ox / oy = offsets of the centred predictor / response block in rms spreads (0 for a block used as it is), bn = logged size
\* of the least-squares coefficients (1e-3).  Every term is 0 below 1000 (Repr) / 4000 (MeanOf) spreads: ThTolBase.
\* Repr(o): two roundings of a number o spreads away from the origin, in 1e-12 of the spread (Pls.tla).
\* MeanOf(n_, o): a column mean by an n-term sum of such numbers (n/2 roundings), same units.
MeanOf(n_, o) == n_ * (o \div 4000)
\* rss is a sum of squares of residuals each known to Repr(oy): d(rss)/D <= 2 sqrt(rss/D) Repr + Repr^2, two rss values compared; 1e-9 units
TolMonoOf(oy) == TolMono + (4 * Repr(oy)) \div 1000 + (IF oy >= 1000 THEN 1 ELSE 0)
\* a shift of the predictor means by MeanOf moves the fitted values by sum |beta_j| shift_j (<= MeanOf * bn), the response mean moves them directly
ShiftOf(n_, ox, bn) == LET mx == MeanOf(n_, ox) IN (mx \div 1000) * bn + ((mx % 1000) * bn) \div 1000
TolOlsOf(n_, ox, oy, bn) == TolAlg + Repr(oy) + MeanOf(n_, oy) + ShiftOf(n_, ox, bn)
\* |rssPls - rssOls| <= 2 sqrt(rss) err + err^2
TolRssFullOf(n_, ox, oy, bn) == TolMonoOf(oy) + (TolOlsOf(n_, ox, oy, bn) - TolAlg) \div 500
TolBetaOf(oy) == TolAlg + Repr(oy)
TolAffOf(n_, oy, o2) == LET o == Max(oy, o2) IN TolAlg + 2 * Repr(o) + MeanOf(n_, o)
\* R2 = 1 - RSS/TSS: a step of TolMonoOf in RSS/D is a step of TolMonoOf * D/TSS in R2 (dr = D/TSS in 1e-3, 1000 for a centred response)
R2SlackOf(oy, dr) == LET t == TolMonoOf(oy) + 2 IN t * (dr \div 1000) + (t * (dr % 1000)) \div 1000 + 2

OffSet == {0, 1, 999, 1000, 3999, 4000, 50000, 8000000, 100000000, Sat}
ThTolBase == \A n_ \in {6, 23, 40}, ox \in {0, 1, 999}, oy \in {0, 500, 999}, bn \in {0, 1000, BnCap}, o2 \in {0, 999} :
               /\ TolMonoOf(oy) = TolMono /\ TolOlsOf(n_, ox, oy, bn) = TolAlg /\ TolRssFullOf(n_, ox, oy, bn) = TolMono
               /\ TolBetaOf(oy) = TolAlg /\ TolAffOf(n_, oy, o2) = TolAlg /\ R2SlackOf(oy, 1000) = TolMono + 4
\* monotone in every argument, never below the base tolerance, and no 32-bit overflow up to the saturated offset
ThTolMonotone == \A n_ \in {6, 40}, o1 \in OffSet, o2 \in OffSet, bn \in {0, 1000, BnCap} :
                   o1 <= o2 => /\ TolMonoOf(o1) <= TolMonoOf(o2) /\ TolMonoOf(o1) >= TolMono
                               /\ TolOlsOf(n_, o1, o1, bn) <= TolOlsOf(n_, o2, o2, bn) /\ TolOlsOf(n_, o1, o2, bn) >= TolAlg
                               /\ TolOlsOf(n_, o1, o2, 0) <= TolOlsOf(n_, o1, o2, bn)
                               /\ TolRssFullOf(n_, o1, o1, bn) <= TolRssFullOf(n_, o2, o2, bn) /\ TolRssFullOf(n_, o1, o2, bn) >= TolMonoOf(o2)
                               /\ TolBetaOf(o1) <= TolBetaOf(o2) /\ TolAffOf(n_, o1, 0) <= TolAffOf(n_, o2, 0) /\ TolAffOf(n_, 0, o1) = TolAffOf(n_, o1, 0)
                               /\ R2SlackOf(o1, 1000) <= R2SlackOf(o2, DrCap)
\* the tolerances stay meaningful: at 1e8 spreads and 40 objects the OLS limit is still decided to 1e-4 or better for coefficients of size 1,
\* monotonicity to 5e-7 of the total sum of squares
ThTolMeaningful == /\ TolOlsOf(40, 100000000, 100000000, 1000) <= 100000000 /\ TolMonoOf(100000000) <= 500
                   /\ TolOlsOf(40, 1000000, 1000000, 1000) <= 40000 /\ TolAffOf(40, 100000000, 0) <= 2000000
ASSUME ThTolBase /\ ThTolMonotone /\ ThTolMeaningful

\* block-boundary code of a size (class K2): residue modulo 4 (0 multiple, 1 one above, 3 one below), +4 next to a multiple of 8
BlkCode(v) == (v % 4) + (IF v >= 7 /\ (v % 8) \in {0, 1, 7} THEN 4 ELSE 0)

K3 == offx >= 1000 \/ offy >= 1000                \* a centred block at least 1000 spreads away from the origin

LsInit == /\ r2prev = [j \in 0..3 |-> 0] /\ r2a = [j \in 0..3 |-> 0] /\ nfits = 0 /\ pdims = <<0, 0, 0, 0>> /\ exk = 0 /\ pairs = {}
KInit == PInit /\ LsInit

\* sub = 0: a new process starts; otherwise the fit follows `sub` earlier fits of the same process
LReset(sub) == /\ (sub = 0 \/ sub = nfits)
               /\ phase' = "idle" /\ UNCHANGED <<shapeV, k, colsSeen, residSeen, prev, lastA, floorRss>>
               /\ nfits' = (IF sub = 0 THEN 0 ELSE nfits)
               /\ pdims' = (IF sub = 0 THEN <<0, 0, 0, 0>> ELSE pdims)
               /\ UNCHANGED <<r2prev, r2a, exk, pairs>>

HistRel(n_, p_, ny_, nlv_) == IF nfits = 0 THEN "first" ELSE IF pdims = <<n_, p_, ny_, nlv_>> THEN "same" ELSE "other"
\* the quantifier of C04: full column rank X of 6..40 x 1..10 (objects >= variables: tall, n = p+1, or square and used as it is), 1..3 responses
LFit(n_, p_, ny_, nlv_, xs_, ys_, rank_, offx_, offy_, hist_, hrel_, exk_) ==
  /\ PFit(n_, p_, ny_, nlv_, xs_, ys_, rank_, offx_, offy_)
  /\ p_ <= 10 /\ ny_ <= 3 /\ n_ >= p_ /\ (n_ = p_ => xs_ < 0)
  /\ rank_ \in {p_, p_ - 1}                                            \* p - 1: one predictor below the zero-scale guard (small-unit class)
  /\ (xs_ < 0 => offx_ = 0) /\ (ys_ < 0 => offy_ = 0)                   \* offsets are logged for centred blocks only
  /\ hist_ = nfits /\ hrel_ = HistRel(n_, p_, ny_, nlv_)
  /\ exk_ \in 0..p_
  /\ r2prev' = [j \in 0..3 |-> 0] /\ r2a' = [j \in 0..3 |-> 0]
  /\ nfits' = nfits + 1 /\ pdims' = <<n_, p_, ny_, nlv_>> /\ exk' = exk_ /\ UNCHANGED pairs

\* S3 on the reported R2 (1e-9, signed, saturating): linked to the rss ledger for a centred response, non-decreasing per response
R2Guard(a, j, rss, r2, dr) ==
  /\ r2 >= 0 - Sat /\ r2 <= One + TolLink /\ dr >= 1000 /\ (ysc >= 0 => dr = 1000)
  /\ (ysc >= 0 => r2 >= 0 - One /\ Abs(r2 - (One - rss)) <= TolLink)          \* range conjunct first: a saturated R2 must not overflow the difference
  /\ (R2Direct /\ r2a[j] > 0 /\ dr <= DrCap => r2 + R2SlackOf(offy, dr) >= r2prev[j])

LRss(a, j, rss, r2gap, r2, dr) ==
  /\ IF ~K3 THEN PRss(a, j, rss, r2gap)
     ELSE /\ phase = "fit" /\ a \in 1..nlv /\ j \in Resp /\ a > lastA[j]
          /\ rss >= 0 /\ rss <= prev[j] + TolMonoOf(offy)
          /\ rss >= floorRss[j] - TolMonoOf(offy)
          /\ r2gap <= TolAlg
          /\ prev' = [prev EXCEPT ![j] = rss] /\ lastA' = [lastA EXCEPT ![j] = a]
          /\ UNCHANGED <<shapeV, phase, k, colsSeen, residSeen, floorRss>>
  /\ rss <= One + nlv * TolMonoOf(offy)
  /\ R2Guard(a, j, rss, r2, dr)
  /\ r2prev' = [r2prev EXCEPT ![j] = r2] /\ r2a' = [r2a EXCEPT ![j] = a]
  /\ UNCHANGED <<nfits, pdims, exk, pairs>>

FloorTol(bn) == TolRssFullOf(nobj, offx, offy, IF offx >= 4000 THEN bn ELSE 0)
LOls(j, rssPls, rssOls, err, full, bn) ==
  /\ bn >= 0 /\ (xsc < 0 => bn = 0)
  /\ IF ~K3 THEN POls(j, rssPls, rssOls, err, full)
     ELSE /\ phase = "fit" /\ j \in Resp
          /\ (offx >= 4000 => bn <= BnCap)                            \* admission of the K3 generators (and no overflow in ShiftOf)
          /\ full = (IF nlv = nvar THEN 1 ELSE 0)
          /\ (lastA[j] = nlv => rssPls = prev[j])
          \* "no PLS model beats the least-squares optimum" holds in the space the MODEL spans; the oracle's space differs from it by the rounding
          \* of the stored column means (MeanOf): the floor carries the same logged-input tolerance as the OLS limit itself
          /\ rssOls >= 0 /\ rssPls >= rssOls - FloorTol(bn)
          /\ prev[j] >= rssOls - FloorTol(bn)
          /\ (full = 1 => err <= TolOlsOf(nobj, offx, offy, bn) /\ Abs(rssPls - rssOls) <= TolRssFullOf(nobj, offx, offy, bn))
          \* the floor later Rss events are held against (LRss compares with TolMonoOf) is lowered by the part of the tolerance that is not TolMonoOf
          /\ floorRss' = [floorRss EXCEPT ![j] = Max(0, rssOls - (FloorTol(bn) - TolMonoOf(offy)))]
          /\ UNCHANGED <<shapeV, phase, k, colsSeen, residSeen, prev, lastA>>
  /\ UNCHANGED <<r2prev, r2a, nfits, pdims, exk>>
  \* quantifier bookkeeping: S1 has been decided (accepted) at nlv = rank for this pair of scaling options, one / several responses
  /\ pairs' = (IF TrackPairs /\ full = 1 THEN pairs \cup {<<xsc, ysc, IF ny = 1 THEN 1 ELSE 2>>} ELSE pairs)

LBeta(a, errTrain, errNew) ==
  /\ IF offy < 1000 THEN PBeta(a, errTrain, errNew)
     ELSE /\ phase = "fit" /\ ny = 1 /\ a \in 1..nlv
          /\ errTrain <= TolBetaOf(offy) /\ errNew <= TolBetaOf(offy)
          /\ UNCHANGED pvars
  /\ UNCHANGED lsvars

LStat(a, j, r2gap, rmsegap) == PStat(a, j, r2gap, rmsegap) /\ UNCHANGED lsvars

\* off2 = offset (in spreads) of the transformed response c*y + d, from the transformed data alone
LAffine(c, d, off2, errTrain, errNew) ==
  /\ off2 \in 0..Sat
  /\ IF offy < 1000 /\ off2 < 1000 THEN PAffine(c, d, errTrain, errNew)
     ELSE /\ phase = "fit" /\ ny = 1 /\ ysc >= 0 /\ c # 0
          /\ errTrain <= TolAffOf(nobj, offy, off2) /\ errNew <= TolAffOf(nobj, offy, off2)
          /\ UNCHANGED pvars
  /\ UNCHANGED lsvars

LXScale(lg, errTrain, errNew) ==
  /\ IF offy < 1000 THEN PXScale(lg, errTrain, errNew)
     ELSE /\ phase = "fit" /\ lg \in -8..8 /\ errTrain <= TolBetaOf(offy) /\ errNew <= TolBetaOf(offy) /\ UNCHANGED pvars
  /\ UNCHANGED lsvars

LReuse(calls, err) == PReuse(calls, err) /\ UNCHANGED lsvars
LEnd(lvs, cols, full, xfull) == PEnd(lvs, cols, full, xfull) /\ UNCHANGED lsvars

\* "any scaling of either block, one or many responses": every one of the 7 x 7 pairs of options, with one and with several responses, has had
\* its OLS limit accepted on this trace (the event is appended by the check after the stratified run; bookkeeping of the quantifier)
AllPairs == {<<x, y, m>> : x \in -1..5, y \in -1..5, m \in 1..2}
LCovered(count) == /\ TrackPairs /\ count = Cardinality(AllPairs) /\ pairs = AllPairs /\ UNCHANGED allvars

\* ---- modelled, outside the statement
\* nlv = rank: the independent least-squares coefficients applied to UNSEEN objects give what the score-based predictor predicts for them (the
\* statement speaks of the fitted responses only); no claim for an unseen object more than 10 training spreads from the training mean
LOlsNew(j, err, bn, lev) == /\ phase = "fit" /\ j \in Resp /\ nlv = nvar /\ bn >= 0 /\ lev >= 0 /\ (K3 /\ offx >= 4000 => bn <= BnCap)
                            /\ (lev <= 10 => err <= (IF ~K3 THEN TolAlg ELSE TolOlsOf(nobj, offx, offy, IF offx >= 4000 THEN bn ELSE 0)))
                            /\ UNCHANGED allvars
\* third statistic of PLSRegressionStatistics: bias = |1 - slope of predicted on observed|
LBias(a, j, gap, gapNew) == /\ phase = "fit" /\ a \in 1..nlv /\ j \in Resp /\ gap <= TolAlg /\ gapNew <= TolAlg /\ UNCHANGED allvars
\* per-column change of units 2^k (|k| <= kmax) under a scaling option that divides every column by a statistic of that column
LXUnits(kmax, errTrain, errNew) == /\ phase = "fit" /\ xsc \in {1, 2, 4, 5} /\ kmax \in 0..30
                                   /\ errTrain <= TolBetaOf(offy) /\ errNew <= TolBetaOf(offy) /\ UNCHANGED allvars
\* a response that is an exact linear function of X whose cross-product matrix has few distinct eigenvalues is fitted exactly from exk LVs on
LExact(a, j, rss) == /\ phase = "fit" /\ exk > 0 /\ a \in exk..nlv /\ j \in Resp /\ rss <= TolMonoOf(offy) /\ UNCHANGED allvars

\* ---------------------------------------------------------------------------------------------- (M) small model of the extended ledger
\* Every guard is tried AT its tolerance and one unit above it, with the tolerance the ledger computes for the fit at hand (offsets below /
\* at / far above the thresholds of the tolerance functions).
\* <<p, ny, nlv, y option, offx, offy, exk>>
MCfgQuick == { <<2, 1, 2, 0, 0, 0, 1>>, <<2, 1, 2, 0, 999, 100000000, 0>>, <<2, 2, 1, 0 - 1, 8000000, 0, 0>> }
MCfgDeep == MCfgQuick \cup { <<1, 1, 1, 0, 0, 0, 0>>, <<2, 2, 1, 0, 0, 50000, 0>>, <<2, 1, 2, 0, 100000000, 999, 0>>, <<2, 1, 2, 0 - 1, 4000, 0, 0>>, <<2, 2, 2, 0, 0, 0, 0>>,
                             <<2, 2, 2, 0, 8000000, 100000000, 2>>, <<2, 1, 1, 0, 1000, 1000, 1>>, <<2, 1, 2, 0, 3999, 999, 0>>, <<2, 1, 2, 0, 8000000, 8000000, 0>>,
                             <<3, 1, 3, 0, 0, 8000000, 2>>, <<3, 1, 3, 0 - 1, 0, 0, 0>> }
MLvs == IF Deep THEN 1..3 ELSE 1..2
MCfg == IF Deep THEN MCfgDeep ELSE MCfgQuick
MBase == 300000000
MRss == LET t == TolMonoOf(offy) IN {0, MBase, MBase + t, MBase + t + 1} \cup (IF Deep THEN {One} ELSE {})
MR2 == LET t == R2SlackOf(offy, 1000) IN {One - MBase, One - MBase - TolLink - 1, One - MBase - t - TolLink - 1, 0 - Sat} \cup (IF Deep THEN {One, One - MBase - TolLink} ELSE {})
MErrOf(t) == {0, t, t + 1}
MBn == {0, BnCap, BnCap + 1}
MFitK(maxfits) == /\ nfits < maxfits
                  /\ \E c \in MCfg, h \in 0..2, rel \in {"first", "same", "other"} :
                        LFit(6, c[1], c[2], c[3], 1, c[4], c[1], c[5], c[6], h, rel, c[7])
MResetK == \E s \in 0..2 : LReset(s)
\* ledger scope: one fit per process (the history ledger is independent of the rss / R2 ledgers: scope MNextH)
MRssA == \E a \in MLvs, j \in 0..1, r \in MRss, q \in MR2 : LRss(a, j, r, 0, q, 1000) \/ LRss(a, j, r, 0, q, 1500) \/ LRss(a, j, r, TolAlg + 1, q, 1000) \/ LRss(a, j, r, 0, q, DrCap + 1)
MOlsA == \E j \in 0..1, f \in 0..1, b \in MBn : \E q \in {prev[j], MBase}, e \in MErrOf(TolOlsOf(nobj, offx, offy, IF b > BnCap THEN 0 ELSE b)) :
            \E r \in MRss \cup (IF K3 /\ b <= BnCap THEN {q + FloorTol(b), q + FloorTol(b) + 1} ELSE {}) : LOls(j, q, r, e, f, b)
MBetaA == \E a \in MLvs, e \in MErrOf(TolBetaOf(offy)) : LBeta(a, e, 0) \/ LBeta(a, 0, e)
MAffineA == \E o2 \in {0, 999, 8000000} : \E e \in MErrOf(TolAffOf(nobj, offy, o2)) : LAffine(2000, 0 - 500, o2, e, 0) \/ LAffine(0 - 3, 7, o2, 0, e)
MXScaleA == \E e \in MErrOf(TolBetaOf(offy)) : LXScale(0 - 6, e, 0) \/ LXScale(4, 0, e)
MXUnitsA == \E e \in MErrOf(TolBetaOf(offy)) : LXUnits(12, e, 0) \/ LXUnits(3, 0, e)
MOlsNewA == \E j \in 0..1, b \in MBn, lv \in {3, 11} : \E e \in MErrOf(TolOlsOf(nobj, offx, offy, b)) : LOlsNew(j, e, b, lv)
MReuseA == \E e \in MErrOf(TolAlg) : LReuse(nlv, e)
MBiasA == \E e \in MErrOf(TolAlg) : LBias(1, 0, e, 0) \/ LBias(1, 0, 0, e)
MStatA == \E a \in MLvs, j \in 0..1, e \in {0, TolAlg + 1} : LStat(a, j, e, 0) \/ LStat(a, j, 0, e)
MExactA == \E a \in MLvs, j \in 0..1, r \in MRss : LExact(a, j, r)
MEndA == \E f \in 0..1 : LEnd(nlv, ny * nlv, f, 0)
MNextK == LReset(0) \/ MFitK(1) \/ MRssA \/ MOlsA \/ MOlsNewA \/ MBetaA \/ MAffineA \/ MXScaleA \/ MXUnitsA \/ MReuseA \/ MBiasA \/ MStatA \/ MExactA \/ MEndA
\* history scope: up to three fits per process, complete or not, any order of dimensions
MNextH == MResetK \/ MFitK(3) \/ MEndA
MSpecH == KInit /\ [][MNextH]_allvars
MSpecK == KInit /\ [][MNextK]_allvars

\* ---- invariants / properties of the extended ledger (must follow from the step guards)
InvR2RangeK == \A j \in Resp : prev[j] >= 0 /\ prev[j] <= One + lastA[j] * TolMonoOf(offy)
InvFloorK == \A j \in Resp : floorRss[j] > 0 => prev[j] >= floorRss[j] - TolMonoOf(offy)
\* the two ledgers of a centred response move together: the reported R2 on the ledger is One - rss on the ledger
InvR2Link == \A j \in Resp : (phase = "fit" /\ ysc >= 0 /\ r2a[j] > 0 /\ r2a[j] = lastA[j]) => Abs(r2prev[j] - (One - prev[j])) <= TolLink
\* history ledger: a model is never fitted before the process exists, dimensions of the last fit are on the ledger
InvHist == phase = "idle" \/ (nfits >= 1 /\ pdims = <<nobj, nvar, ny, nlv>>)
InvExk == phase = "idle" \/ exk <= nvar
\* S3 as guarded (R2Direct = TRUE): an accepted reported R2 of a response never lies more than the slack of one step below the previous accepted one
PropR2Mono == [][\A j \in 0..1 : (R2Direct /\ phase = "fit" /\ phase' = "fit" /\ nfits' = nfits /\ r2a[j] > 0 /\ r2a'[j] > r2a[j] /\ ysc >= 0)
                                   => r2prev'[j] >= r2prev[j] - R2SlackOf(offy, 1000)]_allvars
\* S3 derived (checked with R2Direct = FALSE, i.e. WITHOUT the direct guard): for a centred response whose two ledgers are in step, the link to
\* One - rss and the monotone rss ledger (S2) alone keep the reported R2 from falling by more than TolMonoOf + 2 TolLink
PropR2Derived == [][\A j \in 0..1 : (phase = "fit" /\ phase' = "fit" /\ nfits' = nfits /\ ysc >= 0 /\ r2a[j] > 0 /\ r2a[j] = lastA[j]
                                      /\ r2a'[j] > r2a[j] /\ r2a'[j] = lastA'[j])
                                      => r2prev'[j] >= r2prev[j] - (TolMonoOf(offy) + 2 * TolLink)]_allvars
====
