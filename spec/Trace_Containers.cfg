\* C14: observed sort calls validated against the contracts of ContainerLaws.tla (TRACE / DIAG from the environment)
SPECIFICATION TSpec
CONSTRAINT Diag
POSTCONDITION TraceAccepted
CHECK_DEADLOCK FALSE
