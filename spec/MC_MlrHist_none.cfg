SPECIFICATION Spec
CONSTANTS
  Fault = "none"
  MaxOps = 3
INVARIANT TypeOK
INVARIANT OwnSolution
INVARIANT StaleAddrSeen
CONSTRAINT Emit
CHECK_DEADLOCK FALSE
