---- MODULE TraceIo ----
(* Trace specification for C16.  One Reset block = one write/read history executed by harness/c16_drv.c on real  *)
(* files with real fitted models.  The file state db[path] is driven by Io's FileWrite from the shapes of the     *)
(* models actually written.                                                                                      *)
(*   Prop layer (what the property states, on logged observations): the in-memory model is unchanged by a Write; *)
(*     every field read back has the dims of, and is numerically (within Tol) the content of, the most recent    *)
(*     Write of that kind to that path (ReadsLast; empty fields stay empty = dims equal); the read-back model     *)
(*     predicts like it.                                                                                         *)
(*   Impl layer (how the present code lays the file out): tables present and their row counts after every step   *)
(*     equal db[path] of the variant (DropTables, SaveAll) - this identifies the implemented variant.            *)
(* Events: Reset{h} | Write{p,k,s,tag,resc,re,kap,prm[..],sh{field:[[dims]..]}} | Mut{p,k,tag,mut} | Tables{p,t{table:rows}} | *)
(*         Read{p,k,rc,fs[field..]} | Field{p,k,f,d[[dims]..],c[[tag,err]..]} | Pred{p,k,c[[tag,err]..]} | Crash   *)
(*   c lists, for every model of that kind written earlier in the history (tag = its step) whose dims equal the   *)
(*   read-back ones, err = max |read-written|/max(1,|written|) in units of 1e-18 (saturating at 2e9); WHICH of     *)
(*   them is the most recent write to that path is decided here, from lastw, not by the harness.                  *)
(*   Write.prm: the fit parameters of a profile model (size class >= 4; <<>> for the abstract classes): the Impl  *)
(*   layer insists that the model written has the shapes FitShape(k, prm) the generator asked for.  Write.re = 1:  *)
(*   the model made at step `tag` is written once more (Rewrite); the trace keeps the models made in `ops`.       *)
(*   Read.x / Field.x / Crash.x = 1: a Read into a model object that an earlier Read filled (OUTSIDE the statement of C16):   *)
(*   judged against the exact model of what io.c does with a used destination (Impl) and, with XProp = TRUE, against ReadsLast  *)
(*   (a rejection there is an EXTRA-FINDING).                                                                                   *)
(*   Write.kap = ceil(max_j |mean_j| / sdev_j) of the training data (input class K3): the prediction bound of a    *)
(*   profile model scales with it (PredFactor).                                                                   *)
EXTENDS Io, TraceBase
CONSTANTS PropOff, ImplOff, Tol, TolPred, XProp
VARIABLE l
tvars == <<db, ops, hist, lastw, lastkind, lastread, held, l>>
Ev == Tr[l]
Step == l' = l + 1 /\ UNCHANGED <<ops, hist, lastread, held>>

TInit == l = 1 /\ Init

TReset == /\ l <= Len(Tr) /\ Ev.e = "Reset" /\ l' = l + 1 /\ UNCHANGED hist
          /\ db' = [p \in Paths |-> EmptyFile] /\ ops' = <<>> /\ lastread' = NoRead /\ held' = [k \in Kinds |-> NoObject]
          /\ lastw' = [p \in Paths |-> [k \in Kinds |-> NoWrite]] /\ lastkind' = [p \in Paths |-> "none"]

\* Impl: a profile model has the shapes the fit parameters imply (pca.c / cpca.c / pls.c and the harness's filling of the validation side)
\* (IF, not a disjunction: inside an action TLC explores every disjunct, and FitShape is undefined for the empty parameter vector)
ImplShape(ev) == IF ImplOff \/ ev.prm = <<>> THEN TRUE ELSE ev.sh = FitShape(ev.k, ev.prm)
\* Prop (writing never modifies the in-memory model): a model written once more still has the kind and shapes it was made with
PropRewrite(ev) == PropOff \/ \E i \in DOMAIN ops : ops[i].tag = ev.tag /\ ops[i].k = ev.k /\ ops[i].sh = ev.sh
TWrite == /\ l <= Len(Tr) /\ Ev.e = "Write" /\ l' = l + 1 /\ UNCHANGED <<hist, lastread, held>>
          /\ Ev.p \in Paths /\ Ev.k \in Kinds /\ DOMAIN Ev.sh = ModelFields(Ev.k)
          /\ db' = [db EXCEPT ![Ev.p] = FileWrite(@, Ev.k, Ev.sh, Ev.tag)]
          /\ lastw' = [lastw EXCEPT ![Ev.p][Ev.k] = [sh |-> Ev.sh, tag |-> Ev.tag, resc |-> Ev.resc, kap |-> Ev.kap, prof |-> Ev.prm # <<>>]]
          /\ lastkind' = [lastkind EXCEPT ![Ev.p] = Ev.k]
          /\ ImplShape(Ev)
          /\ IF Ev.re = 0 THEN ops' = Append(ops, [tag |-> Ev.tag, k |-> Ev.k, sh |-> Ev.sh])
                          ELSE ops' = ops /\ PropRewrite(Ev)

\* writing never modifies the in-memory model (checksum over dims and bit patterns before/after the Write just logged)
PropMut(ev) == PropOff \/ (ev.mut = 0 /\ ev.tag = lastw[ev.p][ev.k].tag)
TMut == /\ l <= Len(Tr) /\ Ev.e = "Mut" /\ Step /\ UNCHANGED <<db, lastw, lastkind>>
        /\ PropMut(Ev)

\* the real file after the step: same tables, same number of rows as the model's file
ImplTables(ev) == ImplOff \/ ev.t = RowCounts(db[ev.p])
TTables == /\ l <= Len(Tr) /\ Ev.e = "Tables" /\ Step /\ UNCHANGED <<db, lastw, lastkind>>
           /\ ImplTables(Ev)

\* a Read of the kind most recently written to the path returned normally and reports every field of the model.  keep = 1: the object
\* filled here is handed to Read again later in the history: what it holds is computed from the model of the file (variant DropTables, SaveAll)
TRead == /\ l <= Len(Tr) /\ Ev.e = "Read" /\ Ev.x = 0 /\ l' = l + 1 /\ UNCHANGED <<db, lastw, lastkind, ops, hist>>
         /\ lastkind[Ev.p] = Ev.k
         /\ {Ev.fs[i] : i \in DOMAIN Ev.fs} = ModelFields(Ev.k)
         /\ (PropOff \/ Ev.rc = 0)
         /\ lastread' = NoRead
         /\ held' = IF Ev.keep = 1 THEN [held EXCEPT ![Ev.k] = [valid |-> TRUE, res |-> FileRead(db[Ev.p], Ev.k)]] ELSE held

\* OUTSIDE the statement of C16 (x = 1): the object filled by the most recent Read of that kind is read into again; lastread = what the exact
\* model of io.c (variant Reuse) says it now holds
TReRead == /\ l <= Len(Tr) /\ Ev.e = "Read" /\ Ev.x = 1 /\ l' = l + 1 /\ UNCHANGED <<db, lastw, lastkind, ops, hist>>
           /\ lastkind[Ev.p] = Ev.k /\ held[Ev.k].valid
           /\ {Ev.fs[i] : i \in DOMAIN Ev.fs} = ModelFields(Ev.k)
           /\ LET res == FileReadInto(db[Ev.p], Ev.k, held[Ev.k].res) IN
                /\ lastread' = [valid |-> TRUE, p |-> Ev.p, k |-> Ev.k, res |-> res, reused |-> TRUE]
                /\ held' = [held EXCEPT ![Ev.k] = [valid |-> TRUE, res |-> res]]

\* ReadsLast, field by field
PropField(ev) == LET w == lastw[ev.p][ev.k] IN
                 \/ PropOff
                 \/ /\ w.tag > 0
                    /\ ev.d = w.sh[ev.f]
                    /\ NCells(w.sh[ev.f]) > 0 => \E i \in DOMAIN ev.c : ev.c[i][1] = w.tag /\ ev.c[i][2] <= Tol
\* a field of a used object read into again: Impl = the dims the exact model predicts (nothing is predicted where the C code runs out of
\* bounds); XProp = TRUE additionally holds it to ReadsLast (what one would want; a rejection is reported as EXTRA-FINDING, never a verdict)
XImplField(ev) == IF ImplOff \/ ~lastread.valid THEN ImplOff ELSE (~lastread.res[ev.f].ok \/ ev.d = lastread.res[ev.f].dims)
XPropField(ev) == LET w == lastw[ev.p][ev.k] IN
                  IF ~XProp THEN TRUE
                  ELSE /\ w.tag > 0 /\ ev.d = w.sh[ev.f]
                       /\ NCells(w.sh[ev.f]) > 0 => \E i \in DOMAIN ev.c : ev.c[i][1] = w.tag /\ ev.c[i][2] <= Tol
TField == /\ l <= Len(Tr) /\ Ev.e = "Field" /\ Step /\ UNCHANGED <<db, lastw, lastkind>>
          /\ Ev.f \in ModelFields(Ev.k)
          /\ IF Ev.x = 0 THEN PropField(Ev) ELSE XImplField(Ev) /\ XPropField(Ev)

\* the read-back model predicts like the saved one (judged for models that were not rescaled, DESIGN C16).  Models of the abstract size
\* classes (moderate data, at most 5 variables): flat bound TolPred.  Profile models: numbers that agree to 1e-15 * max(1,|v|) move a
\* prediction (sum over the variables of (x - mean) / sdev * loading) by about 1e-15 * kap * sqrt(nvars), kap = max |mean| / sdev of the
\* training data: the bound is TolPred * (1 + kap * ceil(sqrt(nvars)) / 100); it is applied while it stays below the saturation of the
\* logged errors (factor <= MaxPredFactor), beyond that the model is judged on its numbers only
RootCeil(n) == CHOOSE r \in 0..n : r * r >= n /\ (r = 0 \/ (r - 1) * (r - 1) < n)
RECURSIVE SumRows(_)
SumRows(sh) == IF sh = <<>> THEN 0 ELSE sh[1][1] + SumRows(Tail(sh))
NVars(k, sh) == CASE k = "PCA" -> sh["loadings"][1][1] [] k = "PLS" -> sh["xloadings"][1][1] [] k = "CPCA" -> SumRows(sh["block_loadings"])
MaxPredFactor == 2000
PredFactor(k, w) == IF ~w.prof THEN 1 ELSE 1 + (w.kap * RootCeil(NVars(k, w.sh))) \div 100
PredJudged(k, w) == w.resc = 0 /\ PredFactor(k, w) <= MaxPredFactor
PropPred(ev) == LET w == lastw[ev.p][ev.k] IN
                \/ PropOff
                \/ /\ w.tag > 0
                   /\ PredJudged(ev.k, w) => \E i \in DOMAIN ev.c : ev.c[i][1] = w.tag /\ ev.c[i][2] <= TolPred * PredFactor(ev.k, w)
TPred == /\ l <= Len(Tr) /\ Ev.e = "Pred" /\ Step /\ UNCHANGED <<db, lastw, lastkind>>
         /\ PropPred(Ev)

\* the child process died: never acceptable to the property; skipped only when the Prop layer is off (variant inference).  While reading
\* into a used object (x = 1): expected by the exact model where a field runs out of bounds, never acceptable under XProp
XCrashExpected(ev) == held[ev.k].valid /\ \E f \in ModelFields(ev.k) : ~FileReadInto(db[ev.p], ev.k, held[ev.k].res)[f].ok
TCrash == /\ l <= Len(Tr) /\ Ev.e = "Crash" /\ Step /\ UNCHANGED <<db, lastw, lastkind>>
          /\ IF Ev.x = 0 THEN PropOff ELSE (~XProp /\ (ImplOff \/ XCrashExpected(Ev)))

TNext == TReset \/ TWrite \/ TMut \/ TTables \/ TRead \/ TReRead \/ TField \/ TPred \/ TCrash
TSpec == TInit /\ [][TNext]_tvars
TraceAccepted == Accepted
Diag == ShowCursor(l)
====
