---- MODULE TraceIo ----
(* Trace specification for C16.  One Reset block = one write/read history executed by harness/c16_drv.c on real  *)
(* files with real fitted models.  The file state db[path] is driven by Io's FileWrite from the shapes of the     *)
(* models actually written.                                                                                      *)
(*   Prop layer (what the property states, on logged observations): the in-memory model is unchanged by a Write; *)
(*     every field read back has the dims of, and is numerically (within Tol) the content of, the most recent    *)
(*     Write of that kind to that path (ReadsLast; empty fields stay empty = dims equal); the read-back model     *)
(*     predicts like it.                                                                                         *)
(*   Impl layer (how the present code lays the file out): tables present and their row counts after every step   *)
(*     equal db[path] of the variant (DropTables, SaveAll) - this identifies the implemented variant.            *)
(* Events: Reset{h} | Write{p,k,s,tag,resc,sh{field:[[dims]..]}} | Mut{p,k,tag,mut} | Tables{p,t{table:rows}} |     *)
(*         Read{p,k,rc,fs[field..]} | Field{p,k,f,d[[dims]..],c[[tag,err]..]} | Pred{p,k,c[[tag,err]..]} | Crash   *)
(*   c lists, for every model of that kind written earlier in the history (tag = its step) whose dims equal the   *)
(*   read-back ones, err = max |read-written|/max(1,|written|) in units of 1e-18 (saturating at 2e9); WHICH of     *)
(*   them is the most recent write to that path is decided here, from lastw, not by the harness.                  *)
EXTENDS Io, TraceBase
CONSTANTS PropOff, ImplOff, Tol, TolPred
VARIABLE l
tvars == <<db, ops, hist, lastw, lastkind, lastread, l>>
Ev == Tr[l]
Step == l' = l + 1 /\ UNCHANGED <<ops, hist, lastread>>

TInit == l = 1 /\ Init

TReset == /\ l <= Len(Tr) /\ Ev.e = "Reset" /\ Step
          /\ db' = [p \in Paths |-> EmptyFile]
          /\ lastw' = [p \in Paths |-> [k \in Kinds |-> NoWrite]] /\ lastkind' = [p \in Paths |-> "none"]

TWrite == /\ l <= Len(Tr) /\ Ev.e = "Write" /\ Step
          /\ Ev.p \in Paths /\ Ev.k \in Kinds /\ DOMAIN Ev.sh = ModelFields(Ev.k)
          /\ db' = [db EXCEPT ![Ev.p] = FileWrite(@, Ev.k, Ev.sh, Ev.tag)]
          /\ lastw' = [lastw EXCEPT ![Ev.p][Ev.k] = [sh |-> Ev.sh, tag |-> Ev.tag, resc |-> Ev.resc]]
          /\ lastkind' = [lastkind EXCEPT ![Ev.p] = Ev.k]

\* writing never modifies the in-memory model (checksum over dims and bit patterns before/after the Write just logged)
PropMut(ev) == PropOff \/ (ev.mut = 0 /\ ev.tag = lastw[ev.p][ev.k].tag)
TMut == /\ l <= Len(Tr) /\ Ev.e = "Mut" /\ Step /\ UNCHANGED <<db, lastw, lastkind>>
        /\ PropMut(Ev)

\* the real file after the step: same tables, same number of rows as the model's file
ImplTables(ev) == ImplOff \/ ev.t = RowCounts(db[ev.p])
TTables == /\ l <= Len(Tr) /\ Ev.e = "Tables" /\ Step /\ UNCHANGED <<db, lastw, lastkind>>
           /\ ImplTables(Ev)

\* a Read of the kind most recently written to the path returned normally and reports every field of the model
TRead == /\ l <= Len(Tr) /\ Ev.e = "Read" /\ Step /\ UNCHANGED <<db, lastw, lastkind>>
         /\ lastkind[Ev.p] = Ev.k
         /\ {Ev.fs[i] : i \in DOMAIN Ev.fs} = ModelFields(Ev.k)
         /\ (PropOff \/ Ev.rc = 0)

\* ReadsLast, field by field
PropField(ev) == LET w == lastw[ev.p][ev.k] IN
                 \/ PropOff
                 \/ /\ w.tag > 0
                    /\ ev.d = w.sh[ev.f]
                    /\ NCells(w.sh[ev.f]) > 0 => \E i \in DOMAIN ev.c : ev.c[i][1] = w.tag /\ ev.c[i][2] <= Tol
TField == /\ l <= Len(Tr) /\ Ev.e = "Field" /\ Step /\ UNCHANGED <<db, lastw, lastkind>>
          /\ Ev.f \in ModelFields(Ev.k)
          /\ PropField(Ev)

\* the read-back model predicts like the saved one (judged for models that were not rescaled, DESIGN C16)
PropPred(ev) == LET w == lastw[ev.p][ev.k] IN
                \/ PropOff
                \/ /\ w.tag > 0
                   /\ w.resc = 0 => \E i \in DOMAIN ev.c : ev.c[i][1] = w.tag /\ ev.c[i][2] <= TolPred
TPred == /\ l <= Len(Tr) /\ Ev.e = "Pred" /\ Step /\ UNCHANGED <<db, lastw, lastkind>>
         /\ PropPred(Ev)

\* the child process died: never acceptable to the property; skipped only when the Prop layer is off (variant inference)
TCrash == /\ l <= Len(Tr) /\ Ev.e = "Crash" /\ Step /\ UNCHANGED <<db, lastw, lastkind>>
          /\ PropOff

TNext == TReset \/ TWrite \/ TMut \/ TTables \/ TRead \/ TField \/ TPred \/ TCrash
TSpec == TInit /\ [][TNext]_tvars
TraceAccepted == Accepted
Diag == ShowCursor(l)
====
