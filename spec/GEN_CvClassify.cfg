SPECIFICATION CSpec
CONSTRAINT Emit
