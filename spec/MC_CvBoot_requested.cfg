SPECIFICATION Spec
CONSTANTS
  N = 2
  MaxIt = 3
  MaxTh = 2
  Clear = "fresh"
  Divide = "requested"
INVARIANT AverageIsMean
