SPECIFICATION DSpec
CONSTANTS
  MaxRows = 0
  MaxThreads = 1
  MaxCond = 0
  NPts = 3
  Dim = 2
  Range = 2
INVARIANT AxiomsHold
INVARIANT CauchySchwarz
