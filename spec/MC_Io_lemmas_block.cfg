SPECIFICATION Spec
CONSTANTS
  Paths = {"p1"}
  MaxHist = 0
  DropTables = TRUE
  SaveAll = TRUE
  ReadBlock = 32
  SizeSet = {1, 2, 3}
  Rewrites = FALSE
  Shape = "all"
  Reuse = "off"
INVARIANT RoundTripExact
INVARIANT LegacyBlockBlind
CHECK_DEADLOCK FALSE
