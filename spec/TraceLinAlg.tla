---- MODULE TraceLinAlg ----
(* Trace specification for the ledger (exploration) part of C12.  harness/c12_trace.c generates matrices of sizes     *)
(* 1..12 with condition number <= 1e6 (SPD, symmetric indefinite, diagonal, permutation, zero leading minors,          *)
(* triangular, Toeplitz, general, small integer; rectangular in both orientations), calls each routine in a child    *)
(* process and logs the residual of the routine's defining equation in units of 1e-12 (saturating at 2e9):           *)
(*   Inv      max|A X - I|                         MatrixInversion, MatrixLUInversion                                *)
(*   Det      |det - prod pivots(dgetrf)| / prod_i |row_i|_1 ;  DetMul the same for det(AB) - det(A)det(B)            *)
(*   Solve    backward |Ax-b|/(|A||x|+|b|) and forward |x-x0|/|x0|          SolveLSE                                 *)
(*   Ols      |X'(X beta - y)| / (|X|(|X||beta|+|y|))                        OrdinaryLeastSquares                     *)
(*   Penrose  the four Penrose residuals                                   MatrixMoorePenrosePseudoinverse          *)
(*   Eig      max_k |A v_k - lambda_k v_k| / (|A||v_k|), v_k # 0            EVectEval on symmetric A                  *)
(*   Svd      shapes multiply, sigma >= 0, |U S VT - A|/|A|                 SVD, SVDlapack (square, tall, wide)      *)
(* Bounds (TolAlg = 1e-8 as in DESIGN.md) are relative to |A| and scaled by the logged condition number where the    *)
(* property says "well-conditioned": a forward error cannot be better than eps * cond.  Integer inputs additionally  *)
(* log their integer results, which TLC checks EXACTLY with the operators of LinAlg.tla (Lap, MulI).                   *)
(* A Crash event (sanitizer abort, signal, watchdog in the child) matches no action: the trace is rejected there.     *)
EXTENDS LinAlg, TraceBase
CONSTANT PropOnly
VARIABLES l, cond, shape
tvars == <<A, fam, l, cond, shape>>
Ev == Tr[l]
Step == l' = l + 1
Keep == UNCHANGED <<A, fam, cond, shape>>
TolAlg == 10000                                              \* 1e-8 in units of 1e-12
Max(a, b) == IF a > b THEN a ELSE b
Min(a, b) == IF a < b THEN a ELSE b
BoundCond(k) == TolAlg * Max(1, cond \div k)                 \* cond <= 1e6, k >= 100: at most 1e8
BoundCond2 == TolAlg * Max(1, (Min(cond, 1000) * Min(cond, 1000)) \div 10000)   \* normal equations square the condition number

TInit == l = 1 /\ A = <<>> /\ fam = "" /\ cond = 1 /\ shape = <<0, 0>>
TReset == /\ l <= Len(Tr) /\ Ev.e = "Reset" /\ Step /\ A' = <<>> /\ fam' = "" /\ cond' = 1 /\ shape' = <<0, 0>>
TEnd == /\ l <= Len(Tr) /\ Ev.e = "End" /\ Step /\ Keep
TMat == /\ l <= Len(Tr) /\ Ev.e = "Mat" /\ Step
        /\ Ev.cond >= 1 /\ Ev.cond <= 1000000 /\ Ev.m \in 1..12 /\ Ev.n \in 1..12       \* inside the quantifier
        /\ A' = <<>> /\ fam' = Ev.class /\ cond' = Ev.cond /\ shape' = <<Ev.m, Ev.n>>

TInv == /\ l <= Len(Tr) /\ Ev.e = "Inv" /\ Step /\ Keep
        /\ Ev.r <= BoundCond(100)                        \* surveyed worst 4e-10 at cond 5e4 (pivoted Gauss-Jordan), 1e-11 (LAPACK)
\* integer input with integer inverse (permutations, unimodular matrices): exact check with the model's integer product
TInvInt == /\ l <= Len(Tr) /\ Ev.e = "InvInt" /\ Step /\ UNCHANGED <<fam, cond, shape>> /\ A' = Ev.A
           /\ MulI(Ev.A, Ev.inv) = IdI(Len(Ev.A))
TDet == /\ l <= Len(Tr) /\ Ev.e = "Det" /\ Step /\ Keep
        /\ Ev.r <= TolAlg
TDetInt == /\ l <= Len(Tr) /\ Ev.e = "DetInt" /\ Step /\ UNCHANGED <<fam, cond, shape>> /\ A' = Ev.A
           /\ Ev.det = Lap(Ev.A, Ev.n)
TDetMul == /\ l <= Len(Tr) /\ Ev.e = "DetMul" /\ Step /\ Keep
           /\ Ev.r <= TolAlg
TSolve == /\ l <= Len(Tr) /\ Ev.e = "Solve" /\ Step /\ Keep
          /\ Ev.rb <= TolAlg
          /\ Ev.rf <= BoundCond(100)                    \* forward error: surveyed worst 4e-11 at cond 1e5
TOls == /\ l <= Len(Tr) /\ Ev.e = "Ols" /\ Step /\ Keep
        /\ Ev.r <= BoundCond2
TPenrose == /\ l <= Len(Tr) /\ Ev.e = "Penrose" /\ Step /\ Keep
            /\ Ev.r1 <= BoundCond2 /\ Ev.r2 <= BoundCond2 /\ Ev.r3 <= BoundCond2 /\ Ev.r4 <= BoundCond2
TEig == /\ l <= Len(Tr) /\ Ev.e = "Eig" /\ Step /\ Keep
        /\ Ev.nz = 1
        /\ Ev.r <= TolAlg
\* Prop: factors multiply back, singular values non-negative.  Impl: the economy shapes m x k, k x k, k x n with k = min(m, n)
TSvd == /\ l <= Len(Tr) /\ Ev.e = "Svd" /\ Step /\ Keep
        /\ Ev.shp = 1 /\ Ev.sig = 1
        /\ Ev.recon <= TolAlg
        /\ (PropOnly \/ LET k == Min(shape[1], shape[2]) IN Ev.dims = <<shape[1], k, k, k, k, shape[2]>>)

TNext == TReset \/ TEnd \/ TMat \/ TInv \/ TInvInt \/ TDet \/ TDetInt \/ TDetMul \/ TSolve \/ TOls \/ TPenrose \/ TEig \/ TSvd
TSpec == TInit /\ [][TNext]_tvars
TraceAccepted == Accepted
Diag == ShowCursor(l)
====
