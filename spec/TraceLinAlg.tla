---- MODULE TraceLinAlg ----
(* Trace specification for the ledger part of C12.  harness/c12_trace.c runs a stratified plan of matrices of sizes   *)
(* 1..12 with condition number <= 1e6: every class (SPD, symmetric indefinite, diagonal, permutation, zero leading    *)
(* minors, triangular, Toeplitz, general, small integer, graded, symmetric permutation, repeated eigenvalues, large    *)
(* common offset, non-representable entries, integer permuted unit-triangular) at EVERY size 1..12 and at whole-matrix *)
(* scales 2^k, 1e-6, 1e6; every rectangular shape m > n <= 12 and its transpose; "history" blocks in which one routine *)
(* is called ten times in ONE process on changing sizes / shapes / magnitudes into the SAME output objects.  Each call *)
(* logs the residual of the routine's defining equation in units of 1e-12 (saturating at 2e9):                         *)
(*   Inv      max|A X - I|                         MatrixInversion, MatrixLUInversion                                *)
(*   Det      |det - prod pivots(dgetrf)| / prod_i |row_i|_1 ;  DetMul the same for det(AB) - det(A)det(B)            *)
(*   Solve    backward |Ax-b|/(|A||x|+|b|) and forward |x-x0|/|x0|          SolveLSE                                 *)
(*   Ols      |X'(X beta - y)| / (|X|(|X||beta|+|y|))                        OrdinaryLeastSquares (m >= n)            *)
(*   Penrose  the four Penrose residuals                                   MatrixMoorePenrosePseudoinverse (m >= n) *)
(*            (routine = MatrixPseudoinversion, the SVD-based variant of the anchors: same action, EXTRA finding only)  *)
(*   Eig      max_k |A v_k - lambda_k v_k| / (|A||v_k|), v_k # 0            EVectEval on symmetric A                  *)
(*   Svd      shapes multiply, sigma >= 0, |U S VT - A|/|A|, diag(S) = the singular values of A (any order, oracle     *)
(*            dgesvd), off-diagonal of S = 0                               SVD, SVDlapack (square, tall, wide)      *)
(* Bounds (TolAlg = 1e-8 as in DESIGN.md) are relative to |A| - hence the same at every scale (K4) - and scaled by the *)
(* logged condition number where the property says "well-conditioned": a forward error cannot be better than           *)
(* eps * cond.  Integer inputs additionally log their integer results, which TLC checks EXACTLY with the operators of  *)
(* LinAlg.tla: InvInt (MulI), DetInt (BDet = signed product of the pivots of the fraction-free LU, and Lap for n <= 4),  *)
(* DetMulInt (det(AB) = det(A) det(B) with all three determinants recomputed by BDet).                                 *)
(* A Crash event (sanitizer abort, signal, watchdog in the child) matches no action: the trace is rejected there.     *)
(* Layers: Prop = what the property states; Impl (PropOnly = FALSE) adds what a faithful SVD / eigen-solver also does: *)
(* economy shapes, orthonormal factors, a complete set of eigenvalues (sum = trace) - a mismatch there is SPEC-DRIFT.  *)
EXTENDS LinAlg, TraceBase
CONSTANT PropOnly
VARIABLES l, cond, shape, inq
tvars == <<A, fam, l, cond, shape, inq>>
Ev == Tr[l]
Step == l' = l + 1
Keep == UNCHANGED <<A, fam, cond, shape, inq>>
TolAlg == 10000                                              \* 1e-8 in units of 1e-12
Max(a, b) == IF a > b THEN a ELSE b
Min(a, b) == IF a < b THEN a ELSE b
BoundCond(k) == TolAlg * Max(1, cond \div k)                 \* cond <= 1e6, k >= 100: at most 1e8
BoundCond2 == TolAlg * Max(1, (Min(cond, 1000) * Min(cond, 1000)) \div 10000)   \* normal equations square the condition number

ShapeName(m, n) == IF m = n THEN "square" ELSE IF m > n THEN "rect-tall" ELSE "rect-wide"
\* the quantifier of C12 on what the harness logs about an input: sizes 1..12, condition number (ceiling) 1..1e6
InQuantifier(ev) == ev.cond >= 1 /\ ev.cond <= 1000000 /\ ev.m \in 1..12 /\ ev.n \in 1..12
\* least squares / pseudo-inverse through the normal equations: full column rank, cond^2 <= 1e6
NormalEqOK == shape[1] >= shape[2] /\ cond <= 1000 /\ inq = 1
TInit == l = 1 /\ A = <<>> /\ fam = "" /\ cond = 1 /\ shape = <<0, 0>> /\ inq = 0
TStart == /\ l <= Len(Tr) /\ Ev.e = "Start" /\ Step /\ Keep
TReset == /\ l <= Len(Tr) /\ Ev.e = "Reset" /\ Step /\ A' = <<>> /\ fam' = "" /\ cond' = 1 /\ shape' = <<0, 0>> /\ inq' = 0
TEnd == /\ l <= Len(Tr) /\ Ev.e = "End" /\ Step /\ Keep
\* q = 1: an input inside the quantifier.  q = 0: a rank-deficient input for the SVD ("every matrix" in the statement, but cond = inf is
\* outside the quantifier): judged by the same TSvd, a rejection is reported as an EXTRA finding by the runner
TMat == /\ l <= Len(Tr) /\ Ev.e = "Mat" /\ Step
        /\ Ev.m \in 1..12 /\ Ev.n \in 1..12 /\ Ev.shape = ShapeName(Ev.m, Ev.n)
        /\ (Ev.q = 1 => InQuantifier(Ev)) /\ (Ev.q = 0 => Ev.cond = 0)
        /\ A' = (IF Ev.isint = 1 THEN Ev.A ELSE <<>>) /\ fam' = Ev.class /\ cond' = (IF Ev.q = 1 THEN Ev.cond ELSE 1) /\ shape' = <<Ev.m, Ev.n>> /\ inq' = Ev.q

TInv == /\ l <= Len(Tr) /\ Ev.e = "Inv" /\ Step /\ Keep /\ inq = 1 /\ shape[1] = shape[2]
        /\ Ev.r <= BoundCond(100)                        \* surveyed worst 4e-10 at cond 5e4 (pivoted Gauss-Jordan), 1e-11 (LAPACK)
\* integer input with integer inverse (permutations, unimodular matrices): exact check with the model's integer product
\* (the integer events repeat the input: it must be the matrix the Mat event announced)
TInvInt == /\ l <= Len(Tr) /\ Ev.e = "InvInt" /\ Step /\ Keep /\ Ev.A = A
           /\ MulI(Ev.A, Ev.inv) = IdI(Len(Ev.A))
TDet == /\ l <= Len(Tr) /\ Ev.e = "Det" /\ Step /\ Keep /\ inq = 1 /\ shape[1] = shape[2] /\ shape[1] <= 8
        /\ Ev.r <= TolAlg
\* integer input (n <= 8): the determinant is EXACTLY the signed product of the pivots of the fraction-free LU factorisation computed
\* here by TLC (BDet), and for n <= 4 also the Laplace expansion; ok = 0: the routine did not even return an integer
TDetInt == /\ l <= Len(Tr) /\ Ev.e = "DetInt" /\ Step /\ Keep /\ Ev.A = A
           /\ Ev.ok = 1 /\ Len(Ev.A) = Ev.n
           /\ Ev.det = BDet(Ev.A)
           /\ (Ev.n <= 4 => Ev.det = Lap(Ev.A, Ev.n))
\* multiplicativity, exactly: the three determinants the routine returned for A, B and A B (A B formed by the library's product) are
\* the exact ones and dp = da * db
TDetMulInt == /\ l <= Len(Tr) /\ Ev.e = "DetMulInt" /\ Step /\ Keep /\ Ev.A = A
              /\ Ev.ok = 1
              /\ Ev.da = BDet(Ev.A) /\ Ev.db = BDet(Ev.B) /\ Ev.dp = BDet(MulI(Ev.A, Ev.B))
              /\ Ev.dp = Ev.da * Ev.db
TDetMul == /\ l <= Len(Tr) /\ Ev.e = "DetMul" /\ Step /\ Keep /\ inq = 1 /\ shape[1] = shape[2] /\ shape[1] <= 8
           /\ Ev.r <= TolAlg
TSolve == /\ l <= Len(Tr) /\ Ev.e = "Solve" /\ Step /\ Keep /\ inq = 1 /\ shape[1] = shape[2]
          /\ Ev.rb <= TolAlg
          /\ Ev.rf <= BoundCond(100)                    \* forward error: surveyed worst 4e-11 at cond 1e5
TOls == /\ l <= Len(Tr) /\ Ev.e = "Ols" /\ Step /\ Keep /\ NormalEqOK
        /\ Ev.r <= BoundCond2
TPenrose == /\ l <= Len(Tr) /\ Ev.e = "Penrose" /\ Step /\ Keep /\ NormalEqOK
            /\ Ev.r1 <= BoundCond2 /\ Ev.r2 <= BoundCond2 /\ Ev.r3 <= BoundCond2 /\ Ev.r4 <= BoundCond2
\* Prop: n pairs, every v_k # 0 and A v_k = lambda_k v_k PAIRWISE (nothing about uniqueness or orthogonality: repeated eigenvalues are
\* admitted).  Impl: the eigenvalues are a complete set (their sum is the trace)
TEig == /\ l <= Len(Tr) /\ Ev.e = "Eig" /\ Step /\ Keep /\ inq = 1 /\ shape[1] = shape[2]
        /\ Ev.nz = 1
        /\ Ev.r <= TolAlg
        /\ (PropOnly \/ Ev.tr <= TolAlg)
\* Prop: factors multiply back, singular values non-negative and they ARE the singular values of the input (diagonal of S in any order
\* against the oracle, nothing off the diagonal).  Impl: the economy shapes m x k, k x k, k x n with k = min(m, n), orthonormal U / VT
TSvd == /\ l <= Len(Tr) /\ Ev.e = "Svd" /\ Step /\ Keep
        /\ Ev.shp = 1 /\ Ev.sig = 1
        /\ Ev.recon <= TolAlg
        /\ Ev.sv <= TolAlg
        /\ (PropOnly \/ (Ev.orth <= TolAlg /\ LET k == Min(shape[1], shape[2]) IN Ev.dims = <<shape[1], k, k, k, k, shape[2]>>))

TNext == TStart \/ TReset \/ TEnd \/ TMat \/ TInv \/ TInvInt \/ TDet \/ TDetInt \/ TDetMul \/ TDetMulInt \/ TSolve \/ TOls \/ TPenrose \/ TEig \/ TSvd
TSpec == TInit /\ [][TNext]_tvars
TraceAccepted == Accepted
Diag == ShowCursor(l)
====
