---- MODULE RngState ----
(* C06.  The C state the generator / cross-validation models (Rng.tla, CvOrch.tla) speak about, named by the  *)
(* role it plays in the model, and who may touch it without synchronisation.  The ThreadSanitizer block of    *)
(* the C06 check attributes every reported data race (two unsynchronised accesses, at least one a write) to   *)
(* one of these classes and TraceRng.tla judges it against this set.                                          *)
(*   "XOR128_SEED"        Rng.tla `word[Cell(p)]`: the generator word; with PerThread = TRUE one cell per      *)
(*                        thread, read and written by its owner only                                          *)
(*   "worker-local"       Rng.tla `drawn[p]`, `pc[p]`, `ip[p]`: memory a worker allocates for itself (group    *)
(*                        matrix, training/test copies, sub-model): never reachable from another thread       *)
(*   "worker-slot"        CvOrch.tla `running`/`done`: the argument and result slot the caller hands to ONE    *)
(*                        worker (arg[th].predicted_y, predictioncounter, x_train ...): written by that worker *)
(*                        between create and join, by the caller only before the create and after the join     *)
(*                        (NoMergeBeforeJoin)                                                                 *)
(*   "caller-accumulator" CvOrch.tla `merged`: sums and counters the caller merges the slots into              *)
(*   "input"              mx, my, group vector: never written while a call is running                          *)
(* Every one of them has at most one accessor at a time in the model (or is read-only): a data race on any    *)
(* of them contradicts the model.  "other" is state the model does not speak about (kernels of other          *)
(* properties): reported, never a verdict of C06.                                                             *)
ModelState == {"XOR128_SEED", "worker-local", "worker-slot", "caller-accumulator", "input"}
ThreadPrivate == {"XOR128_SEED", "worker-local", "worker-slot", "caller-accumulator"}
ReadOnlyShared == {"input"}
OutsideModel == {"other"}
RaceClasses == ModelState \cup OutsideModel
\* a data race on v is compatible with the model iff the model does not speak about v
RaceCompatible(v) == v \in OutsideModel
ASSUME ModelState = ThreadPrivate \cup ReadOnlyShared
ASSUME ModelState \cap OutsideModel = {}
====
