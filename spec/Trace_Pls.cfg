SPECIFICATION TSpec
CONSTANTS
  MaxNy = 4
  MaxNlv = 12
  ResidualIndex = "mod_ny"
  PropOnly = FALSE
CONSTRAINT Diag
POSTCONDITION TraceAccepted
CHECK_DEADLOCK FALSE
