SPECIFICATION Spec
CONSTANTS
  NW = 2
  K = 2
  PerThread = TRUE
INVARIANT StreamIsolation
CHECK_DEADLOCK FALSE
