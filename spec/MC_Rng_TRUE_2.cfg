SPECIFICATION Spec
CONSTANTS
  NW = 2
  K = 2
  PerThread = TRUE
  Shape = "seedDraw"
INVARIANT StreamIsolation
INVARIANT NoClock
INVARIANT WordPrivate
INVARIANT EqualsSequential
INVARIANT SeedDrawStream
CHECK_DEADLOCK FALSE
