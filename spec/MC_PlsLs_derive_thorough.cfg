SPECIFICATION MSpecK
CONSTANTS
  MaxNy = 2
  MaxNlv = 2
  ResidualIndex = "mod_ny"
  Deep = TRUE
  TrackPairs = FALSE
  R2Direct = FALSE
INVARIANT InvR2Link
PROPERTY PropR2Derived
CHECK_DEADLOCK FALSE
