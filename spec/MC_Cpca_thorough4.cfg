SPECIFICATION CSpec
CONSTANTS
  Bud <- BudFour
  Quanta = 5
  MaxPc = 3
  CFault = "none"
INVARIANT CLedgerAccepts
INVARIANT BlockWithin
INVARIANT TotalWithin
INVARIANT TotalIsWeightedBlocks
INVARIANT ZeroBlockStaysZero
INVARIANT ExhaustedIsAll
INVARIANT SlicesSound
CHECK_DEADLOCK FALSE
