\* C14 (GEN): history generator, run with  -simulate num=N -depth 40 -workers 1 -seed S.
\* lib/checks/c14.py writes variants of this file that switch on one family at a time (Kinds) besides the full mix.
SPECIFICATION GenSpec
CONSTANTS
  Pool = {"a", "b", "c", "d"}
  MaxDim = 5
  Vals = {0, 1, 2, 3}
  Kinds = {"dv", "uv", "iv", "sv", "mx", "tn", "dl"}
  Depth = 40
CONSTRAINT Emit
CHECK_DEADLOCK FALSE
