SPECIFICATION Spec
CONSTANTS
  Fault = "addr"
  MaxOps = 3
INVARIANT TypeOK
INVARIANT OwnSolution
INVARIANT StaleAddrSeen
CHECK_DEADLOCK FALSE
