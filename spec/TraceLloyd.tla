---- MODULE TraceLloyd ----
(* Trace specification for the Lloyd iterations of KMeans() (hook H6: VERIF_STATE at the end of every iteration).      *)
(* One Reset-delimited block per point set; inside it any number of recorded runs:                                     *)
(*   Points  {X[][], off[], sexp}         integer points x; the code sees off + x * 10^sexp                             *)
(*   KmStart {k, init, th}                                                                                            *)
(*   KmInit  {obj[]}                      the objects (1..) whose rows the centroids were at the first assignment step  *)
(*                                        (0 = the row is no object of the data set)                                  *)
(*   KmIt    {it, labels[], cnt[], cnum[][], re[], res}   labels after the assignment step, member counts, centroid *    *)
(*                                        count (integers in x-units, res = rounding residual in 1e-9 x-units), re[c] =  *)
(*                                        the object an empty cluster was restarted at                                *)
(*   KmEnd   {iters, labels[]}            what KMeans() returned                                                       *)
(* The layer called "Prop" here is the LLOYD layer: every recorded iteration is an assignment-to-a-nearest-centroid /   *)
(* mean-update step of Lloyd.tla, the loop ends only when every centroid coordinate moved by at most the documented     *)
(* 1e-3 or at the iteration cap, and the returned labels are those of the last step.  C17's statement does not speak    *)
(* about single iterations, so a rejection on this layer is reported as an EXTRA-FINDING by the check, never as a       *)
(* violation (the returned result itself is judged by TraceSelect.tla).  The Impl layer adds the code's tie-break       *)
(* (lowest index among the nearest centroids), "no further iteration after a stop", distinct start objects for the      *)
(* deterministic initialisers and the MaxDis start of initialiser 3.                                                    *)
EXTENDS Lloyd, TraceBase
CONSTANTS PropOnly
VARIABLES l, ts
tlvars == <<X, k, cen, lab, it, phase, pcost, reinits, l, ts>>
Ev == Tr[l]
Ts0 == [sexp |-> 0, mos |-> 0, init |-> 0, may |-> FALSE, must |-> FALSE]

TLInit == /\ l = 1 /\ X = <<>> /\ k = 0 /\ cen = <<>> /\ lab = <<>> /\ it = 0 /\ phase = "idle" /\ pcost = 0 /\ reinits = 0 /\ ts = Ts0
Step == l' = l + 1
KeepModel == UNCHANGED <<pcost, reinits>>

TLReset == /\ l <= Len(Tr) /\ Ev.e = "Reset" /\ Step /\ KeepModel
           /\ X' = <<>> /\ k' = 0 /\ cen' = <<>> /\ lab' = <<>> /\ it' = 0 /\ phase' = "idle" /\ ts' = Ts0

TLPoints == /\ l <= Len(Tr) /\ Ev.e = "Points" /\ Step /\ KeepModel
            /\ Len(Ev.X) >= 1 /\ phase = "idle"
            /\ AffineAdmissible(Ev.X, Ev.off, Ev.sexp)
            \* the exact replay needs room between the rounding of the stored doubles and the smallest centroid movement
            /\ Ev.sexp >= 0 \/ OffMax(Ev.off) <= 100000
            /\ X' = Ev.X /\ k' = 0 /\ cen' = <<>> /\ lab' = <<>> /\ it' = 0 /\ phase' = "idle"
            /\ ts' = [Ts0 EXCEPT !.sexp = Ev.sexp, !.mos = MagOverScale(Ev.X, Ev.off, Ev.sexp)]

TLStart == /\ l <= Len(Tr) /\ Ev.e = "KmStart" /\ Step /\ KeepModel /\ UNCHANGED X
           /\ phase = "idle"
           /\ Ev.k \in 1..Len(X)
           /\ k' = Ev.k /\ cen' = <<>> /\ lab' = <<>> /\ it' = 0 /\ phase' = "start"
           /\ ts' = [ts EXCEPT !.init = Ev.init, !.may = FALSE, !.must = FALSE]

DistinctSeq(s) == \A a, b \in 1..Len(s) : a # b => s[a] # s[b]
TLKmInit == /\ l <= Len(Tr) /\ Ev.e = "KmInit" /\ Step /\ KeepModel /\ UNCHANGED <<X, k, lab, it, ts>>
            /\ phase = "start"
            /\ Len(Ev.obj) = k
            /\ \A c \in 1..k : Ev.obj[c] \in 1..Len(X)                       \* the start centroids are rows of the data set
            /\ PropOnly \/ (ts.init >= 1 => DistinctSeq(Ev.obj))              \* Impl: initialisers 1..3 start from distinct objects
            /\ cen' = [c \in 1..k |-> Obj(X, Ev.obj[c])]
            /\ phase' = "run"

\* the code's tie-break (strict '<' scanning upwards).  Only claimed where the tie is exact in double precision too: every tied
\* centroid has integer coordinates and the data are integers (scale >= 1); a tie between rational centroids such as 1/3 and
\* 5/3 seen from 1 is decided by the rounding of the stored centroids
ImplLowest(L) == \A i \in 1..Len(X) : LET S == NearestSet(cen, X[i]) IN
                   (ts.sexp >= 0 /\ \A a \in S : cen[a].den = 1) => L[i] + 1 = LowestOf(S)
NewCen == [c \in 1..k |-> IF Ev.cnt[c] = 0 THEN Obj(X, Ev.re[c]) ELSE [num |-> Ev.cnum[c], den |-> Ev.cnt[c]]]
TLIt == /\ l <= Len(Tr) /\ Ev.e = "KmIt" /\ Step /\ KeepModel /\ UNCHANGED <<X, k>>
        /\ phase = "run"
        /\ ~Has(Ev, "bad")
        /\ Ev.it = it + 1 /\ Ev.it <= 101
        /\ PropOnly \/ ~ts.must                                             \* Impl: no further iteration once every centroid moved by less than 1e-3
        /\ Len(Ev.labels) = Len(X) /\ Len(Ev.cnt) = k /\ Len(Ev.cnum) = k /\ Len(Ev.re) = k
        /\ \A i \in 1..Len(X) : Ev.labels[i] \in 0..(k - 1)
        /\ IsAssignment(X, cen, Ev.labels)                                   \* every object goes to a nearest centroid
        /\ PropOnly \/ ImplLowest(Ev.labels)                                 \* Impl: the lowest-numbered among the nearest
        /\ \A c \in 1..k : /\ Ev.cnt[c] = Cardinality(Members(Ev.labels, c - 1))
                           /\ Ev.cnt[c] > 0 => (Len(Ev.cnum[c]) = Len(X[1]) /\ \A j \in 1..Len(X[1]) : Ev.cnum[c][j] = SumOver(X, Ev.labels, c - 1, j, Len(X)))   \* centroid = mean of its members
                           /\ Ev.cnt[c] = 0 => Ev.re[c] \in 1..Len(X)                              \* an empty cluster restarts at an object
        /\ Ev.res <= TolMeanAff(Len(X), ts.mos)
        /\ lab' = Ev.labels /\ it' = Ev.it /\ cen' = NewCen
        /\ ts' = [ts EXCEPT !.may = Still(cen, NewCen, ts.sexp, FALSE), !.must = Still(cen, NewCen, ts.sexp, TRUE)]
        /\ phase' = "run"

TLEnd == /\ l <= Len(Tr) /\ Ev.e = "KmEnd" /\ Step /\ KeepModel /\ UNCHANGED <<X, k, cen, lab, it, ts>>
         /\ phase = "run" /\ it >= 1                                         \* at least one assignment step
         /\ Ev.iters = it
         /\ Ev.labels = lab                                                  \* the returned labels are those of the last step
         /\ ts.may \/ it > 100                                               \* stops only within the documented 1e-3 or at the cap
         /\ phase' = "idle"

TLNext == TLReset \/ TLPoints \/ TLStart \/ TLKmInit \/ TLIt \/ TLEnd
TLSpec == TLInit /\ [][TLNext]_tlvars
TraceAccepted == Accepted
Diag == ShowCursor(l)
====
