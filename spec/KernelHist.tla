---- MODULE KernelHist ----
(* C11, stateful layer: the dense kernels as ACTIONS over an object store.                                      *)
(*                                                                                                              *)
(* Kernels.tla judges one call on fresh operands.  The library's kernels, however, write into caller-provided   *)
(* outputs and are called many times in one process - on the same objects, on objects at re-used addresses,     *)
(* into outputs that were sized by an earlier call and still hold other data.  This module states what a call   *)
(* may depend on: the VALUES of its operands and, by the kernel's output contract, the previous state of its    *)
(* output - nothing else (no history, no address, no shape seen before).                                        *)
(*                                                                                                              *)
(* store : slot -> object.  An object is [row, col, d]: a matrix (d = rows of integers), a vector (an n x 1     *)
(* matrix), a scalar (1 x 1) or a tensor (row = number of slices, col = columns of every slice, d = the slices, *)
(* each a sequence of rows; slices may differ in their number of rows).  Cells are integer mantissas: the      *)
(* harness runs the library on mantissa * 2^unit (units per history, per row and per column - K4) and divides   *)
(* the units out of what the library returns, so every product kernel is judged EXACTLY.                        *)
(*                                                                                                              *)
(* Output contracts (Ctr):                                                                                      *)
(*   acc   accumulates into a caller-sized output (MatrixDotProduct, the matrix-vector products and their MT    *)
(*         versions, the tensor contractions).  Documented use: a zero-initialised output.  Prop: zero output   *)
(*         of the right shape => result = definition.  Impl: result = previous output + definition (the MT      *)
(*         matrix-vector worker overwrites instead).                                                            *)
(*   ovw   overwrites every cell of a caller-sized output (MatrixTranspose, RowColOuterProduct).  Prop: the     *)
(*         result is the definition whatever the output held.                                                   *)
(*   rsz   sizes its output itself (DVectorTrasposedDVectorDotProduct, MatrixCovariance; scalar returns).       *)
(*         Prop: the result is the definition whatever shape and contents the output had.                       *)
(*   app   appends to its output vector (the column / row statistics).  Prop: empty output => result =          *)
(*         definition.  Impl: result = previous output followed by the definition.                              *)
(*   srt   sorts its operand in place: Prop: any row permutation ordered by the key; Impl: the exchange sort.   *)
(*                                                                                                              *)
(* Results that are not integers are recorded as g = round(x * 2^sh) and judged by integer brackets:            *)
(*   near  |g * den - num * 2^sh| <= den            (x = num/den within 2^-sh)                                  *)
(*   sqrt  (g-1)^2 den <= num 4^sh <= (g+1)^2 den   (x = sqrt(num/den) within 2^-sh)                            *)
(* sh is chosen by the harness as large as 32-bit arithmetic allows; the fine tolerances (a few ulp, 1e-12) are *)
(* those of the replay direction (Kernels.tla + c11_replay.c); this layer is about WHICH state a result may     *)
(* depend on.                                                                                                   *)
EXTENDS KernelDefs, TLC
CONSTANTS NSlot,                \* slots 0 .. NSlot-1
          PropOnly              \* TRUE: only what C11 states; FALSE: also the implementation-shaped expectations

VARIABLE store
Slots == 0..(NSlot - 1)
Absent == [row |-> -1, col |-> -1, d |-> <<>>]
Obj(rw, cl, dd) == [row |-> rw, col |-> cl, d |-> dd]
EmptyStore == [s \in Slots |-> Absent]
Live(x) == x.row >= 0
Shaped(d, rows, cols) == Len(d) = rows /\ \A i \in 1..rows : Len(d[i]) = cols
IsObj(x) == x.row >= 0 /\ x.col >= 0 /\ Shaped(x.d, x.row, x.col)
IsVec(x) == IsObj(x) /\ x.col = 1
IsTen(x) == x.row >= 0 /\ x.col >= 0 /\ Len(x.d) = x.row /\ \A s \in 1..x.row : \A i \in 1..Len(x.d[s]) : Len(x.d[s][i]) = x.col
VecOf(x) == [i \in 1..x.row |-> x.d[i][1]]                     \* an n x 1 object read as an IntMat vector
ZeroObj(x) == \A i \in 1..x.row, j \in 1..x.col : x.d[i][j] = 0
Slice(x, s) == [row |-> Len(x.d[s]), col |-> x.col, d |-> x.d[s]]
RECURSIVE MaxRows(_, _)
MaxRows(x, s) == IF s = 0 THEN 0 ELSE LET m == MaxRows(x, s - 1) IN IF Len(x.d[s]) > m THEN Len(x.d[s]) ELSE m
Miss == 99999999                                                \* the library's missing-value code (unit scale only)
RECURSIVE Pow2(_)
Pow2(n) == IF n = 0 THEN 1 ELSE 2 * Pow2(n - 1)
Lim == 1073741824                                               \* 2^30: every product formed below stays inside 32 bits

(* ---- definitions: numerators, denominators, judgement mode ------------------------------------------------ *)
Def(rw, cl, F(_, _), D(_, _), mode) == [row |-> rw, col |-> cl, d |-> [i \in 1..rw |-> [j \in 1..cl |-> F(i, j)]],
                                        dn |-> [i \in 1..rw |-> [j \in 1..cl |-> D(i, j)]], mode |-> mode]
One(i, j) == 1
ProductFns == {"MatrixDotProduct", "MatrixDotProduct_", "MatrixDotProduct_LOOP_UNROLLING"}     \* the dispatcher and its two loops (both public)
MatVecFns == {"MatrixDVectorDotProduct", "MT_MatrixDVectorDotProduct"}
VecMatFns == {"DVectorMatrixDotProduct", "MT_DVectorMatrixDotProduct"}
OuterFns == {"RowColOuterProduct", "DVectorTrasposedDVectorDotProduct"}
TensorFns == {"TransposedTensorDVectorProduct", "DvectorTensorDotProduct", "TensorMatrixDotProduct"}
StatFns == {"MatrixColAverage", "MatrixRowAverage", "MatrixColVar", "MatrixColSDEV", "MatrixColRMS"}
ScalarFns == {"MatrixTrace", "Matrixnorm", "DVectorDVectorDotProd", "DvectorModule", "DVectorMean", "DVectorSDEV"}
SortFns == {"MatrixSort", "MatrixReverseSort"}
AllFns == ProductFns \cup MatVecFns \cup VecMatFns \cup OuterFns \cup TensorFns \cup StatFns \cup ScalarFns \cup SortFns
            \cup {"MatrixTranspose", "MatrixCovariance"}

Ctr(fn) == CASE fn \in ProductFns \cup MatVecFns \cup VecMatFns \cup TensorFns -> "acc"
             [] fn \in {"MatrixTranspose", "RowColOuterProduct"} -> "ovw"
             [] fn \in {"DVectorTrasposedDVectorDotProduct", "MatrixCovariance"} \cup ScalarFns -> "rsz"
             [] fn \in StatFns -> "app"
             [] fn \in SortFns -> "srt"

(* operands conformable for fn (the property quantifies over conformable operands only) *)
Conf(fn, o) ==
  CASE fn \in ProductFns -> IsObj(o[1]) /\ IsObj(o[2]) /\ o[1].col = o[2].row
                            /\ (fn = "MatrixDotProduct_LOOP_UNROLLING" => o[1].col >= 4)       \* the dispatcher enters the unrolled loop for (int)col - 3 > 0 only
    [] fn \in MatVecFns -> IsObj(o[1]) /\ IsVec(o[2]) /\ o[2].row = o[1].col
    [] fn \in VecMatFns -> IsObj(o[1]) /\ IsVec(o[2]) /\ o[2].row = o[1].row
    [] fn \in OuterFns -> IsVec(o[1]) /\ IsVec(o[2])
    [] fn = "MatrixTranspose" -> IsObj(o[1])
    [] fn = "MatrixTrace" -> IsObj(o[1]) /\ o[1].row = o[1].col
    [] fn = "Matrixnorm" -> IsObj(o[1])
    [] fn \in {"MatrixColAverage", "MatrixColRMS"} -> IsObj(o[1]) /\ o[1].row >= 1
    [] fn = "MatrixRowAverage" -> IsObj(o[1]) /\ o[1].col >= 1
    [] fn \in {"MatrixColVar", "MatrixColSDEV", "MatrixCovariance"} -> IsObj(o[1]) /\ o[1].row >= 2
    [] fn = "DVectorDVectorDotProd" -> IsVec(o[1]) /\ IsVec(o[2]) /\ o[1].row = o[2].row
    [] fn = "DvectorModule" -> IsVec(o[1])
    [] fn \in {"DVectorMean", "DVectorSDEV"} -> IsVec(o[1]) /\ o[1].row >= 1
    [] fn = "TransposedTensorDVectorProduct" -> IsTen(o[1]) /\ IsVec(o[2]) /\ o[2].row = o[1].col
    [] fn = "DvectorTensorDotProduct" -> IsTen(o[1]) /\ IsVec(o[2]) /\ \A s \in 1..o[1].row : Len(o[1].d[s]) = o[2].row
    [] fn = "TensorMatrixDotProduct" -> IsTen(o[1]) /\ IsObj(o[2]) /\ o[2].row = o[1].col /\ o[2].col = o[1].row
    [] fn \in SortFns -> IsObj(o[1])

(* the textbook definition of fn on operands o, as numerators d over denominators dn *)
DefOf(fn, o) ==
  CASE fn \in ProductFns -> LET P == MatMul(o[1], o[2]) IN Def(P.row, P.col, LAMBDA i, j : P.d[i][j], One, "eq")
    [] fn \in MatVecFns -> LET v == VecOf(o[2]) IN Def(o[1].row, 1, LAMBDA i, j : Dot(o[1].d[i], v, o[1].col), One, "eq")
    [] fn \in VecMatFns -> LET v == VecOf(o[2]) IN Def(o[1].col, 1, LAMBDA i, j : Dot(v, Column(o[1], i), o[1].row), One, "eq")
    [] fn \in OuterFns -> Def(o[1].row, o[2].row, LAMBDA i, j : o[1].d[i][1] * o[2].d[j][1], One, "eq")
    [] fn = "MatrixTranspose" -> Def(o[1].col, o[1].row, LAMBDA i, j : o[1].d[j][i], One, "eq")
    [] fn = "MatrixTrace" -> Def(1, 1, LAMBDA i, j : Trace(o[1]), One, "eq")
    [] fn = "Matrixnorm" -> Def(1, 1, LAMBDA i, j : SumSq(o[1]), One, "sqrt")
    [] fn = "MatrixColAverage" -> Def(o[1].col, 1, LAMBDA i, j : ColSum(o[1], i), LAMBDA i, j : o[1].row, "near")
    [] fn = "MatrixRowAverage" -> Def(o[1].row, 1, LAMBDA i, j : RowSum(o[1], i), LAMBDA i, j : o[1].col, "near")
    [] fn = "MatrixColVar" -> Def(o[1].col, 1, LAMBDA i, j : ColVarNum(o[1])[i], LAMBDA i, j : o[1].row * (o[1].row - 1), "near")
    [] fn = "MatrixColSDEV" -> Def(o[1].col, 1, LAMBDA i, j : ColVarNum(o[1])[i], LAMBDA i, j : o[1].row * (o[1].row - 1), "sqrt")
    [] fn = "MatrixColRMS" -> Def(o[1].col, 1, LAMBDA i, j : ColSumSq(o[1], i), LAMBDA i, j : o[1].row, "sqrt")
    [] fn = "MatrixCovariance" -> LET Cv == CovNum(o[1]) IN Def(o[1].col, o[1].col, LAMBDA i, j : Cv.d[i][j], LAMBDA i, j : o[1].row * (o[1].row - 1), "near")
    [] fn = "DVectorDVectorDotProd" -> Def(1, 1, LAMBDA i, j : Dot(VecOf(o[1]), VecOf(o[2]), o[1].row), One, "eq")
    [] fn = "DvectorModule" -> Def(1, 1, LAMBDA i, j : Dot(VecOf(o[1]), VecOf(o[1]), o[1].row), One, "sqrt")
    [] fn = "DVectorMean" -> Def(1, 1, LAMBDA i, j : SumF(VecOf(o[1]), o[1].row), LAMBDA i, j : o[1].row, "near")
    [] fn = "DVectorSDEV" -> LET v == VecOf(o[1])  n == o[1].row IN                   \* population standard deviation
                             Def(1, 1, LAMBDA i, j : n * Dot(v, v, n) - SumF(v, n) * SumF(v, n), LAMBDA i, j : n * n, "sqrt")
    (* tensor contractions; slices may differ in their row counts: rows a slice does not have contribute nothing *)
    [] fn = "TransposedTensorDVectorProduct" -> LET T == o[1]  v == VecOf(o[2]) IN
         Def(T.row, MaxRows(T, T.row), LAMBDA s, i : IF i <= Len(T.d[s]) THEN Dot(T.d[s][i], v, T.col) ELSE 0, One, "eq")
    [] fn = "DvectorTensorDotProduct" -> LET T == o[1]  v == VecOf(o[2]) IN
         Def(T.col, T.row, LAMBDA j, s : Dot(v, Column(Slice(T, s), j), o[2].row), One, "eq")
    [] fn = "TensorMatrixDotProduct" -> LET T == o[1]  M == o[2] IN
         Def(MaxRows(T, T.row), 1, LAMBDA i, j : SumF([s \in 1..T.row |-> IF i <= Len(T.d[s]) THEN Dot(T.d[s][i], Column(M, s), T.col) ELSE 0], T.row), One, "eq")

(* ---- K9 (outside the statement of C11: EXTRA layer): the same kernels on operands holding the MISSING code ---- *)
(* products skip every term with a missing factor; the outer products propagate the code; column / row          *)
(* statistics are those of the entries that are not missing                                                      *)
Keep(x, n) == {i \in 1..n : x[i] # Miss}
RECURSIVE SumOver(_, _)
SumOver(f, S) == IF S = {} THEN 0 ELSE LET i == CHOOSE i \in S : TRUE IN f[i] + SumOver(f, S \ {i})
DotSkip(x, y, n) == SumOver([i \in 1..n |-> x[i] * y[i]], Keep(x, n) \cap Keep(y, n))
SumSkip(x, n) == SumOver(x, Keep(x, n))
SqSkip(x, n) == SumOver([i \in 1..n |-> x[i] * x[i]], Keep(x, n))
CntSkip(x, n) == Cardinality(Keep(x, n))
VarNumSkip(x, n) == CntSkip(x, n) * SqSkip(x, n) - SumSkip(x, n) * SumSkip(x, n)
MissFns == MatVecFns \cup VecMatFns \cup OuterFns \cup StatFns \cup {"DVectorDVectorDotProd", "DvectorModule"}
DefMiss(fn, o) ==
  CASE fn \in MatVecFns -> LET v == VecOf(o[2]) IN Def(o[1].row, 1, LAMBDA i, j : DotSkip(o[1].d[i], v, o[1].col), One, "eq")
    [] fn \in VecMatFns -> LET v == VecOf(o[2]) IN Def(o[1].col, 1, LAMBDA i, j : DotSkip(v, Column(o[1], i), o[1].row), One, "eq")
    [] fn \in OuterFns -> Def(o[1].row, o[2].row, LAMBDA i, j : IF o[1].d[i][1] = Miss \/ o[2].d[j][1] = Miss THEN Miss ELSE o[1].d[i][1] * o[2].d[j][1], One, "eq")
    [] fn = "MatrixColAverage" -> Def(o[1].col, 1, LAMBDA i, j : SumSkip(Column(o[1], i), o[1].row), LAMBDA i, j : CntSkip(Column(o[1], i), o[1].row), "near")
    [] fn = "MatrixRowAverage" -> Def(o[1].row, 1, LAMBDA i, j : SumSkip(o[1].d[i], o[1].col), LAMBDA i, j : CntSkip(o[1].d[i], o[1].col), "near")
    [] fn = "MatrixColVar" -> Def(o[1].col, 1, LAMBDA i, j : VarNumSkip(Column(o[1], i), o[1].row),
                                  LAMBDA i, j : CntSkip(Column(o[1], i), o[1].row) * (CntSkip(Column(o[1], i), o[1].row) - 1), "near")
    [] fn = "MatrixColSDEV" -> Def(o[1].col, 1, LAMBDA i, j : VarNumSkip(Column(o[1], i), o[1].row),
                                   LAMBDA i, j : CntSkip(Column(o[1], i), o[1].row) * (CntSkip(Column(o[1], i), o[1].row) - 1), "sqrt")
    [] fn = "MatrixColRMS" -> Def(o[1].col, 1, LAMBDA i, j : SqSkip(Column(o[1], i), o[1].row), LAMBDA i, j : CntSkip(Column(o[1], i), o[1].row), "sqrt")
    [] fn = "DVectorDVectorDotProd" -> Def(1, 1, LAMBDA i, j : DotSkip(VecOf(o[1]), VecOf(o[2]), o[1].row), One, "eq")
    [] fn = "DvectorModule" -> Def(1, 1, LAMBDA i, j : SqSkip(VecOf(o[1]), o[1].row), One, "sqrt")
(* every column (row) keeps enough entries for its statistic *)
ConfMiss(fn, o) ==
  /\ fn \in MissFns /\ Conf(fn, o)
  /\ LET df == DefMiss(fn, o) IN \A i \in 1..df.row, j \in 1..df.col : df.dn[i][j] >= 1

(* ---- judging a recorded result ---------------------------------------------------------------------------- *)
(* g: recorded cell; num/den: the definition; sh: fractional bits of g *)
CellOK(g, num, den, mode, sh) ==
  /\ den >= 1 /\ sh \in 0..24
  /\ AbsI(g) <= Lim \div den /\ AbsI(num) <= Lim \div Pow2(sh)                        \* range first: nothing below can overflow
  /\ CASE mode = "eq" -> sh = 0 /\ g * den = num
       [] mode = "near" -> AbsI(g * den - num * Pow2(sh)) <= den
       [] mode = "sqrt" -> /\ sh <= 15 /\ g >= 0 /\ num >= 0 /\ g <= 32000 /\ (g + 1) * (g + 1) <= Lim \div den /\ num <= Lim \div Pow2(2 * sh)
                           /\ (IF g = 0 THEN TRUE ELSE (g - 1) * (g - 1) * den <= num * Pow2(2 * sh))
                           /\ num * Pow2(2 * sh) <= (g + 1) * (g + 1) * den
(* a result without cells is empty whatever its nominal shape (0 x c, r x 0, 0 x 0 are all "no cells") *)
ResIs(res, df, sh) ==
  /\ IF df.row = 0 \/ df.col = 0 THEN res.row >= 0 /\ res.col >= 0 /\ (res.row = 0 \/ res.col = 0)
                                  ELSE res.row = df.row /\ res.col = df.col /\ Shaped(res.d, res.row, res.col)
  /\ \A i \in 1..df.row, j \in 1..df.col : CellOK(res.d[i][j], df.d[i][j], df.dn[i][j], df.mode, sh)
(* previous output + definition (integer kernels only) *)
ResIsSum(res, pre, df) ==
  /\ res.row = df.row /\ res.col = df.col /\ Shaped(res.d, res.row, res.col)
  /\ pre.row = df.row /\ pre.col = df.col
  /\ \A i \in 1..df.row, j \in 1..df.col : res.d[i][j] = pre.d[i][j] + df.d[i][j]
(* previous output vector followed by the definition *)
ResIsAppended(res, pre, df, sh) ==
  /\ IsVec(pre) /\ res.col = 1 /\ res.row = pre.row + df.row /\ Shaped(res.d, res.row, 1)
  /\ sh \in 0..24 /\ \A i \in 1..pre.row : AbsI(pre.d[i][1]) <= Lim \div Pow2(sh) /\ res.d[i][1] = pre.d[i][1] * Pow2(sh)     \* recorded with sh fractional bits
  /\ \A i \in 1..df.row : CellOK(res.d[pre.row + i][1], df.d[i][1], df.dn[i][1], df.mode, sh)

(* units (K4): the harness may give every row / column of an operand its own power-of-two unit.  Outer units (rows of the   *)
(* left operand, columns of the right one) pass through a product unchanged and are divided out of the result.  Along the    *)
(* INNER dimension term q carries the unit 2^(ua[q] + ub[q]): the terms of one sum then differ by up to 2^20 in magnitude,  *)
(* and the result is still exact in double (all partial sums are integers below 2^53).  The model forms the same sum by      *)
(* scaling the left operand along the inner dimension with these weights.                                                     *)
HasUnits(ev) == "ua" \in DOMAIN ev
UnitsOK(ev) == HasUnits(ev) => (Len(ev.ua) = Len(ev.ub) /\ \A q \in 1..Len(ev.ua) : ev.ua[q] + ev.ub[q] \in 0..20)
Wt(ev, q) == Pow2(ev.ua[q] + ev.ub[q])
ScaleColsBy(x, ev) == Obj(x.row, x.col, [i \in 1..x.row |-> [j \in 1..x.col |-> x.d[i][j] * Wt(ev, j)]])
ScaleRowsBy(x, ev) == Obj(x.row, x.col, [i \in 1..x.row |-> [j \in 1..x.col |-> x.d[i][j] * Wt(ev, i)]])
InnerLen(fn, o) == IF fn \in VecMatFns THEN o[1].row ELSE o[1].col

(* ---- a call -------------------------------------------------------------------------------------------------- *)
(* ev: [fn, in (slots), out (slot), row, col, d (what the output holds after the call), exact, sh, key, np, miss] *)
RawOps(ev) == [q \in 1..Len(ev.in) |-> store[ev.in[q]]]
Ops(ev) == IF HasUnits(ev) /\ ev.fn \in ProductFns \cup MatVecFns \cup VecMatFns /\ Len(ev.ua) = InnerLen(ev.fn, RawOps(ev)) /\ UnitsOK(ev)
           THEN [q \in 1..Len(ev.in) |-> IF q = 1 THEN (IF ev.fn \in VecMatFns THEN ScaleRowsBy(store[ev.in[1]], ev) ELSE ScaleColsBy(store[ev.in[1]], ev))
                                                   ELSE store[ev.in[q]]]
           ELSE RawOps(ev)
ResOf(ev) == Obj(ev.row, ev.col, ev.d)
(* the precondition under which the contract promises the definition; events flagged pc = 1 must satisfy it (no vacuous judgement) *)
Precond(fn, pre, df) ==
  CASE Ctr(fn) = "acc" -> Live(pre) /\ pre.row = df.row /\ pre.col = df.col /\ ZeroObj(pre)
    [] Ctr(fn) = "ovw" -> Live(pre) /\ pre.row = df.row /\ pre.col = df.col
    [] Ctr(fn) = "rsz" -> Live(pre)
    [] Ctr(fn) = "app" -> Live(pre) /\ pre.row = 0
    [] OTHER -> TRUE
KeyOK(ev) == ev.key \in 1..store[ev.in[1]].col
PropCall(ev) ==
  LET o == Ops(ev)  pre == store[ev.out]  res == ResOf(ev) IN
  /\ ev.fn \in AllFns /\ ev.out \in Slots /\ \A q \in 1..Len(ev.in) : ev.in[q] \in Slots /\ Live(store[ev.in[q]])
  /\ Conf(ev.fn, o) /\ UnitsOK(ev) /\ (HasUnits(ev) => Len(ev.ua) = InnerLen(ev.fn, RawOps(ev)))
  /\ ev.exact = 1                                                  \* every cell of the output is a multiple of its unit
  /\ (ev.pc = 1 /\ Ctr(ev.fn) # "srt") => Precond(ev.fn, pre, DefOf(ev.fn, o))
  /\ CASE Ctr(ev.fn) \in {"acc", "ovw", "rsz", "app"} -> LET df == DefOf(ev.fn, o) IN Precond(ev.fn, pre, df) => ResIs(res, df, ev.sh)
       [] Ctr(ev.fn) = "srt" -> /\ ev.out = ev.in[1] /\ (o[1].col >= 1 => KeyOK(ev)) /\ Shaped(res.d, o[1].row, o[1].col)
                                /\ res.row = o[1].row /\ res.col = o[1].col
                                /\ (o[1].col >= 1 => IsSortOf(res.d, o[1].d, ev.key, ev.fn = "MatrixReverseSort"))
ImplCall(ev) ==
  PropOnly \/
  LET o == Ops(ev)  pre == store[ev.out]  res == ResOf(ev) IN
  CASE Ctr(ev.fn) = "acc" -> LET df == DefOf(ev.fn, o) IN
                               IF ev.fn = "MT_MatrixDVectorDotProduct" /\ ev.np > 1 THEN ResIs(res, df, 0)      \* the worker zeroes its rows first
                               ELSE ResIsSum(res, pre, df)
    [] Ctr(ev.fn) = "app" -> ResIsAppended(res, pre, DefOf(ev.fn, o), ev.sh)
    [] Ctr(ev.fn) = "srt" -> o[1].col >= 1 => res.d = ExchangeSort(o[1].d, ev.key, ev.fn = "MatrixReverseSort")
    [] OTHER -> TRUE
(* K9 layer: same event shape, operands may hold the MISSING code; judged against DefMiss *)
MissCall(ev) ==
  LET o == Ops(ev)  pre == store[ev.out]  res == ResOf(ev) IN
  /\ ev.fn \in MissFns /\ ConfMiss(ev.fn, o) /\ ev.exact = 1
  /\ Precond(ev.fn, pre, DefMiss(ev.fn, o))                        \* the harness always prepares the output as the contract asks
  /\ ResIs(res, DefMiss(ev.fn, o), ev.sh)

(* ---- the algebraic laws of the property, on what the CODE returned (slots filled by earlier calls) ---------- *)
AsMat(x) == [row |-> x.row, col |-> x.col, d |-> x.d]
SmallVecsH(n) == [1..n -> {-1, 0, 1}]
LawOK(ev) ==
  LET x == [q \in 1..Len(ev.s) |-> store[ev.s[q]]] IN
  /\ \A q \in 1..Len(ev.s) : ev.s[q] \in Slots /\ IsObj(x[q])
  /\ CASE ev.law = "ProductTranspose" -> x[1] = x[2]                                     \* x1 = (AB)' and x2 = B'A', both by the library
       [] ev.law = "Distributive" -> AsMat(x[1]) = MatAdd(AsMat(x[2]), AsMat(x[3]))        \* x1 = A(B+C), x2 = AB, x3 = AC
       [] ev.law = "Involution" -> x[1] = x[2]                                            \* x1 = (M')', x2 = M
       [] ev.law = "CovSymPSD" -> LET Cv == AsMat(x[1]) IN                                \* x1 = 2^sh * covariance as the library returned it
                                   /\ Cv.row = Cv.col /\ Cv = Transpose(Cv)
                                   /\ \A i, j \in 1..Cv.row : AbsI(Cv.d[i][j]) <= 30000
                                   /\ \A i, j \in 1..Cv.row : Cv.d[i][i] >= 0
                                                              /\ Cv.d[i][j] * Cv.d[i][j] <= Cv.d[i][i] * Cv.d[j][j] + 2 * (Cv.d[i][i] + Cv.d[j][j]) + 4
                                   /\ (Cv.row <= 4 => \A v \in SmallVecsH(Cv.row) : QuadForm(v, Cv) >= -(2 * Cv.row * Cv.row))

(* ---- the model as a state machine (model-checked on a small universe: MC_KernelHist.cfg) -------------------- *)
(* A call writes the definition (by contract) into the output slot; nothing else changes.                        *)
CONSTANTS MCFns, MCShapes, MCMax          \* kernels, operand dimensions and history length of the model-checked universe
VARIABLE steps
FillObj(s, rw, cl) == LET F == FillMat(s, rw, cl) IN Obj(rw, cl, F.d)
ApplyDef(fn, o, pre) ==
  LET df == DefOf(fn, o) IN
  CASE Ctr(fn) = "acc" -> IF Live(pre) /\ pre.row = df.row /\ pre.col = df.col THEN Obj(df.row, df.col, [i \in 1..df.row |-> [j \in 1..df.col |-> pre.d[i][j] + df.d[i][j]]]) ELSE pre
    [] Ctr(fn) = "app" -> IF Live(pre) /\ pre.col = 1 THEN Obj(pre.row + df.row, 1, [i \in 1..(pre.row + df.row) |-> IF i <= pre.row THEN pre.d[i] ELSE df.d[i - pre.row]]) ELSE Obj(df.row, 1, df.d)
    [] OTHER -> Obj(df.row, df.col, df.d)
MInit == store = EmptyStore /\ steps = 0
MPut(s, fill, rw, cl) == steps < MCMax /\ steps' = steps + 1 /\ store' = [store EXCEPT ![s] = FillObj(fill, rw, cl)]
MZero(s, rw, cl) == steps < MCMax /\ steps' = steps + 1 /\ store' = [store EXCEPT ![s] = Obj(rw, cl, [i \in 1..rw |-> [j \in 1..cl |-> 0]])]
MCall(fn, a, b, out) ==
  LET o == <<store[a], store[b]>> IN
  /\ steps < MCMax /\ Live(store[a]) /\ Live(store[b]) /\ Conf(fn, o)
  /\ steps' = steps + 1 /\ store' = [store EXCEPT ![out] = ApplyDef(fn, o, store[out])]
MNext == \/ \E s \in Slots, f \in 0..1, rw \in MCShapes, cl \in MCShapes : MPut(s, f, rw, cl)
         \/ \E s \in Slots, rw \in MCShapes, cl \in MCShapes : MZero(s, rw, cl)
         \/ \E fn \in MCFns, a \in Slots, b \in Slots, out \in Slots : MCall(fn, a, b, out)
MSpec == MInit /\ [][MNext]_<<store, steps>>
(* theorems of the store machine *)
TypeOK == \A s \in Slots : store[s] = Absent \/ IsObj(store[s])
(* a zeroed output of the right shape receives exactly the definition (the documented contract of the accumulating kernels) *)
ZeroContract == \A fn \in MCFns, a \in Slots, b \in Slots, out \in Slots :
  LET o == <<store[a], store[b]>> IN
  (Live(store[a]) /\ Live(store[b]) /\ Conf(fn, o) /\ Ctr(fn) = "acc") =>
     LET df == DefOf(fn, o)  z == Obj(df.row, df.col, [i \in 1..df.row |-> [j \in 1..df.col |-> 0]]) IN
     ApplyDef(fn, o, z) = Obj(df.row, df.col, df.d)
(* a call depends on the operand values only: equal operands in different slots give equal results *)
NoHiddenState == \A fn \in MCFns, a \in Slots, b \in Slots, a2 \in Slots, b2 \in Slots :
  (Live(store[a]) /\ Live(store[b]) /\ store[a] = store[a2] /\ store[b] = store[b2] /\ Conf(fn, <<store[a], store[b]>>)) =>
     DefOf(fn, <<store[a], store[b]>>) = DefOf(fn, <<store[a2], store[b2]>>)
(* overwriting / self-sizing kernels are idempotent: the second call changes nothing *)
Idempotent == \A fn \in MCFns, a \in Slots, b \in Slots, out \in Slots :
  LET o == <<store[a], store[b]>> IN
  (Live(store[a]) /\ Live(store[b]) /\ Conf(fn, o) /\ Ctr(fn) \in {"ovw", "rsz"} /\ out # a /\ out # b) =>
     ApplyDef(fn, o, ApplyDef(fn, o, store[out])) = ApplyDef(fn, o, store[out])
(* accumulating twice into a fitting output gives twice the product on top of what was there *)
AccumulateTwice == \A fn \in MCFns, a \in Slots, b \in Slots, out \in Slots :
  LET o == <<store[a], store[b]>>  pre == store[out] IN
  (Live(store[a]) /\ Live(store[b]) /\ Conf(fn, o) /\ Ctr(fn) = "acc" /\ out # a /\ out # b) =>
     LET df == DefOf(fn, o) IN
     (Live(pre) /\ pre.row = df.row /\ pre.col = df.col) =>
        ApplyDef(fn, o, ApplyDef(fn, o, pre)).d = [i \in 1..df.row |-> [j \in 1..df.col |-> pre.d[i][j] + 2 * df.d[i][j]]]
====
