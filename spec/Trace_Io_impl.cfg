SPECIFICATION TSpec
CONSTANTS
  Paths = {"p1", "p2"}
  MaxHist = 0
  DropTables = TRUE
  SaveAll = TRUE
  ReadBlock = 0
  SizeSet = {1, 2, 3}
  Rewrites = FALSE
  Shape = "all"
  Reuse = "off"
  PropOff = TRUE
  ImplOff = FALSE
  Tol = 1000
  TolPred = 1000000
  XProp = FALSE
CONSTRAINT Diag
POSTCONDITION TraceAccepted
CHECK_DEADLOCK FALSE
