SPECIFICATION SSpec
CONSTANTS
  Budget = 10
  MaxRank = 1
  Ns = {2}
  Fault = "none"
  Alphabet = {1, 2, 3, 4, 5, 8, 12, 20, 40, 100, 400, 2000}
  MaxLen = 6
  ShapeSet = "thorough"
  StartRule = "argmax"
INVARIANT SpectralOrder
INVARIANT VarexpDescending
INVARIANT VarexpNormalised
INVARIANT BoundDefined
INVARIANT LocSound
INVARIANT SlicesCover
INVARIANT MtShapeClasses
CONSTRAINT Emit
