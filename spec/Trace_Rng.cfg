SPECIFICATION TSpec
CONSTRAINT Diag
POSTCONDITION TraceAccepted
CHECK_DEADLOCK FALSE
