SPECIFICATION TSpec
CONSTANTS
  PropOnly = FALSE
CONSTRAINT Diag
POSTCONDITION TraceAccepted
CHECK_DEADLOCK FALSE
