---- MODULE Preprocess ----
(* C10.  Exact reference semantics of MatrixPreprocess / TensorPreprocess (preprocessing.c) and of the column     *)
(* statistics they use (matrix.c MatrixColAverage, MatrixColSDEV, MatrixColRMS, MatrixColumnMinMax).               *)
(* A matrix is a sequence of rows over Int \cup {MISSING}; the statistics skip MISSING cells.  All results are     *)
(* exact rationals (module Rat).  A scale is carried raised to the power p at which it is rational:              *)
(*   type 1  sdev^2   = Var          (p = 2)      type 4  range                 (p = 1)                          *)
(*   type 2  rms^2    = S2/N  (raw)  (p = 2)      type 5  mean (level scaling)  (p = 1)                          *)
(*   type 3  Pareto: scale = sqrt(sdev), scale^4 = Var (p = 4)                                                  *)
(*   type 0  centre only (scale 1)                type -1 copy                                                  *)
(* A transformed cell t satisfies  t * scale = x - mean ; a column whose scale is exactly 0 becomes exactly 0.     *)
(* TLC is the oracle: Init enumerates the input space, the invariants below are the theorems of the property on   *)
(* the exact semantics, and Emit prints every case with its exact expected result for the C replay driver.       *)
EXTENDS Integers, Sequences, FiniteSets, TLC, Json, Rat
CONSTANTS Shapes,              \* shapes enumerated, each coded rows * 10 + cols (a .cfg cannot hold tuples)
          Variants,            \* affine images of the base matrix computed exactly here (see Img)
          TypeCodes,           \* options enumerated, each coded type + 1 (a .cfg cannot hold negative numbers in a set)
          ModX, ResX,          \* deterministic sample of matrices: keep those whose code is congruent ResX modulo ModX (1: all)
          Mod, Res,            \* deterministic sample of cases (matrix, variant, option): code congruent Res modulo Mod (1: all)
          MaxMissing
MISSING == 99999999
Vals == -2..3
ValsM == Vals \cup {MISSING}
Types == -1..5

\* TLC evaluates [i \in S |-> e] lazily and re-evaluates e at every application; SeqOf builds the explicit sequence once
RECURSIVE SeqOf(_, _)
SeqOf(Op(_), n) == IF n = 0 THEN <<>> ELSE Append(SeqOf(Op, n - 1), Op(n))

(* ---------- column statistics ---------- *)
\* (TLC does not memoise operator applications: everything derived from a column goes through one Stats record that
\*  is bound once by LET, and sums run over indices instead of CHOOSE over sets)
Present(x) == {i \in DOMAIN x : x[i] # MISSING}
RECURSIVE CntIdx(_, _)
CntIdx(x, k) == IF k = 0 THEN 0 ELSE (IF x[k] = MISSING THEN 0 ELSE 1) + CntIdx(x, k - 1)
RECURSIVE SumIdx(_, _)
SumIdx(x, k) == IF k = 0 THEN 0 ELSE (IF x[k] = MISSING THEN 0 ELSE x[k]) + SumIdx(x, k - 1)
RECURSIVE SqIdx(_, _)
SqIdx(x, k) == IF k = 0 THEN 0 ELSE (IF x[k] = MISSING THEN 0 ELSE x[k] * x[k]) + SqIdx(x, k - 1)
Nn(x) == CntIdx(x, Len(x))
S1(x) == SumIdx(x, Len(x))
S2(x) == SqIdx(x, Len(x))
PresentVals(x) == {x[i] : i \in Present(x)}
RECURSIVE MxIdx(_, _, _)
MxIdx(x, k, m) == IF k = 0 THEN m ELSE MxIdx(x, k - 1, IF x[k] # MISSING /\ (m = MISSING \/ x[k] > m) THEN x[k] ELSE m)
RECURSIVE MnIdx(_, _, _)
MnIdx(x, k, m) == IF k = 0 THEN m ELSE MnIdx(x, k - 1, IF x[k] # MISSING /\ (m = MISSING \/ x[k] < m) THEN x[k] ELSE m)
Mx(x) == MxIdx(x, Len(x), MISSING)                       \* largest / smallest present value (the column has one)
Mn(x) == MnIdx(x, Len(x), MISSING)
Stats(x) == LET N == Nn(x) s1 == S1(x) s2 == S2(x) IN
            [N |-> N, S1 |-> s1, S2 |-> s2,
             SSD |-> N * s2 - s1 * s1,                    \* N * sum (x_i - mean)^2
             range |-> Mx(x) - Mn(x)]
CentredNumS(st, xi) == st.N * xi - st.S1                 \* x_i - mean = CentredNum / N
MeanS(st) == RNorm(st.S1, st.N)
VarS(st) == RNorm(st.SSD, st.N * (st.N - 1))             \* sample variance, N >= 2
Rms2S(st) == RNorm(st.S2, st.N)                          \* of the RAW column
Pw(type) == IF type \in {1, 2} THEN 2 ELSE IF type = 3 THEN 4 ELSE 1
ScalePowS(st, type) == CASE type = 1 -> VarS(st)
                         [] type = 2 -> Rms2S(st)
                         [] type = 3 -> VarS(st)
                         [] type = 4 -> RI(st.range)
                         [] type = 5 -> MeanS(st)
                         [] OTHER    -> ROne
\* the same by column, for callers that need one quantity only
CentredNum(x, i) == CentredNumS(Stats(x), x[i])
SSDNum(x) == Stats(x).SSD
Range(x) == Mx(x) - Mn(x)
Mean(x) == MeanS(Stats(x))
Var(x) == VarS(Stats(x))
Rms2(x) == Rms2S(Stats(x))
ScalePow(x, type) == ScalePowS(Stats(x), type)
ZeroScale(x, type) == RIsZero(ScalePow(x, type))

(* ---------- fit / apply on one column ---------- *)
\* transformed cell raised to the power p (exact, signed for p = 1), its sign; 0 for a zero-scale column or a MISSING cell
FitCol(x, type) == LET st == Stats(x) sp == ScalePowS(st, type) p == Pw(type) z == RIsZero(sp)
                       cen == SeqOf(LAMBDA i : IF x[i] = MISSING THEN RZero ELSE RNorm(CentredNumS(st, x[i]), st.N), Len(x)) IN
                   [avg |-> MeanS(st), sp |-> sp, st |-> st, zero |-> z, cen |-> cen,
                    tp |-> SeqOf(LAMBDA i : IF z \/ x[i] = MISSING THEN RZero ELSE RDiv(RPow(cen[i], p), sp), Len(x)),
                    sg |-> SeqOf(LAMBDA i : IF z \/ x[i] = MISSING THEN 0 ELSE RSign(cen[i]) * (IF p = 1 THEN RSign(sp) ELSE 1), Len(x))]
FitPow(x, type, i) == FitCol(x, type).tp[i]
\* the stored transform applied to an arbitrary value y (same matrix or new rows): only avg and scale^p are used
ApplyPow(avg, sp, p, y) == IF RIsZero(sp) THEN RZero ELSE RDiv(RPow(RSub(RI(y), avg), p), sp)
ApplySign(avg, sp, p, y) == IF RIsZero(sp) THEN 0 ELSE RSign(RSub(RI(y), avg)) * (IF p = 1 THEN RSign(sp) ELSE 1)

(* ---------- matrices, tensors ---------- *)
NRow(M) == Len(M)
NCol(M) == Len(M[1])
Col(M, j) == SeqOf(LAMBDA i : M[i][j], NRow(M))
MissingCount(M) == Cardinality({<<i, j>> \in (1..NRow(M)) \X (1..NCol(M)) : M[i][j] = MISSING})
WellFormed(M) == \A j \in 1..NCol(M) : Nn(Col(M, j)) >= 2
\* a column with fewer than two present cells has no sample spread: outside the property's quantifier (deleting its MISSING
\* cells leaves a matrix with fewer than 2 rows).  The total extension used for the EXTRA (out-of-statement) part of the trace
\* specification: x - mean is 0 for the only present cell, so the column counts as "without spread" and must come out as exact,
\* finite zeros with finite stored vectors
Degenerate(x) == Nn(x) < 2
Fit(M, type) == LET fc == SeqOf(LAMBDA j : FitCol(Col(M, j), type), NCol(M)) IN
                [avg |-> SeqOf(LAMBDA j : fc[j].avg, NCol(M)),
                 sp  |-> SeqOf(LAMBDA j : fc[j].sp, NCol(M)),
                 p   |-> Pw(type),
                 tp  |-> SeqOf(LAMBDA i : SeqOf(LAMBDA j : fc[j].tp[i], NCol(M)), NRow(M)),
                 sg  |-> SeqOf(LAMBDA i : SeqOf(LAMBDA j : fc[j].sg[i], NCol(M)), NRow(M))]
Apply(f, Z) == [tp |-> SeqOf(LAMBDA i : SeqOf(LAMBDA j : IF Z[i][j] = MISSING THEN RZero ELSE ApplyPow(f.avg[j], f.sp[j], f.p, Z[i][j]), Len(Z[1])), Len(Z)),
                sg |-> SeqOf(LAMBDA i : SeqOf(LAMBDA j : IF Z[i][j] = MISSING THEN 0 ELSE ApplySign(f.avg[j], f.sp[j], f.p, Z[i][j]), Len(Z[1])), Len(Z))]
\* tensor preprocessing is matrix preprocessing block by block
TensorFit(T, type) == SeqOf(LAMBDA k : Fit(T[k], type), Len(T))

(* ---------- affine images: what the replay driver feeds to the library is Img(X, v) * 2^-e ---------- *)
\* v = 0 identity; v = 2 offsets +-1000; v = 1 / 3: spread x64 and a per-column offset that puts the column mean in
\* [5, 6) resp. (-6, -5] units: with unit 2^-10 that is a mean of 0.0049..0.0059 and a spread >= 0.027, i.e. inside the
\* property's quantifier and between the two zero-scale thresholds of the implementation (1e-3 fit, 1e-2 apply)
FloorDiv(a, b) == a \div b                              \* TLC's \div rounds towards minus infinity for b > 0
OffsetOf(x, w, j) == CASE w = 1 -> 5 - FloorDiv(64 * S1(x), Nn(x))
                       [] w = 3 -> -(5 - FloorDiv(64 * S1(x), Nn(x)))
                       [] w = 2 -> IF j % 2 = 1 THEN 1000 ELSE -1000
                       [] OTHER -> 0
FactorOf(w) == CASE w = 1 -> 64 [] w = 3 -> -64 [] OTHER -> 1
Img(M, w) == LET off == SeqOf(LAMBDA j : OffsetOf(Col(M, j), w, j), NCol(M)) IN
             SeqOf(LAMBDA i : SeqOf(LAMBDA j : IF M[i][j] = MISSING THEN MISSING ELSE FactorOf(w) * M[i][j] + off[j], NCol(M)), NRow(M))
\* two new rows outside the training range, in image space
NewRows(M, w) == LET off == SeqOf(LAMBDA j : OffsetOf(Col(M, j), w, j), NCol(M)) IN
                 << SeqOf(LAMBDA j : FactorOf(w) * (IF j % 2 = 1 THEN 4 ELSE -3) + off[j], NCol(M)),
                    SeqOf(LAMBDA j : FactorOf(w) * (IF M[1][j] = MISSING THEN 0 ELSE M[1][j] + 1) + off[j], NCol(M)) >>

(* ---------- enumeration ---------- *)
VARIABLES X, v, type
vars == <<X, v, type>>
RECURSIVE CodeSeq(_, _, _)
CodeSeq(s, k, h) == IF k = 0 THEN h ELSE CodeSeq(s, k - 1, (h * 7 + (IF s[k] = MISSING THEN 6 ELSE s[k] + 2)) % 1000003)
RECURSIVE CodeMat(_, _, _)
CodeMat(M, k, h) == IF k = 0 THEN h ELSE CodeMat(M, k - 1, CodeSeq(M[k], Len(M[k]), h))
Code(M, w, t) == (CodeMat(M, Len(M), 17) * 31 + w * 8 + t + 1) % 1000003
Init == /\ \E sh \in Shapes : X \in [1..(sh \div 10) -> [1..(sh % 10) -> ValsM]]
        /\ CodeMat(X, Len(X), 17) % ModX = ResX
        /\ MissingCount(X) <= MaxMissing
        /\ WellFormed(X)
        /\ v \in Variants
        /\ type \in {tc - 1 : tc \in TypeCodes}
        /\ Code(X, v, type) % Mod = Res
Next == FALSE /\ UNCHANGED vars
Spec == Init /\ [][Next]_vars

(* ---------- theorems (invariants over every enumerated case; stated on the base matrix, exact) ---------- *)
\* F.tp holds the signed transformed value for the p = 1 types, its square for p = 2, its fourth power for p = 4; F.sg its sign
Cols == 1..NCol(X)
Rows == 1..NRow(X)
ColSum(f, j) == RSum(SeqOf(LAMBDA i : f[i][j], NRow(X)))
\* C[j] = FitCol of column j ; F = Fit(X, type)
\* (T1) column means of the transform are 0
ThMeansZero(C) == \A j \in Cols : RIsZero(RSum(C[j].cen))
ThMeansZeroP1(F) == (type \in {0, 4, 5}) => \A j \in Cols : RIsZero(ColSum(F.tp, j))
\* (T2) the promised statistic
ThUnitSdev(F, C) == type = 1 => \A j \in Cols : ~C[j].zero => ColSum(F.tp, j) = RI(C[j].st.N - 1)            \* sum t^2 = N - 1
ThRms(F, C) == type = 2 => \A j \in Cols : ~C[j].zero =>                                                   \* raw column / rms has unit rms:
            RAdd(ColSum(F.tp, j), RMul(RI(C[j].st.N), RDiv(RPow(C[j].avg, 2), C[j].sp))) = RI(C[j].st.N)   \* sum (t + mean/rms)^2 = N
ThPareto(F, C) == type = 3 => \A j \in Cols : ~C[j].zero =>
            LET N == C[j].st.N  vr == C[j].sp  ssq == RNorm(C[j].st.SSD, N) IN                              \* ssq = sum centred^2
            /\ RMul(ssq, ssq) = RMul(RMul(RI(N - 1), RI(N - 1)), RMul(vr, vr))      \* (sum c^2)^2 = (N-1)^2 Var^2  <=>  sum t^2 = (N-1) sdev
            /\ \A i \in Rows : X[i][j] # MISSING => RMul(F.tp[i][j], vr) = RPow(C[j].cen[i], 4)             \* t^4 sdev^2 = centred^4
ThRange(F, C) == type = 4 => \A j \in Cols : ~C[j].zero =>
            LET ts == {F.tp[i][j] : i \in Present(Col(X, j))}
                mx == CHOOSE a \in ts : \A b \in ts : RLe(b, a)
                mn == CHOOSE a \in ts : \A b \in ts : RLe(a, b)
            IN RSub(mx, mn) = ROne                                   \* transformed column has range 1
ThLevel(F, C) == type = 5 => \A j \in Cols : ~C[j].zero =>           \* t = x/mean - 1
            \A i \in Present(Col(X, j)) : RAdd(F.tp[i][j], ROne) = RDiv(RI(X[i][j]), C[j].avg)
ThCentreOnly(F, C) == type = 0 => \A j \in Cols : \A i \in Rows : F.tp[i][j] = C[j].cen[i]
\* (T3) columns without spread become exactly zero; for sdev, Pareto and range the scale is 0 exactly for constant columns
ThZeroSpread(F, C) == \A j \in Cols : LET const == Cardinality(PresentVals(Col(X, j))) = 1 IN
                         /\ (const /\ type >= 0) => \A i \in Rows : F.tp[i][j] = RZero
                         /\ (type \in {1, 3, 4}) => (C[j].zero <=> const)
\* (T4) applying the stored transform to the training matrix reproduces the training transform
ThApplySame(F) == type >= 0 => LET A == Apply(F, X) IN A.tp = F.tp /\ A.sg = F.sg
\* (T5) new rows get the same map: for every value y, t(y)^p * scale^p = (y - avg)^p with the STORED avg and scale
ThNewRows(F, C) == type >= 0 => \A j \in Cols : ~C[j].zero => \A y \in {-3, 4} :
                RMul(ApplyPow(F.avg[j], F.sp[j], F.p, y), F.sp[j]) = RPow(RSub(RI(y), F.avg[j]), F.p)
\* (T6) a missing cell influences nothing else: the column statistics are those of the column with the cell deleted
Delete(x, k) == SeqOf(LAMBDA i : IF i < k THEN x[i] ELSE x[i + 1], Len(x) - 1)
ThMissing(C) == \A j \in Cols : \A k \in Rows : X[k][j] = MISSING =>
                LET D == FitCol(Delete(Col(X, j), k), type) IN
                /\ D.avg = C[j].avg /\ D.sp = C[j].sp
                /\ \A i \in DOMAIN D.tp : D.tp[i] = C[j].tp[IF i < k THEN i ELSE i + 1]
\* (T7) shift/scale laws that justify replaying the affine images: Var and range are offset-invariant and scale with a^2, |a|
ThAffine(C) == \A j \in Cols : LET y == Stats(Col(Img(X, 2), j)) z == Stats(Col(Img(X, 1), j)) IN
                /\ y.SSD = C[j].st.SSD /\ y.range = C[j].st.range
                /\ z.SSD = 64 * 64 * C[j].st.SSD /\ z.range = 64 * C[j].st.range
                /\ LET m == MeanS(z) IN RLe(RI(5), m) /\ RLt(m, RI(6))
\* (T8) tensor = per-block matrix (checked on the two-block tensor <<X, Img(X, 2)>>)
ThTensor(F) == LET T == <<X, Img(X, 2)>> TF == TensorFit(T, type) IN TF[1] = F /\ TF[2] = Fit(Img(X, 2), type)
\* (T9) the transform does not depend on the unit the column is measured in (justifies recording columns on the grids
\*      2^-e and 1/q, q = 10, 3, 1000, 7, 49 ..., classes K4/K5): for x -> k x the average scales with k, scale^p with k^2
\*      (sdev^2, rms^2, Pareto scale^4 = Var) resp. k (range, mean), the zero-scale verdict and the signs are unchanged, and the
\*      transformed value is unchanged except for centring only (k) and Pareto (t^4 scales with k^2, i.e. t with sqrt(k))
ScaleCol(x, k) == SeqOf(LAMBDA i : IF x[i] = MISSING THEN MISSING ELSE k * x[i], Len(x))
ThUnitFree(C) == \A j \in Cols : \A k \in {3, 10} :
                LET D  == FitCol(ScaleCol(Col(X, j), k), type)
                    es == CASE type \in {1, 2, 3} -> 2 [] type \in {4, 5} -> 1 [] OTHER -> 0
                    et == CASE type <= 0 -> 1 [] type = 3 -> 2 [] OTHER -> 0
                IN /\ D.avg = RMul(RI(k), C[j].avg)
                   /\ D.sp = RMul(RPow(RI(k), es), C[j].sp)
                   /\ D.zero = C[j].zero /\ D.sg = C[j].sg
                   /\ \A i \in Rows : D.tp[i] = RMul(RPow(RI(k), et), C[j].tp[i])
\* (T10) a column is transformed on its own: a constant or duplicated column among informative ones changes nothing for
\*       the others (class K8) - the fit of the matrix is the column-wise fit, and equal columns get equal results
ThColumnLocal(F, C) == /\ \A j \in Cols : F.avg[j] = C[j].avg /\ F.sp[j] = C[j].sp /\ \A i \in Rows : F.tp[i][j] = C[j].tp[i]
                       /\ \A j, k \in Cols : Col(X, j) = Col(X, k) => C[j] = C[k]
\* (T11) rows carrying the same values get the same transformed values (duplicate rows, ties; class K8)
ThTies(C) == \A j \in Cols : \A i, k \in Rows : X[i][j] = X[k][j] => C[j].tp[i] = C[j].tp[k] /\ C[j].sg[i] = C[j].sg[k]
Theorems == LET C == SeqOf(LAMBDA j : FitCol(Col(X, j), type), NCol(X)) IN
            IF v # 0 THEN ThMeansZero(C)
            ELSE LET F == Fit(X, type) IN
                 /\ ThMeansZero(C) /\ ThMeansZeroP1(F) /\ ThUnitSdev(F, C) /\ ThRms(F, C) /\ ThPareto(F, C) /\ ThRange(F, C)
                 /\ ThLevel(F, C) /\ ThCentreOnly(F, C) /\ ThZeroSpread(F, C) /\ ThApplySame(F) /\ ThNewRows(F, C)
                 /\ ThMissing(C) /\ ThAffine(C) /\ ThTensor(F) /\ ThUnitFree(C) /\ ThColumnLocal(F, C) /\ ThTies(C)

(* ---------- emission of the case with its exact expected result ---------- *)
CaseRec == LET Y == Img(X, v)
               st == SeqOf(LAMBDA j : Stats(Col(Y, j)), NCol(X))
               nr == NewRows(X, v) IN
           [r |-> NRow(X), c |-> NCol(X), v |-> v, type |-> type, p |-> Pw(type), X |-> Y,
            avg |-> SeqOf(LAMBDA j : MeanS(st[j]), NCol(X)), sp |-> SeqOf(LAMBDA j : ScalePowS(st[j], type), NCol(X)),
            n |-> SeqOf(LAMBDA j : st[j].N, NCol(X)),
            cn |-> SeqOf(LAMBDA i : SeqOf(LAMBDA j : IF Y[i][j] = MISSING THEN 0 ELSE CentredNumS(st[j], Y[i][j]), NCol(X)), NRow(X)),
            ny |-> nr,
            ncn |-> SeqOf(LAMBDA k : SeqOf(LAMBDA j : CentredNumS(st[j], nr[k][j]), NCol(X)), 2)]
Emit == PrintT("@@" \o ToJson(CaseRec))
====
