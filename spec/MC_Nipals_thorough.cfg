SPECIFICATION FairSpec
CONSTANTS
  MaxRank = 4
  MaxNpc = 6
  MaxIter = 5
  Guarded = TRUE
  Sites = {"PCA", "PLS", "CPCA", "KMEANS", "NM", "MLRLOO"}
PROPERTY Terminates
PROPERTY CounterVariant
INVARIANT BeyondRankZero
INVARIANT TypeOK
CHECK_DEADLOCK FALSE
