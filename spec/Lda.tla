---- MODULE Lda ----
(* C08.  Linear discriminant analysis (src/lda.c): what is discrete or exact-rational about it.             *)
(*                                                                                                        *)
(* Mode 1 - label bookkeeping (lda.c:124-144, 489-494, 520, 533).  Labels are small integers whose least  *)
(*   value is 0 or 1.  The model keeps one row per class in mu / pprob / fmean / fsdev; row k stands for   *)
(*   label k + class_start.  LDAPrediction turns the arg-max ROW into a LABEL and later turns that label  *)
(*   back into a row to index the feature tables.  Constant LabelMap says how:                            *)
(*     "plus_pos"   : label = argmax + pos, table row = label + pos, pos = -1 for 1-based labels          *)
(*                    (what the pinned tree does)                                                         *)
(*     "plus_start" : label = argmax + class_start, table row = label - class_start                       *)
(*   Which variant the code implements is never assumed; it is inferred from the conformance step.        *)
(* Mode 2 - priors and class means are exact rationals of the labels and of integer feature data:         *)
(*   Prior[k] = count_k / n,  Mu[k][j] = (sum of feature j over the members of class k) / count_k.        *)
(* Mode 2b (round 3) - the discriminant itself, exactly, for one or two features: with W = the pooled      *)
(*   within-class scatter, C = W^-1 (up to a positive factor) and classes k, l of EQUAL size N (the        *)
(*   logarithms of the priors cancel) the sign of f_k(x) - f_l(x) is the sign of the INTEGER               *)
(*     Sgn(k,l,x) = 2N (s_k - s_l)' adj(PW) x - (s_k' adj(PW) s_k - s_l' adj(PW) s_l)                      *)
(*   (s_k = class sums, PW = P x W with P the product of the class sizes, adj = adjugate, det(PW) > 0).    *)
(*   From it: the set of rows no equally large class beats (AdmRows), exact ties (mirror-symmetric data,   *)
(*   K8), and the invariance clauses of C08 as theorems in exact arithmetic: Sgn is multiplied by          *)
(*   det(A)^2 > 0 under x -> Ax + b applied to training and test data alike (AffineSgn), unchanged by any  *)
(*   reordering of the training objects (PermSgn) and by the numbering of the classes (StartSgn).          *)
(*   The replay may therefore RECODE a case (offsets up to 1e6, units 2^-20..2^20, grids 1/10 and 1/3:     *)
(*   input classes K3, K4, K5) while TLC keeps judging it on the small integer coordinates.               *)
(* Mode 1b (round 3) - confusion counts of LDAError and the one-vs-rest indicator of                       *)
(*   LDAMulticlassStatistics as exact functions of the true and predicted label sequences.                 *)
(* The floating-point side (inverse covariance, logarithm) is handled as a ledger by TraceLda.tla.         *)
EXTENDS Integers, Sequences, FiniteSets, TLC, Json
CONSTANTS MaxN,        \* label vectors of length 2..MaxN
          MaxK,        \* 2..MaxK classes
          NPat,        \* number of integer feature patterns emitted per label vector
          LabelMap     \* "plus_pos" | "plus_start"
MapLevel == IF MaxN >= 6 THEN 2 ELSE 1      \* scopes up to 5 objects (quick tier) check half of the affine maps

Range(f) == {f[i] : i \in DOMAIN f}
MinS(S) == CHOOSE m \in S : \A v \in S : m <= v
MaxS(S) == CHOOSE m \in S : \A v \in S : m >= v
Abs(v) == IF v < 0 THEN 0 - v ELSE v

(* ---------------------------------------------------------------- label bookkeeping (what LDA() stores) *)
ClassStart(lab) == IF MinS(Range(lab)) = 0 THEN 0 ELSE 1
NClass(lab) == IF ClassStart(lab) = 0 THEN MaxS(Range(lab)) + 1 ELSE MaxS(Range(lab))
Rows(lab) == 0..(NClass(lab) - 1)
RowOf(lab, label) == label - ClassStart(lab)
LabelOf(lab, row) == row + ClassStart(lab)
Members(lab, k) == {i \in DOMAIN lab : lab[i] = LabelOf(lab, k)}
Count(lab, k) == Cardinality(Members(lab, k))
(* the property's quantifier: numbering starts at 0 or 1 and every class in between occurs *)
WellFormed(lab) == /\ MinS(Range(lab)) \in {0, 1}
                   /\ \A k \in Rows(lab) : Count(lab, k) > 0

(* ---------------------------------------------------------------- the code's row -> label -> row mapping *)
Pos(lab) == IF ClassStart(lab) = 1 THEN -1 ELSE 0
PredLabel(lab, am) == IF LabelMap = "plus_pos" THEN am + Pos(lab) ELSE am + ClassStart(lab)
TableRow(lab, label) == IF LabelMap = "plus_pos" THEN label + Pos(lab) ELSE label - ClassStart(lab)

(* ---------------------------------------------------------------- exact priors and means *)
RECURSIVE SumIf(_, _, _, _, _)          \* sum of X[i][j] over i <= m with lab[i] = v
SumIf(lab, X, v, j, m) == IF m = 0 THEN 0
                          ELSE (IF lab[m] = v THEN X[m][j] ELSE 0) + SumIf(lab, X, v, j, m - 1)
RECURSIVE SumAll(_, _, _)
SumAll(X, j, m) == IF m = 0 THEN 0 ELSE X[m][j] + SumAll(X, j, m - 1)
SumX(lab, X, k, j) == SumIf(lab, X, LabelOf(lab, k), j, Len(lab))
(* rationals as <<numerator, denominator>>, denominator > 0, not normalised; equality by cross-multiplication *)
REq(a, b) == a[1] * b[2] = b[1] * a[2]
Prior(lab, k) == <<Count(lab, k), Len(lab)>>
Mu(lab, X, k, j) == <<SumX(lab, X, k, j), Count(lab, k)>>

(* ---------------------------------------------------------------- integer feature data emitted with each label vector *)
(* pattern 1: one feature; patterns 2, 3: two features *)
Feat(pat, i) ==
  IF pat = 1 THEN <<(i * i * i) % 11>>
  ELSE IF pat = 2 THEN <<(i * i) % 7, (3 * i) % 5>>
  ELSE <<((i * i * i) % 5) - 2, 4 - ((2 * i) % 7)>>
RECURSIVE SumProd(_, _, _, _)
SumProd(X, a, b, m) == IF m = 0 THEN 0 ELSE X[m][a] * X[m][b] + SumProd(X, a, b, m - 1)
RECURSIVE SumProdIf(_, _, _, _, _, _)
SumProdIf(lab, X, v, a, b, m) == IF m = 0 THEN 0
                                 ELSE (IF lab[m] = v THEN X[m][a] * X[m][b] ELSE 0) + SumProdIf(lab, X, v, a, b, m - 1)
Det2(M) == IF Len(M) = 1 THEN M[1][1] ELSE M[1][1] * M[2][2] - M[1][2] * M[2][1]
(* n^2 x the total covariance (what the pinned LDA() inverts) *)
Scat(X, a, b) == Len(X) * SumProd(X, a, b, Len(X)) - SumAll(X, a, Len(X)) * SumAll(X, b, Len(X))
TotalScatter(X) == [a \in 1..Len(X[1]) |-> [b \in 1..Len(X[1]) |-> Scat(X, a, b)]]
(* P x the pooled within-class scatter, P = product of the class counts (keeps everything integer) *)
CountProd(lab) == LET F[k \in 0..NClass(lab)] == IF k = 0 THEN 1 ELSE F[k - 1] * Count(lab, k - 1) IN F[NClass(lab)]
WScat(lab, X, a, b) ==
  LET P == CountProd(lab)
      F[k \in 0..NClass(lab)] ==
        IF k = 0 THEN 0
        ELSE F[k - 1] + P * SumProdIf(lab, X, LabelOf(lab, k - 1), a, b, Len(lab))
                      - (P \div Count(lab, k - 1)) * SumX(lab, X, k - 1, a) * SumX(lab, X, k - 1, b)
  IN F[NClass(lab)]
WithinScatter(lab, X) == [a \in 1..Len(X[1]) |-> [b \in 1..Len(X[1]) |-> WScat(lab, X, a, b)]]
(* the property's quantifier "non-singular pooled covariance": positive definite under both readings of "pooled" *)
NonSingular(lab, X) == Det2(TotalScatter(X)) > 0 /\ Det2(WithinScatter(lab, X)) > 0

(* ---------------------------------------------------------------- the exact discriminant for one or two features *)
Dim(X) == Len(X[1])
Zero(d) == [j \in 1..d |-> 0]
Adj(M) == IF Len(M) = 1 THEN << <<1>> >>
          ELSE << <<M[2][2], 0 - M[1][2]>>, <<0 - M[2][1], M[1][1]>> >>
Quad(u, A, v) == IF Len(u) = 1 THEN u[1] * A[1][1] * v[1]
                 ELSE u[1] * (A[1][1] * v[1] + A[1][2] * v[2]) + u[2] * (A[2][1] * v[1] + A[2][2] * v[2])
ClassSum(lab, X, k) == [j \in 1..Dim(X) |-> SumX(lab, X, k, j)]
(* everything a case needs to judge predictions, computed once: class sizes, class sums, adjugate and determinant of PW *)
Geometry(lab, X) == LET W == WithinScatter(lab, X)
                    IN [cnt |-> [k \in 1..NClass(lab) |-> Count(lab, k - 1)],
                        sum |-> [k \in 1..NClass(lab) |-> ClassSum(lab, X, k - 1)],
                        adj |-> Adj(W), det |-> Det2(W), np |-> Len(lab) * CountProd(lab)]
(* sign of f_k(x) - f_l(x) for rows k, l (0-based) of equal size; 0 = exact tie *)
SgnG(g, k, l, x) == LET sk == g.sum[k + 1]  sl == g.sum[l + 1]
                    IN 2 * g.cnt[k + 1] * Quad([j \in 1..Len(x) |-> sk[j] - sl[j]], g.adj, x)
                       - (Quad(sk, g.adj, sk) - Quad(sl, g.adj, sl))
Sgn(lab, X, k, l, x) == SgnG(Geometry(lab, X), k, l, x)
(* f_k - f_l = np * Sgn / (2 N^2 det): |f_k - f_l| >= |Sgn| / DQuot, DQuot = ceiling of 2 N^2 det / np *)
DQuot(g, k) == ((2 * g.cnt[k + 1] * g.cnt[k + 1] * g.det) \div g.np) + 1
(* row l BEATS row k at x by at least `margin` discriminant units (margin = 0: strictly) *)
BeatsG(g, l, k, x, margin) == /\ g.cnt[l + 1] = g.cnt[k + 1]
                              /\ SgnG(g, l, k, x) > 0
                              /\ (margin = 0 \/ SgnG(g, l, k, x) \div DQuot(g, k) >= margin)
(* rows that no equally large class beats: the prediction must be one of them (a necessary condition, any class sizes) *)
AdmRowsG(g, K, x, margin) == {k \in 0..(K - 1) : \A l \in 0..(K - 1) : l = k \/ ~BeatsG(g, l, k, x, margin)}
AdmRows(lab, X, x) == AdmRowsG(Geometry(lab, X), NClass(lab), x, 0)

(* ---------------------------------------------------------------- affine maps, permutations, renumbering (exact) *)
MapV(m, x) == IF Len(x) = 1 THEN <<m.A[1][1] * x[1] + m.b[1]>>
              ELSE <<m.A[1][1] * x[1] + m.A[1][2] * x[2] + m.b[1], m.A[2][1] * x[1] + m.A[2][2] * x[2] + m.b[2]>>
MapX(m, X) == [i \in 1..Len(X) |-> MapV(m, X[i])]
DetA(m) == Det2(m.A)
Maps1 == {[A |-> << <<a>> >>, b |-> <<s>>] : a \in {1, -1, 2, 3}, s \in {0, 7}}
Maps2 == {[A |-> M, b |-> s] : M \in { << <<1, 0>>, <<0, 1>> >>, << <<0, 1>>, <<1, 0>> >>, << <<1, 1>>, <<0, 1>> >>,
                                       << <<2, 0>>, <<0, 2>> >>, << <<1, 0>>, <<0, -1>> >>, << <<2, 1>>, <<1, 1>> >> },
                                s \in { <<0, 0>>, <<3, -5>> }}
(* level 1: every matrix once, shifted or not in turn *)
Maps1L == {m \in Maps1 : (m.b[1] = 0) = (m.A[1][1] > 1)}
Maps2L == {m \in Maps2 : (m.b[1] = 0) = (m.A[1][2] = 1 /\ m.A[2][1] = 0)}
Maps(d) == IF d = 1 THEN (IF MapLevel = 1 THEN Maps1L ELSE Maps1) ELSE (IF MapLevel = 1 THEN Maps2L ELSE Maps2)
Reverse(s) == [i \in 1..Len(s) |-> s[Len(s) + 1 - i]]
Rotate(s) == [i \in 1..Len(s) |-> s[(i % Len(s)) + 1]]
Relabel(lab, delta) == [i \in 1..Len(lab) |-> lab[i] + delta]

(* ---------------------------------------------------------------- recodings the replay may apply (K3, K4, K5) *)
(* real value = (integer + off[j]) * mul / den ; TLC keeps judging on the integers: justified by AffineSgn / MeanEquivariant *)
Recodes == << [off |-> 0, mul |-> 1, den |-> 1],                       \* identity
              [off |-> 1000, mul |-> 1, den |-> 1],                    \* K3 offsets: |mean| / spread ~ 1e3 .. 1e6
              [off |-> 100000, mul |-> 1, den |-> 1],
              [off |-> 1000000, mul |-> 1, den |-> 1],
              [off |-> 0, mul |-> 1024, den |-> 1],                    \* K4 units 2^10, 2^20, 2^-10, 2^-20
              [off |-> 0, mul |-> 1048576, den |-> 1],
              [off |-> 0, mul |-> 1, den |-> 1024],
              [off |-> 0, mul |-> 1, den |-> 1048576],
              [off |-> 0, mul |-> 1, den |-> 10],                      \* K5 non-representable grids 1/10, 1/3
              [off |-> 0, mul |-> 1, den |-> 3],
              [off |-> 100000, mul |-> 1, den |-> 1024],               \* K3 x K4
              [off |-> 1000, mul |-> 1, den |-> 10] >>
RecodeSet == Range(Recodes)
(* discriminant margin below which a recoded (floating-point) run may legitimately order two classes differently: none for *)
(* the identity and the exact sub-unit grids, one unit as soon as offsets (cancellation ~ eps d off^2) or the pseudo-inverse *)
(* branch of LDA() (units >= 2^10) are involved                                                                     *)
RecodeMargin(rc) == IF rc.off = 0 /\ rc.mul = 1 THEN 0 ELSE 1
(* the j-th feature gets offset off, -2 off, ... alternating sign so that the offsets are not collinear with (1,..,1) *)
OffsetOf(rc, j) == IF j = 1 THEN rc.off ELSE 0 - 2 * rc.off

(* ---------------------------------------------------------------- mirror-symmetric data: exact ties (K8) *)
MemberSeq(lab, k) == LET S == Members(lab, k)
                         F[m \in 0..Cardinality(S)] ==
                           IF m = 0 THEN <<>> ELSE Append(F[m - 1], MinS(S \ Range(F[m - 1])))
                     IN F[Cardinality(S)]
IsMirror(lab, X) == /\ NClass(lab) >= 2 /\ Count(lab, 0) = Count(lab, 1)
                    /\ \A r \in 1..Count(lab, 0) : \A j \in 1..Dim(X) :
                         X[MemberSeq(lab, 1)[r]][j] = 0 - X[MemberSeq(lab, 0)[r]][j]
MirrorX(m, K, ord, pat, start) ==
  LET n == m * K
      cls(i) == IF ord = "blocks" THEN (i - 1) \div m ELSE IF ord = "desc" THEN K - 1 - ((i - 1) \div m) ELSE (i - 1) % K
      rnk(i) == IF ord = "inter" THEN ((i - 1) \div K) + 1 ELSE ((i - 1) % m) + 1
      pt(r) == Feat(pat, r + 1)
      d == Len(pt(1))
  IN [lab |-> [i \in 1..n |-> cls(i) + start],
      X |-> [i \in 1..n |-> [j \in 1..d |-> IF cls(i) = 0 THEN pt(rnk(i))[j]
                                            ELSE IF cls(i) = 1 THEN 0 - pt(rnk(i))[j] ELSE pt(rnk(i))[j] + 9]]]

VARIABLES lab, X
vars == <<lab, X>>
Surj(f, S) == \A v \in S : \E i \in DOMAIN f : f[i] = v
InitPat == \E n \in 2..MaxN, start \in {0, 1}, K \in 2..MaxK, pat \in 1..NPat :
             /\ lab \in [1..n -> start..(start + K - 1)]
             /\ Surj(lab, start..(start + K - 1))
             /\ X = [i \in 1..n |-> Feat(pat, i)]
             /\ NonSingular(lab, X)               \* cases outside the quantifier are not generated
InitMirror == \E K \in 2..MaxK, m \in 2..(MaxN \div 2), start \in {0, 1}, ord \in {"blocks", "desc", "inter"}, pat \in 1..3 :
                /\ m * K <= MaxN
                /\ lab = MirrorX(m, K, ord, pat, start).lab
                /\ X = MirrorX(m, K, ord, pat, start).X
                /\ NonSingular(lab, X)
Init == InitPat \/ InitMirror
Next == UNCHANGED vars
Spec == Init /\ [][Next]_vars

(* ---------------------------------------------------------------- invariants *)
(* the generator stays inside the property's quantifier *)
InQuantifier == WellFormed(lab) /\ NonSingular(lab, X)
(* rows and labels are in bijection *)
RowLabelBijection == /\ \A k \in Rows(lab) : RowOf(lab, LabelOf(lab, k)) = k /\ LabelOf(lab, k) \in Range(lab)
                     /\ \A v \in Range(lab) : LabelOf(lab, RowOf(lab, v)) = v /\ RowOf(lab, v) \in Rows(lab)
(* C08: whatever row wins, the predicted label is a training label that stands for that row, and the feature *)
(* tables are read at that row.  Fails for "plus_pos" on every 1-based label vector.                      *)
PredictionIsALabel == \A am \in Rows(lab) : /\ PredLabel(lab, am) \in Range(lab)
                                            /\ PredLabel(lab, am) = LabelOf(lab, am)
TableIndexInRange == \A am \in Rows(lab) : /\ TableRow(lab, PredLabel(lab, am)) \in Rows(lab)
                                           /\ TableRow(lab, PredLabel(lab, am)) = am
(* the pinned tree's mapping breaks for EVERY 1-based label vector (row 0 maps to a label that is not a training label, rows 0 *)
(* and 1 read the feature tables at a negative row) and is right for every 0-based one                                    *)
PlusPosBreaksEvery1Based == (LabelMap = "plus_pos" /\ ClassStart(lab) = 1) =>
                               /\ PredLabel(lab, 0) \notin Range(lab)
                               /\ \A am \in Rows(lab) : am < 2 => TableRow(lab, PredLabel(lab, am)) < 0
                               /\ \A am \in Rows(lab) : PredLabel(lab, am) # LabelOf(lab, am)
PlusPosRightFor0Based == (LabelMap = "plus_pos" /\ ClassStart(lab) = 0) =>
                            \A am \in Rows(lab) : PredLabel(lab, am) = LabelOf(lab, am) /\ TableRow(lab, PredLabel(lab, am)) = am
(* priors sum to one, the prior-weighted class means give the grand mean *)
PriorsSumToOne == LET F[k \in 0..NClass(lab)] == IF k = 0 THEN 0 ELSE F[k - 1] + Count(lab, k - 1)
                  IN F[NClass(lab)] = Len(lab)
MeansGiveGrandMean == \A j \in 1..Len(X[1]) :
                        LET F[k \in 0..NClass(lab)] == IF k = 0 THEN 0 ELSE F[k - 1] + SumX(lab, X, k - 1, j)
                        IN F[NClass(lab)] = SumAll(X, j, Len(X))

(* ---------------------------------------------------------------- theorems about the exact discriminant (round 3) *)
(* test points of a case: its training objects, the origin, and first + last training object *)
ExtraTests(l, Y) == << Zero(Dim(Y)), [j \in 1..Dim(Y) |-> Y[1][j] + Y[Len(Y)][j]] >>
TestPoints(l, Y) == Range(Y) \cup Range(ExtraTests(l, Y))
EqualPairs(l) == {p \in Rows(l) \X Rows(l) : p[1] # p[2] /\ Count(l, p[1]) = Count(l, p[2])}
(* f_k - f_l = -(f_l - f_k); differences add up along chains of equally large classes (they are differences of ONE score) *)
SgnAntisymmetricG(g) == \A p \in EqualPairs(lab), x \in TestPoints(lab, X) : SgnG(g, p[1], p[2], x) = 0 - SgnG(g, p[2], p[1], x)
SgnAdditiveG(g) == \A p \in EqualPairs(lab), m \in Rows(lab), x \in TestPoints(lab, X) :
                     (m # p[1] /\ m # p[2] /\ Count(lab, m) = Count(lab, p[1])) =>
                       SgnG(g, p[1], p[2], x) + SgnG(g, p[2], m, x) = SgnG(g, p[1], m, x)
(* hence some row is never beaten: a prediction satisfying the statement always exists *)
AdmissibleExistsG(g) == \A x \in TestPoints(lab, X) : AdmRowsG(g, NClass(lab), x, 0) # {}
(* K8: mirror-symmetric classes tie exactly at the centre of symmetry: rows 0 and 1 are admissible together or not at all *)
MirrorTieG(g) == IsMirror(lab, X) => /\ SgnG(g, 0, 1, Zero(Dim(X))) = 0
                                     /\ {0, 1} \cap AdmRowsG(g, NClass(lab), Zero(Dim(X)), 0) \in {{0, 1}, {}}
(* one invariant, one evaluation of the geometry per state *)
DiscTheorems == LET g == Geometry(lab, X) IN
                /\ g.det > 0 /\ g.np > 0
                /\ SgnAntisymmetricG(g) /\ SgnAdditiveG(g) /\ AdmissibleExistsG(g) /\ MirrorTieG(g)
(* C08, affine clause, in exact arithmetic: x -> Ax + b on training and test data multiplies every score difference's integer *)
(* numerator AND the determinant of PW by det(A)^2 > 0: the differences themselves, hence the admissible rows, are unchanged  *)
AffineSgn == LET g == Geometry(lab, X)   K == NClass(lab)   pts == TestPoints(lab, X)   eq == EqualPairs(lab) IN
             \A m \in Maps(Dim(X)) :
               LET g2 == Geometry(lab, MapX(m, X))   c == DetA(m) * DetA(m) IN
               /\ c > 0 /\ g2.det = c * g.det
               /\ \A x \in pts :
                    /\ \A p \in eq : SgnG(g2, p[1], p[2], MapV(m, x)) = c * SgnG(g, p[1], p[2], x)
                    /\ AdmRowsG(g2, K, MapV(m, x), 0) = AdmRowsG(g, K, x, 0)
(* priors do not see the features; class means are mapped like the objects: Mu' = A Mu + b *)
MeanEquivariant == \A m \in Maps(Dim(X)), k \in Rows(lab) :
                     LET cs == ClassSum(lab, X, k)   n == Count(lab, k)
                         img == MapV([A |-> m.A, b |-> [j \in 1..Dim(X) |-> n * m.b[j]]], cs)      \* A s_k + n b
                     IN \A j \in 1..Dim(X) : SumX(lab, MapX(m, X), k, j) = img[j]
(* C08, reordering clause: reversing or rotating the training objects changes neither priors, means nor any score difference *)
PermSgn == LET g == Geometry(lab, X)   K == NClass(lab) IN
           \A f \in {"rev", "rot"} :
             LET l2 == IF f = "rev" THEN Reverse(lab) ELSE Rotate(lab)
                 X2 == IF f = "rev" THEN Reverse(X) ELSE Rotate(X)
                 g2 == Geometry(l2, X2)
             IN /\ g2 = g
                /\ \A k \in Rows(lab) : /\ REq(Prior(l2, k), Prior(lab, k))
                                        /\ \A j \in 1..Dim(X) : REq(Mu(l2, X2, k, j), Mu(lab, X, k, j))
                /\ \A x \in TestPoints(lab, X) : AdmRowsG(g2, K, x, 0) = AdmRowsG(g, K, x, 0)
(* C08, "numbered from 0 or from 1": renumbering moves the labels, not the rows *)
StartSgn == LET delta == IF ClassStart(lab) = 0 THEN 1 ELSE -1
                l2 == Relabel(lab, delta)
            IN /\ ClassStart(l2) = 1 - ClassStart(lab) /\ NClass(l2) = NClass(lab)
               /\ Geometry(l2, X) = Geometry(lab, X)
               /\ \A k \in Rows(lab) : LabelOf(l2, k) = LabelOf(lab, k) + delta

(* ---------------------------------------------------------------- confusion counts (LDAError) and one-vs-rest indicators *)
(* truth, pred: sequences of labels of equal length; row k stands for label k + start *)
CountIf(P(_), n) == Cardinality({i \in 1..n : P(i)})
Confusion(truth, pred, start, k) ==
  LET v == k + start   n == Len(truth)
  IN [tp |-> CountIf(LAMBDA i : truth[i] = v /\ pred[i] = v, n),
      fn |-> CountIf(LAMBDA i : truth[i] = v /\ pred[i] # v, n),
      fp |-> CountIf(LAMBDA i : truth[i] # v /\ pred[i] = v, n),
      tn |-> CountIf(LAMBDA i : truth[i] # v /\ pred[i] # v, n)]
Ratio(a, b) == IF b = 0 THEN <<0, 1>> ELSE <<a, b>>           \* the library's convention: 0 when the denominator vanishes
Sens(c) == Ratio(c.tp, c.tp + c.fn)
Specif(c) == Ratio(c.tn, c.tn + c.fp)
Ppv(c) == Ratio(c.tp, c.tp + c.fp)
Npv(c) == Ratio(c.tn, c.fn + c.tn)
Acc(c) == Ratio(c.tp + c.tn, c.tp + c.tn + c.fp + c.fn)
(* every object falls in exactly one cell per class; perfect predictions have no false cells *)
ConfusionPartition(truth, pred, start, K) ==
  \A k \in 0..(K - 1) : LET c == Confusion(truth, pred, start, k) IN c.tp + c.fn + c.fp + c.tn = Len(truth)
ConfusionModel == /\ ConfusionPartition(lab, lab, ClassStart(lab), NClass(lab))
                  /\ ConfusionPartition(lab, Reverse(lab), ClassStart(lab), NClass(lab))
                  /\ \A k \in Rows(lab) : LET c == Confusion(lab, lab, ClassStart(lab), k)
                                          IN c.fn = 0 /\ c.fp = 0 /\ c.tp = Count(lab, k) /\ REq(Sens(c), <<1, 1>>) /\ REq(Acc(c), <<1, 1>>)
                  /\ \A k \in Rows(lab) : LET c == Confusion(lab, Reverse(lab), ClassStart(lab), k)
                                          IN c.tp + c.fn = Count(lab, k) /\ c.tp + c.fp = Count(lab, k)

(* ---------------------------------------------------------------- GEN: one replay case per state *)
Balanced(l) == \A a, b \in Rows(l) : Count(l, a) = Count(l, b)
(* the recoding assigned to a case: a function of the state, so that the assignment is TLC's and spreads over all recodings *)
RecodeIndex(l, Y) == LET F[i \in 0..Len(l)] == IF i = 0 THEN Len(l) ELSE F[i - 1] + i * l[i] + Y[i][1] * Y[i][1]
                     IN (F[Len(l)] % (Len(Recodes) - 1)) + 2
Emit == PrintT("@@" \o ToJson([lab |-> lab, X |-> X, T |-> ExtraTests(lab, X), start |-> ClassStart(lab), K |-> NClass(lab),
                              balanced |-> IF Balanced(lab) THEN 1 ELSE 0,
                              mirror |-> IF IsMirror(lab, X) THEN 1 ELSE 0,
                              rc |-> Recodes[RecodeIndex(lab, X)],
                              prior |-> [k \in 1..NClass(lab) |-> Prior(lab, k - 1)],
                              mu |-> [k \in 1..NClass(lab) |-> [j \in 1..Len(X[1]) |-> Mu(lab, X, k - 1, j)]]]))
====
