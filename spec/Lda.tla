---- MODULE Lda ----
(* C08.  Linear discriminant analysis (src/lda.c): what is discrete or exact-rational about it.             *)
(*                                                                                                        *)
(* Mode 1 - label bookkeeping (lda.c:124-144, 489-494, 520, 533).  Labels are small integers whose least  *)
(*   value is 0 or 1.  The model keeps one row per class in mu / pprob / fmean / fsdev; row k stands for   *)
(*   label k + class_start.  LDAPrediction turns the arg-max ROW into a LABEL and later turns that label  *)
(*   back into a row to index the feature tables.  Constant LabelMap says how:                            *)
(*     "plus_pos"   : label = argmax + pos, table row = label + pos, pos = -1 for 1-based labels          *)
(*                    (what the pinned tree does)                                                         *)
(*     "plus_start" : label = argmax + class_start, table row = label - class_start                       *)
(*   Which variant the code implements is never assumed; it is inferred from the conformance step.        *)
(* Mode 2 - priors and class means are exact rationals of the labels and of integer feature data:         *)
(*   Prior[k] = count_k / n,  Mu[k][j] = (sum of feature j over the members of class k) / count_k.        *)
(* The discriminant itself (inverse covariance, logarithm) is floating point and is handled as a ledger   *)
(* by TraceLda.tla.                                                                                       *)
EXTENDS Integers, Sequences, FiniteSets, TLC, Json
CONSTANTS MaxN,        \* label vectors of length 2..MaxN
          MaxK,        \* 2..MaxK classes
          NPat,        \* number of integer feature patterns emitted per label vector
          LabelMap     \* "plus_pos" | "plus_start"

Range(f) == {f[i] : i \in DOMAIN f}
MinS(S) == CHOOSE m \in S : \A v \in S : m <= v
MaxS(S) == CHOOSE m \in S : \A v \in S : m >= v

(* ---------------------------------------------------------------- label bookkeeping (what LDA() stores) *)
ClassStart(lab) == IF MinS(Range(lab)) = 0 THEN 0 ELSE 1
NClass(lab) == IF ClassStart(lab) = 0 THEN MaxS(Range(lab)) + 1 ELSE MaxS(Range(lab))
Rows(lab) == 0..(NClass(lab) - 1)
RowOf(lab, label) == label - ClassStart(lab)
LabelOf(lab, row) == row + ClassStart(lab)
Members(lab, k) == {i \in DOMAIN lab : lab[i] = LabelOf(lab, k)}
Count(lab, k) == Cardinality(Members(lab, k))
(* the property's quantifier: numbering starts at 0 or 1 and every class in between occurs *)
WellFormed(lab) == /\ MinS(Range(lab)) \in {0, 1}
                   /\ \A k \in Rows(lab) : Count(lab, k) > 0

(* ---------------------------------------------------------------- the code's row -> label -> row mapping *)
Pos(lab) == IF ClassStart(lab) = 1 THEN -1 ELSE 0
PredLabel(lab, am) == IF LabelMap = "plus_pos" THEN am + Pos(lab) ELSE am + ClassStart(lab)
TableRow(lab, label) == IF LabelMap = "plus_pos" THEN label + Pos(lab) ELSE label - ClassStart(lab)

(* ---------------------------------------------------------------- exact priors and means *)
RECURSIVE SumIf(_, _, _, _, _)          \* sum of X[i][j] over i <= m with lab[i] = v
SumIf(lab, X, v, j, m) == IF m = 0 THEN 0
                          ELSE (IF lab[m] = v THEN X[m][j] ELSE 0) + SumIf(lab, X, v, j, m - 1)
RECURSIVE SumAll(_, _, _)
SumAll(X, j, m) == IF m = 0 THEN 0 ELSE X[m][j] + SumAll(X, j, m - 1)
SumX(lab, X, k, j) == SumIf(lab, X, LabelOf(lab, k), j, Len(lab))
(* rationals as <<numerator, denominator>>, denominator > 0, not normalised; equality by cross-multiplication *)
REq(a, b) == a[1] * b[2] = b[1] * a[2]
Prior(lab, k) == <<Count(lab, k), Len(lab)>>
Mu(lab, X, k, j) == <<SumX(lab, X, k, j), Count(lab, k)>>

(* ---------------------------------------------------------------- integer feature data emitted with each label vector *)
(* pattern 1: one feature; patterns 2, 3: two features *)
Feat(pat, i) ==
  IF pat = 1 THEN <<(i * i * i) % 11>>
  ELSE IF pat = 2 THEN <<(i * i) % 7, (3 * i) % 5>>
  ELSE <<((i * i * i) % 5) - 2, 4 - ((2 * i) % 7)>>
RECURSIVE SumProd(_, _, _, _)
SumProd(X, a, b, m) == IF m = 0 THEN 0 ELSE X[m][a] * X[m][b] + SumProd(X, a, b, m - 1)
RECURSIVE SumProdIf(_, _, _, _, _, _)
SumProdIf(lab, X, v, a, b, m) == IF m = 0 THEN 0
                                 ELSE (IF lab[m] = v THEN X[m][a] * X[m][b] ELSE 0) + SumProdIf(lab, X, v, a, b, m - 1)
Det2(M) == IF Len(M) = 1 THEN M[1][1] ELSE M[1][1] * M[2][2] - M[1][2] * M[2][1]
(* n^2 x the total covariance (what the pinned LDA() inverts) *)
Scat(X, a, b) == Len(X) * SumProd(X, a, b, Len(X)) - SumAll(X, a, Len(X)) * SumAll(X, b, Len(X))
TotalScatter(X) == [a \in 1..Len(X[1]) |-> [b \in 1..Len(X[1]) |-> Scat(X, a, b)]]
(* P x the pooled within-class scatter, P = product of the class counts (keeps everything integer) *)
CountProd(lab) == LET F[k \in 0..NClass(lab)] == IF k = 0 THEN 1 ELSE F[k - 1] * Count(lab, k - 1) IN F[NClass(lab)]
WScat(lab, X, a, b) ==
  LET P == CountProd(lab)
      F[k \in 0..NClass(lab)] ==
        IF k = 0 THEN 0
        ELSE F[k - 1] + P * SumProdIf(lab, X, LabelOf(lab, k - 1), a, b, Len(lab))
                      - (P \div Count(lab, k - 1)) * SumX(lab, X, k - 1, a) * SumX(lab, X, k - 1, b)
  IN F[NClass(lab)]
WithinScatter(lab, X) == [a \in 1..Len(X[1]) |-> [b \in 1..Len(X[1]) |-> WScat(lab, X, a, b)]]
(* the property's quantifier "non-singular pooled covariance": positive definite under both readings of "pooled" *)
NonSingular(lab, X) == Det2(TotalScatter(X)) > 0 /\ Det2(WithinScatter(lab, X)) > 0

VARIABLES lab, X
vars == <<lab, X>>
Surj(f, S) == \A v \in S : \E i \in DOMAIN f : f[i] = v
Init == \E n \in 2..MaxN, start \in {0, 1}, K \in 2..MaxK, pat \in 1..NPat :
          /\ lab \in [1..n -> start..(start + K - 1)]
          /\ Surj(lab, start..(start + K - 1))
          /\ X = [i \in 1..n |-> Feat(pat, i)]
          /\ NonSingular(lab, X)               \* cases outside the quantifier are not generated
Next == UNCHANGED vars
Spec == Init /\ [][Next]_vars

(* ---------------------------------------------------------------- invariants *)
(* the generator stays inside the property's quantifier *)
InQuantifier == WellFormed(lab) /\ NonSingular(lab, X)
(* rows and labels are in bijection *)
RowLabelBijection == /\ \A k \in Rows(lab) : RowOf(lab, LabelOf(lab, k)) = k /\ LabelOf(lab, k) \in Range(lab)
                     /\ \A v \in Range(lab) : LabelOf(lab, RowOf(lab, v)) = v /\ RowOf(lab, v) \in Rows(lab)
(* C08: whatever row wins, the predicted label is a training label that stands for that row, and the feature *)
(* tables are read at that row.  Fails for "plus_pos" on every 1-based label vector.                      *)
PredictionIsALabel == \A am \in Rows(lab) : /\ PredLabel(lab, am) \in Range(lab)
                                            /\ PredLabel(lab, am) = LabelOf(lab, am)
TableIndexInRange == \A am \in Rows(lab) : /\ TableRow(lab, PredLabel(lab, am)) \in Rows(lab)
                                           /\ TableRow(lab, PredLabel(lab, am)) = am
(* the pinned tree's mapping breaks for EVERY 1-based label vector (row 0 maps to a label that is not a training label, rows 0 *)
(* and 1 read the feature tables at a negative row) and is right for every 0-based one                                    *)
PlusPosBreaksEvery1Based == (LabelMap = "plus_pos" /\ ClassStart(lab) = 1) =>
                               /\ PredLabel(lab, 0) \notin Range(lab)
                               /\ \A am \in Rows(lab) : am < 2 => TableRow(lab, PredLabel(lab, am)) < 0
                               /\ \A am \in Rows(lab) : PredLabel(lab, am) # LabelOf(lab, am)
PlusPosRightFor0Based == (LabelMap = "plus_pos" /\ ClassStart(lab) = 0) =>
                            \A am \in Rows(lab) : PredLabel(lab, am) = LabelOf(lab, am) /\ TableRow(lab, PredLabel(lab, am)) = am
(* priors sum to one, the prior-weighted class means give the grand mean *)
PriorsSumToOne == LET F[k \in 0..NClass(lab)] == IF k = 0 THEN 0 ELSE F[k - 1] + Count(lab, k - 1)
                  IN F[NClass(lab)] = Len(lab)
MeansGiveGrandMean == \A j \in 1..Len(X[1]) :
                        LET F[k \in 0..NClass(lab)] == IF k = 0 THEN 0 ELSE F[k - 1] + SumX(lab, X, k - 1, j)
                        IN F[NClass(lab)] = SumAll(X, j, Len(X))

(* ---------------------------------------------------------------- GEN: one replay case per state *)
Balanced(l) == \A a, b \in Rows(l) : Count(l, a) = Count(l, b)
Emit == PrintT("@@" \o ToJson([lab |-> lab, X |-> X, start |-> ClassStart(lab), K |-> NClass(lab),
                              balanced |-> IF Balanced(lab) THEN 1 ELSE 0,
                              prior |-> [k \in 1..NClass(lab) |-> Prior(lab, k - 1)],
                              mu |-> [k \in 1..NClass(lab) |-> [j \in 1..Len(X[1]) |-> Mu(lab, X, k - 1, j)]]]))
====
