SPECIFICATION Spec
CONSTANTS
  NW = 3
  K = 10
  PerThread = TRUE
  Shape = "reseed"
CONSTRAINT Emit
CHECK_DEADLOCK FALSE
