---- MODULE TraceNMProp ----
(* C19.  FLAT property specification of the Nelder-Mead result contract, used (a) for the PropOnly            *)
(* re-validation of a callback trace the move automaton TraceNM.tla rejected and (b) for the summary-only      *)
(* ("light") runs.  What the property states and nothing else:                                               *)
(*   - the reported value is not worse than the best vertex of the initial simplex (first n+1 evaluations),    *)
(*   - the reported value is the objective at the returned point (re-evaluated by the harness),                *)
(*   - the number of objective evaluations is within the cap implied by the iteration limit,                   *)
(*   - on strictly convex quadratics the returned point is within MinTol of the true minimiser.                *)
EXTENDS Integers, Sequences, TraceBase
CONSTANT MinTol
Lt(a, b) == \/ a[1] < b[1] \/ (a[1] = b[1] /\ a[2] < b[2]) \/ (a[1] = b[1] /\ a[2] = b[2] /\ a[3] < b[3])
Le(a, b) == Lt(a, b) \/ a = b
VARIABLES l, n, cap, full, cnt, best0, ret, pc
vars == <<l, n, cap, full, cnt, best0, ret, pc>>
Zero == <<0,0,0>>
Ev == Tr[l]
V == <<Ev.v[1], Ev.v[2], Ev.v[3]>>
Step == l' = l + 1
IsEv(name) == l <= Len(Tr) /\ Ev.e = name
Init == l = 1 /\ n = 0 /\ cap = 0 /\ full = 0 /\ cnt = 0 /\ best0 = Zero /\ ret = Zero /\ pc = "idle"
\* start classes (Reset.sc): 0 generic, 2 / 3 all n+1 initial values EQUAL (separable / non-separable quadratic), 4 equal to 1e-12,
\* 5 start at the minimiser, 6 start 1e3 away, 7 step decade 1e-3..1e3, 9 the previous minimisation once more, 10 a start of the
\* integer family TLC enumerated from NMTie.tla (2 dimensions; exact arithmetic in the model and in the code).  fs = spread of the
\* objective over the initial simplex in 1e-15 units (saturating).  The contract below is the same for every class.
TReset == /\ IsEv("Reset") /\ pc = "idle" /\ Step /\ n' = Ev.n /\ cap' = Ev.cap /\ full' = Ev.full /\ cnt' = 0 /\ pc' = "run"
          /\ Ev.n \in 2..6
          /\ (Ev.sc \in {2, 3} => Ev.fs = 0) /\ (Ev.sc = 4 => Ev.fs <= 1000)
          /\ (Ev.sc = 10 => ((Ev.mflat = 1) <=> (Ev.fs = 0)))      \* family of NMTie.tla: the model and the real objective agree on which starts are flat
          /\ UNCHANGED <<best0, ret>>
TEval == /\ IsEv("Eval") /\ pc = "run" /\ full = 1 /\ Step /\ cnt' = cnt + 1
         /\ best0' = IF cnt = 0 THEN V ELSE IF cnt < n + 1 /\ Lt(V, best0) THEN V ELSE best0
         /\ UNCHANGED <<n, cap, full, ret, pc>>
TInitBest == /\ IsEv("InitBest") /\ pc = "run" /\ full = 0 /\ cnt = 0 /\ Step /\ best0' = V
             /\ UNCHANGED <<n, cap, full, cnt, ret, pc>>
TReturn == /\ IsEv("Return") /\ pc = "run" /\ Step
           /\ (full = 1 => Ev.evals = cnt)
           /\ Ev.evals >= n + 1 /\ Ev.evals <= cap            \* terminated within the iteration cap
           /\ Le(V, best0)                                    \* never worse than the best initial vertex
           /\ ret' = V /\ pc' = "returned" /\ UNCHANGED <<n, cap, full, cnt, best0>>
TCheck == /\ IsEv("Check") /\ pc = "returned" /\ Step /\ V = ret /\ pc' = "checked"
          /\ UNCHANGED <<n, cap, full, cnt, best0, ret>>
\* offset class: the minimum VALUE is large in magnitude and the tolerance coarser.  The documented stop test is absolute (spread of
\* the vertex values < xtol), and f cannot be resolved below ~ 1e-15 |f*|: with R = max(log10 xtol, log10 |f*| - 15) and smallest
\* eigenvalue 1, a run that STOPPED ON ITS TOLERANCE (conv = 1) returns a point within 30 sqrt(10^R) of the minimiser
\* (absolute, 1e-9 units: 3 * 10^(10 + R/2); calibrated on 2,700 runs of the unchanged tree: worst 0.094 of this bound).
AbsBound(R) == CASE R <= -12 -> 30000 [] R = -11 -> 94868 [] R = -10 -> 300000 [] R = -9 -> 948683 [] R = -8 -> 3000000
                 [] R = -7 -> 9486833 [] OTHER -> 30000000
TQuad == /\ IsEv("Quad") /\ pc = "checked" /\ Step /\ pc' = "idle"
         /\ ((Ev.judge = 1 /\ Ev.cls = 0) => Ev.dist <= MinTol)
         /\ ((Ev.judge = 1 /\ Ev.cls = 1) => Ev.dist <= MinTol)
         /\ ((Ev.judge = 1 /\ Ev.cls = 1 /\ Ev.conv = 1) => Ev.adist <= AbsBound(Ev.R))
         /\ UNCHANGED <<n, cap, full, cnt, best0, ret>>
Next == TReset \/ TEval \/ TInitBest \/ TReturn \/ TCheck \/ TQuad
Spec == Init /\ [][Next]_vars
TraceAccepted == Accepted
Diag == ShowCursor(l)
====
