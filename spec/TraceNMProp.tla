---- MODULE TraceNMProp ----
(* C19.  FLAT property specification of the Nelder-Mead result contract, used (a) for the PropOnly            *)
(* re-validation of a callback trace the move automaton TraceNM.tla rejected and (b) for the summary-only      *)
(* ("light") runs.  What the property states and nothing else:                                               *)
(*   - the reported value is not worse than the best vertex of the initial simplex (first n+1 evaluations),    *)
(*   - the reported value is the objective at the returned point (re-evaluated by the harness),                *)
(*   - the number of objective evaluations is within the cap implied by the iteration limit,                   *)
(*   - on strictly convex quadratics the returned point is within MinTol of the true minimiser.                *)
EXTENDS Integers, Sequences, TraceBase
CONSTANT MinTol
Lt(a, b) == \/ a[1] < b[1] \/ (a[1] = b[1] /\ a[2] < b[2]) \/ (a[1] = b[1] /\ a[2] = b[2] /\ a[3] < b[3])
Le(a, b) == Lt(a, b) \/ a = b
VARIABLES l, n, cap, full, cnt, best0, ret, pc
vars == <<l, n, cap, full, cnt, best0, ret, pc>>
Zero == <<0,0,0>>
Ev == Tr[l]
V == <<Ev.v[1], Ev.v[2], Ev.v[3]>>
Step == l' = l + 1
IsEv(name) == l <= Len(Tr) /\ Ev.e = name
Init == l = 1 /\ n = 0 /\ cap = 0 /\ full = 0 /\ cnt = 0 /\ best0 = Zero /\ ret = Zero /\ pc = "idle"
TReset == /\ IsEv("Reset") /\ pc = "idle" /\ Step /\ n' = Ev.n /\ cap' = Ev.cap /\ full' = Ev.full /\ cnt' = 0 /\ pc' = "run"
          /\ UNCHANGED <<best0, ret>>
TEval == /\ IsEv("Eval") /\ pc = "run" /\ full = 1 /\ Step /\ cnt' = cnt + 1
         /\ best0' = IF cnt = 0 THEN V ELSE IF cnt < n + 1 /\ Lt(V, best0) THEN V ELSE best0
         /\ UNCHANGED <<n, cap, full, ret, pc>>
TInitBest == /\ IsEv("InitBest") /\ pc = "run" /\ full = 0 /\ cnt = 0 /\ Step /\ best0' = V
             /\ UNCHANGED <<n, cap, full, cnt, ret, pc>>
TReturn == /\ IsEv("Return") /\ pc = "run" /\ Step
           /\ (full = 1 => Ev.evals = cnt)
           /\ Ev.evals >= n + 1 /\ Ev.evals <= cap            \* terminated within the iteration cap
           /\ Le(V, best0)                                    \* never worse than the best initial vertex
           /\ ret' = V /\ pc' = "returned" /\ UNCHANGED <<n, cap, full, cnt, best0>>
TCheck == /\ IsEv("Check") /\ pc = "returned" /\ Step /\ V = ret /\ pc' = "checked"
          /\ UNCHANGED <<n, cap, full, cnt, best0, ret>>
TQuad == /\ IsEv("Quad") /\ pc = "checked" /\ Step /\ (Ev.judge = 1 => Ev.dist <= MinTol) /\ pc' = "idle"
         /\ UNCHANGED <<n, cap, full, cnt, best0, ret>>
Next == TReset \/ TEval \/ TInitBest \/ TReturn \/ TCheck \/ TQuad
Spec == Init /\ [][Next]_vars
TraceAccepted == Accepted
Diag == ShowCursor(l)
====
