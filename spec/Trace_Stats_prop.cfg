SPECIFICATION TSpec
CONSTANTS
  FamSet = {"Roc"}
  MaxN = 2
  MaxNMiss = 0
  RegN = 1
  RegEmitN = 1
  MaxNy = 1
  MaxNlv = 1
  DoEmit = FALSE
  Tol = 1
  PairsMaxN = 60
  Impl = FALSE
CONSTRAINT Diag
POSTCONDITION TraceAccepted
CHECK_DEADLOCK FALSE
