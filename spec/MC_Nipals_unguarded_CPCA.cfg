SPECIFICATION FairSpec
CONSTANTS
  MaxRank = 3
  MaxNpc = 5
  MaxIter = 3
  Guarded = FALSE
  Sites = {"CPCA"}
PROPERTY Terminates
CHECK_DEADLOCK FALSE
