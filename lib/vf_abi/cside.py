"""C side of the ABI facts: clang's JSON AST of the library headers + the compiler's own offsetof/sizeof.

Everything is re-derived from the tree given by `repo` (build.REPO) on every call; nothing is cached.
Kinds are flat records (dicts) shared with the python side and with spec/Abi.tla:
    k  in {"int","float","void","struct","fnptr"}   base kind
    d  pointer depth (0 = by value)                  Ptr(d, base)
    w  width in bits for int/float, else 0
    sg signedness class for int: "s" signed, "u" unsigned, "c" plain char, "e" enum (compiler-chosen); else "-"
    n  struct name (canonical C name = typedef name, else tag) for k = "struct", else ""
    a  number of array elements for an array member (0 = not an array)
"""
import json, os, re, subprocess


class AbiError(Exception):
    """extraction failure (tooling, unsupported construct) - infrastructure, never a verdict"""


def kind(k, d=0, w=0, sg="-", n="", a=0):
    return dict(k=k, d=d, w=w, sg=sg, n=n, a=a)


BUILTIN = {
    "void": kind("void"),
    "char": kind("int", w=8, sg="c"), "signed char": kind("int", w=8, sg="s"), "unsigned char": kind("int", w=8, sg="u"),
    "_Bool": kind("int", w=8, sg="u"),
    "short": kind("int", w=16, sg="s"), "unsigned short": kind("int", w=16, sg="u"),
    "int": kind("int", w=32, sg="s"), "unsigned int": kind("int", w=32, sg="u"),
    "long": kind("int", w=64, sg="s"), "unsigned long": kind("int", w=64, sg="u"),
    "long long": kind("int", w=64, sg="s"), "unsigned long long": kind("int", w=64, sg="u"),
    "__int128": kind("int", w=128, sg="s"), "unsigned __int128": kind("int", w=128, sg="u"),
    "float": kind("float", w=32), "double": kind("float", w=64), "long double": kind("float", w=128),
}
_QUALS = {"const", "volatile", "restrict", "__restrict", "__restrict__", "_Nonnull", "_Nullable", "register"}
_INTWORDS = {"signed", "unsigned", "short", "long", "int", "char", "__int128"}


def _canon_builtin(tokens):
    """['long','unsigned','int'] -> 'unsigned long' (order-insensitive C spelling of an arithmetic type)"""
    t = list(tokens)
    if all(x in _INTWORDS for x in t) and t:
        uns = "unsigned" in t
        sgn = "signed" in t
        nl = t.count("long")
        if "char" in t:
            return "unsigned char" if uns else ("signed char" if sgn else "char")
        if "__int128" in t:
            return "unsigned __int128" if uns else "__int128"
        base = "short" if "short" in t else ("long long" if nl >= 2 else ("long" if nl == 1 else "int"))
        return ("unsigned " + base) if uns else base
    return " ".join(t)


def header_list(repo):
    """library headers of the current tree: src/*.h minus headers of .c files that are not part of the library
    (src/CMakeLists.txt Scientific_C_SRCS) and minus the umbrella header (it only re-includes the others)."""
    src = os.path.join(repo, "src")
    txt = open(os.path.join(src, "CMakeLists.txt")).read()
    m = re.search(r"set\(Scientific_C_SRCS(.*?)\)", txt, re.S)
    if not m:
        raise AbiError("cannot find Scientific_C_SRCS in src/CMakeLists.txt")
    built = {os.path.basename(f)[:-2] for f in m.group(1).split()}
    out = []
    for f in sorted(os.listdir(src)):
        if not f.endswith(".h") or f == "scientific.h":
            continue
        stem = f[:-2]
        if os.path.exists(os.path.join(src, stem + ".c")) and stem not in built:
            continue
        out.append(os.path.join(src, f))
    return out


class CSide:
    def __init__(self, repo, incdirs, workdir, cc="gcc", cflags=()):
        self.repo, self.incdirs, self.workdir, self.cc, self.cflags = repo, list(incdirs), workdir, cc, list(cflags)
        self.srcreal = os.path.realpath(os.path.join(repo, "src"))
        self.typedefs = {}      # name -> ("type", qualType string) | ("rec", key) | ("enum", name)
        self.records = {}       # key ("tag:<name>" or "id:<hex>") -> dict(tag, union, fields=[(name, typestr, bitfield)], file, line)
        self.rec_names = {}     # key -> [typedef names]
        self.funcs = {}         # name -> dict(params=[typestr], ret=typestr, variadic, noproto, file, line)
        self.headers = header_list(repo)
        self._cur = None

    # ---- clang AST
    def run_clang(self):
        allc = os.path.join(self.workdir, "abi_all.c")
        with open(allc, "w") as f:
            for h in self.headers:
                f.write('#include "%s"\n' % h)
        cmd = ["clang", "-Xclang", "-ast-dump=json", "-fsyntax-only", "-std=c99", "-D_GNU_SOURCE", "-w"] + self.cflags + \
              ["-I" + i for i in self.incdirs] + [allc]
        try:
            p = subprocess.run(cmd, capture_output=True, text=True, timeout=300)
        except subprocess.TimeoutExpired:
            raise AbiError("clang -ast-dump timed out")
        if p.returncode != 0:
            raise AbiError("clang cannot parse the library headers:\n" + p.stderr[-3000:])
        try:
            return json.loads(p.stdout)
        except ValueError as e:
            raise AbiError("clang JSON AST not decodable: %s" % e)

    def _upd(self, loc):
        # clang prints "file" only when it changes (delta encoding): follow the dump order
        if not isinstance(loc, dict):
            return
        if "spellingLoc" in loc or "expansionLoc" in loc:
            for k in loc:
                if k in ("spellingLoc", "expansionLoc"):
                    self._upd(loc[k])
            return
        if "file" in loc:
            self._cur = loc["file"]

    def _in_src(self):
        return self._cur is not None and os.path.realpath(self._cur).startswith(self.srcreal + os.sep)

    @staticmethod
    def _tagref(node):
        """the record/enum declaration a typedef's type refers to directly (not through a pointer)"""
        for c in node.get("inner", []):
            k = c.get("kind")
            if k == "ElaboratedType":
                od = c.get("ownedTagDecl")
                if od:
                    return od
                r = CSide._tagref(c)
                if r:
                    return r
            elif k in ("RecordType", "EnumType"):
                return c.get("decl")
            elif k in ("TypedefType", "ParenType", "QualType", "AttributedType"):
                continue
        return None

    def _visit(self, node, top):
        if "loc" in node:
            self._upd(node["loc"])
        here, line = self._cur, (node.get("loc") or {}).get("line")
        insrc = self._in_src()
        rng = node.get("range")
        if rng:
            self._upd(rng.get("begin"))
            self._upd(rng.get("end"))
        k = node.get("kind")
        if k == "RecordDecl" and node.get("completeDefinition"):
            key = ("tag:" + node["name"]) if node.get("name") else ("id:" + node["id"])
            fields = [(f.get("name", ""), f["type"]["qualType"], bool(f.get("isBitfield"))) for f in node.get("inner", []) if f.get("kind") == "FieldDecl"]
            self.records[key] = dict(tag=node.get("name", ""), union=node.get("tagUsed") == "union", fields=fields, file=here, insrc=insrc, id=node["id"])
            self._byid[node["id"]] = key
        elif k == "RecordDecl":
            self._byid[node["id"]] = ("tag:" + node["name"]) if node.get("name") else ("id:" + node["id"])
        elif k == "EnumDecl":
            self._enumids.add(node["id"])
        elif k == "TypedefDecl" and node.get("name"):
            ref = self._tagref(node)
            if ref and ref.get("kind") == "RecordDecl":
                key = ("tag:" + ref["name"]) if ref.get("name") else ("id:" + ref["id"])
                self.typedefs[node["name"]] = ("rec", key)
                self.rec_names.setdefault(key, []).append(node["name"])
            elif ref and ref.get("kind") == "EnumDecl":
                self.typedefs[node["name"]] = ("enum", node["name"])
            else:
                self.typedefs[node["name"]] = ("type", node["type"]["qualType"])
        elif k == "FunctionDecl" and node.get("name") and not node.get("isImplicit") and insrc:
            qt = node["type"]["qualType"]
            params = [c["type"]["qualType"] for c in node.get("inner", []) if c.get("kind") == "ParmVarDecl"]
            # return type = text before the parameter list of the function type
            depth, cut = 0, None
            for i in range(len(qt) - 1, -1, -1):
                ch = qt[i]
                if ch == ")":
                    depth += 1
                elif ch == "(":
                    depth -= 1
                    if depth == 0:
                        cut = i
                        break
            if cut is None:
                raise AbiError("cannot split function type %r of %s" % (qt, node["name"]))
            plist = qt[cut + 1:-1].strip()
            self.funcs[node["name"]] = dict(params=params, ret=qt[:cut].strip(), variadic=plist.endswith("..."),
                                            noproto=(plist == ""), file=os.path.basename(here or "?"), line=line, static=node.get("storageClass") == "static")
        for c in node.get("inner", []):
            self._visit(c, False)

    def parse(self):
        self._byid, self._enumids = {}, set()
        tu = self.run_clang()
        self._visit(tu, True)
        if not self.funcs:
            raise AbiError("no prototypes found in %d headers (file tracking lost?)" % len(self.headers))
        return self

    # ---- names and kinds
    def rec_cname(self, key):
        names = self.rec_names.get(key)
        if names:
            return names[0]
        return self.records[key]["tag"] if key in self.records else key.split(":", 1)[1]

    def kind_of(self, ts, _depth=0):
        """canonical kind of a clang type string, typedefs resolved"""
        if _depth > 40:
            raise AbiError("typedef cycle at %r" % ts)
        s = ts.strip()
        if "(*" in s or "(^" in s:
            m = re.search(r"\((\*+)", s)
            extra = len(m.group(1)) - 1 if m else 0
            return kind("fnptr", d=extra)
        arr = 0
        incomplete = False
        for m in re.finditer(r"\[(\d*)\]", s):
            if m.group(1) == "":
                incomplete = True
            else:
                arr = (arr or 1) * int(m.group(1))
        s = re.sub(r"\[\d*\]", " ", s)
        if re.search(r"\([^)]*\)\s*$", s):
            # a function type (not pointer): decays to a function pointer as parameter
            return kind("fnptr")
        d = s.count("*") + (1 if incomplete else 0)
        toks = [t for t in s.replace("*", " ").split() if t not in _QUALS]
        if not toks:
            raise AbiError("empty type %r" % ts)
        if toks[0] in ("struct", "union") and len(toks) == 2:
            key = "tag:" + toks[1]
            if key not in self.records and toks[1] in self.typedefs and self.typedefs[toks[1]][0] == "rec":
                key = self.typedefs[toks[1]][1]      # clang prints `struct matrix` for the typedef'd anonymous struct
            base = kind("struct", n=self.rec_cname(key))
        elif toks[0] == "enum":
            base = kind("int", w=32, sg="e")
        elif len(toks) == 1 and toks[0] in self.typedefs:
            what, val = self.typedefs[toks[0]]
            if what == "rec":
                base = kind("struct", n=self.rec_cname(val))
            elif what == "enum":
                base = kind("int", w=32, sg="e")
            else:
                base = dict(self.kind_of(val, _depth + 1))
        else:
            b = _canon_builtin(toks)
            if b not in BUILTIN:
                raise AbiError("unknown C type %r (from %r)" % (b, ts))
            base = dict(BUILTIN[b])
        base = dict(base)
        if arr and base["a"]:
            base["a"] *= arr
        elif arr:
            if d:
                # array of pointers
                base["d"] += d
                d = 0
            base["a"] = arr
        base["d"] += d
        return base

    # ---- result
    def structs(self):
        """library structs (complete records defined in src/*.h) by canonical name"""
        out = {}
        for key, r in self.records.items():
            if not r["insrc"]:
                continue
            name = self.rec_cname(key)
            cexpr = name if self.rec_names.get(key) else ("union " if r["union"] else "struct ") + r["tag"]
            out[name] = dict(name=name, aliases=self.rec_names.get(key, []), tag=r["tag"], union=r["union"], cexpr=cexpr,
                             file=os.path.basename(r["file"] or "?"), bitfield=any(b for _, _, b in r["fields"]),
                             fields=[dict(name=fn, ctype=ft, kind=self.kind_of(ft)) for fn, ft, _ in r["fields"]])
        return out

    def protos(self):
        out = {}
        for name, f in self.funcs.items():
            if f["static"]:
                continue
            out[name] = dict(name=name, file=f["file"], line=f["line"], variadic=f["variadic"], noproto=f["noproto"], ctypes_ret=f["ret"],
                             ctypes_params=f["params"], ret=self.kind_of(f["ret"]), params=[self.kind_of(p) for p in f["params"]])
        return out

    # ---- the compiler's own layout ("trace from the real code")
    def measure(self, structs):
        src = os.path.join(self.workdir, "abi_offsets.c")
        with open(src, "w") as f:
            f.write("#include <stdio.h>\n#include <stddef.h>\n")
            for h in self.headers:
                f.write('#include "%s"\n' % h)
            f.write("int main(void){\n")
            for s in structs.values():
                if s["bitfield"]:
                    continue
                f.write('  printf("S %s %%zu %%zu\\n", sizeof(%s), (size_t)__alignof__(%s));\n' % (s["name"], s["cexpr"], s["cexpr"]))
                for fld in s["fields"]:
                    f.write('  printf("F %s %s %%zu %%zu\\n", offsetof(%s, %s), sizeof(((%s*)0)->%s));\n' % (
                        s["name"], fld["name"], s["cexpr"], fld["name"], s["cexpr"], fld["name"]))
            f.write("  return 0;\n}\n")
        exe = os.path.join(self.workdir, "abi_offsets")
        cmd = [self.cc, "-std=c99", "-D_GNU_SOURCE", "-w"] + self.cflags + ["-I" + i for i in self.incdirs] + [src, "-o", exe]
        p = subprocess.run(cmd, capture_output=True, text=True, timeout=300)
        if p.returncode != 0:
            raise AbiError("offsetof program does not compile:\n" + p.stderr[-3000:])
        p = subprocess.run([exe], capture_output=True, text=True, timeout=60)
        if p.returncode != 0:
            raise AbiError("offsetof program failed rc=%d" % p.returncode)
        n = 0
        for line in p.stdout.splitlines():
            t = line.split()
            if t[0] == "S":
                structs[t[1]]["size"], structs[t[1]]["align"] = int(t[2]), int(t[3])
            elif t[0] == "F":
                for fld in structs[t[1]]["fields"]:
                    if fld["name"] == t[2]:
                        fld["off"], fld["size"] = int(t[3]), int(t[4])
                        n += 1
        for s in structs.values():
            if not s["bitfield"] and ("size" not in s or any("off" not in f for f in s["fields"])):
                raise AbiError("offsetof program printed nothing for struct %s" % s["name"])
        return n


def extract(repo, incdirs, workdir, cc="gcc", cflags=()):
    cs = CSide(repo, incdirs, workdir, cc, cflags).parse()
    st = cs.structs()
    nfields = cs.measure(st)
    return dict(structs=st, protos=cs.protos(), headers=[os.path.basename(h) for h in cs.headers], fields_measured=nfields)
