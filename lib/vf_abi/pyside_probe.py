"""Run as a separate process:  python3 pyside_probe.py <python_bindings dir> <out.json> [<libsci.so for a live cross-check>]

Imports the REAL package files of the current tree with `libscientific.loadlibrary` replaced by a recording
stub: every `lsci.<f>.argtypes = ...` / `.restype = ...` executed at import is captured, every ctypes.Structure
subclass defined by the package is read back through ctypes itself (field order, types, offsets, sizes), and an
AST walk over every .py of the package lists every `lsci.<name>` attribute that is referenced (declared, called,
or both).  stdlib only.  Kinds use the flat record described in cside.py.
"""
import ast, ctypes, importlib, inspect, json, os, sys, types

UNSET = "<unset>"


class FakeFn:
    def __init__(self, name):
        object.__setattr__(self, "_name", name)
        object.__setattr__(self, "_set", {})
        object.__setattr__(self, "_order", [])

    def __setattr__(self, k, v):
        self._set[k] = v
        self._order.append(k)

    def __getattr__(self, k):
        if k.startswith("__"):
            raise AttributeError(k)
        if k in self._set:
            return self._set[k]
        if k == "argtypes":
            return None
        if k == "restype":
            return ctypes.c_int
        raise AttributeError(k)

    def __call__(self, *a, **kw):
        raise RuntimeError("foreign function %s called while importing the package (recording stub cannot execute it)" % self._name)


class FakeLib:
    def __init__(self):
        object.__setattr__(self, "fns", {})

    def __getattr__(self, n):
        if n.startswith("__"):
            raise AttributeError(n)
        return self.fns.setdefault(n, FakeFn(n))

    __getitem__ = __getattr__


class _Anything(types.ModuleType):
    """permissive stand-in for a third-party module that is not installed (e.g. numpy)"""
    def __getattr__(self, n):
        if n.startswith("__"):
            raise AttributeError(n)
        return _Anything(self.__name__ + "." + n)

    def __call__(self, *a, **k):
        return self


def kind(k, d=0, w=0, sg="-", n="", a=0):
    return dict(k=k, d=d, w=w, sg=sg, n=n, a=a)


_SIGNED = set("bhilq")
_UNSIGNED = set("BHILQ")


def kind_of(t):
    """ctypes type object -> flat kind (None = void)"""
    if t is None:
        return kind("void")
    if isinstance(t, type) and issubclass(t, ctypes.Structure):
        return kind("struct", n=t.__name__)
    if isinstance(t, type) and issubclass(t, ctypes.Union):
        return kind("struct", n=t.__name__)
    if isinstance(t, type) and issubclass(t, ctypes._Pointer):
        b = dict(kind_of(t._type_))
        b["d"] += 1
        return b
    if isinstance(t, type) and issubclass(t, ctypes._CFuncPtr):
        return kind("fnptr")
    if isinstance(t, type) and issubclass(t, ctypes.Array):
        b = dict(kind_of(t._type_))
        b["a"] = (b["a"] or 1) * t._length_
        return b
    if isinstance(t, type) and issubclass(t, ctypes._SimpleCData):
        c = t._type_
        w = ctypes.sizeof(t) * 8
        if c in _SIGNED:
            return kind("int", w=w, sg="s")
        if c in _UNSIGNED:
            return kind("int", w=w, sg="u")
        if c == "c":
            return kind("int", w=8, sg="c")
        if c == "?":
            return kind("int", w=8, sg="u")
        if c in "fdg":
            return kind("float", w=w)
        if c == "z":                       # c_char_p
            return kind("int", d=1, w=8, sg="c")
        if c == "Z":                       # c_wchar_p
            return kind("int", d=1, w=ctypes.sizeof(ctypes.c_wchar) * 8, sg="s")
        if c == "u":
            return kind("int", w=w, sg="s")
        if c == "P":                       # c_void_p
            return kind("void", d=1)
        if c == "O":
            return kind("void", d=1)
    raise TypeError("cannot classify ctypes declaration %r" % (t,))


def tname(t):
    if t is None:
        return "None"
    return getattr(t, "__name__", repr(t))


def loader_names(tree):
    """names bound to the result of load_libscientific_library() in a module"""
    out = set()
    for n in ast.walk(tree):
        if isinstance(n, ast.Assign) and isinstance(n.value, ast.Call):
            f = n.value.func
            fname = f.id if isinstance(f, ast.Name) else (f.attr if isinstance(f, ast.Attribute) else None)
            if fname == "load_libscientific_library":
                for t in n.targets:
                    if isinstance(t, ast.Name):
                        out.add(t.id)
    return out


def scan_refs(pkgdir):
    """every <lib>.<name> referenced anywhere in the package: name -> dict(decl=[file:line], call=[file:line], other=[..])"""
    refs = {}
    files = sorted(f for f in os.listdir(pkgdir) if f.endswith(".py"))
    trees = {f: ast.parse(open(os.path.join(pkgdir, f)).read(), f) for f in files if f != "loadlibrary.py"}
    anylib = set()
    for t in trees.values():
        anylib |= loader_names(t)
    for f, tree in trees.items():
        libs = loader_names(tree)
        parents = {}
        for p in ast.walk(tree):
            for c in ast.iter_child_nodes(p):
                parents[c] = p
        for n in ast.walk(tree):
            direct = isinstance(n, ast.Attribute) and isinstance(n.value, ast.Name) and n.value.id in libs
            # the library object of another module of the package: <module alias>.lsci.<name>
            via = isinstance(n, ast.Attribute) and isinstance(n.value, ast.Attribute) and n.value.attr in anylib
            if direct or via:
                r = refs.setdefault(n.attr, dict(decl=[], call=[], other=[]))
                par = parents.get(n)
                where = "%s:%d" % (f, n.lineno)
                if isinstance(par, ast.Attribute) and par.attr in ("argtypes", "restype", "errcheck"):
                    r["decl"].append(where)
                elif isinstance(par, ast.Call) and par.func is n:
                    r["call"].append(where)
                else:
                    r["other"].append(where)
    return refs, files


def main():
    bind, outp = sys.argv[1], sys.argv[2]
    pkgdir = os.path.join(bind, "libscientific")
    sys.path.insert(0, bind)
    sys.dont_write_bytecode = True
    lib = FakeLib()
    stub = types.ModuleType("libscientific.loadlibrary")
    stub.load_libscientific_library = lambda: lib
    sys.modules["libscientific.loadlibrary"] = stub
    refs, files = scan_refs(pkgdir)
    stubbed = []
    mods = {}
    import_errors = {}
    names = ["libscientific"] + ["libscientific." + f[:-3] for f in files if f not in ("__init__.py", "loadlibrary.py")]
    for name in names:
        for attempt in range(8):
            try:
                mods[name] = importlib.import_module(name)
                break
            except ModuleNotFoundError as e:
                missing = e.name
                if not missing or missing.startswith("libscientific"):
                    import_errors[name] = repr(e)
                    break
                sys.modules[missing] = _Anything(missing)
                stubbed.append(missing)
            except Exception as e:           # noqa
                import_errors[name] = "%s: %s" % (type(e).__name__, e)
                break
    funcs = {}
    for n, f in lib.fns.items():
        argset, retset = "argtypes" in f._set, "restype" in f._set
        try:
            args = [dict(py=tname(a), kind=kind_of(a)) for a in (f._set["argtypes"] or [])] if argset else []
            rt = f._set["restype"] if retset else ctypes.c_int
            ret = dict(py=tname(rt) if retset else "c_int (ctypes default, restype never set)", kind=kind_of(rt))
        except TypeError as e:
            import_errors["decl:" + n] = str(e)
            continue
        funcs[n] = dict(name=n, argset=argset, retset=retset, args=args, ret=ret,
                        redeclared=[k for k in ("argtypes", "restype") if f._order.count(k) > 1])
    structs = {}
    for mname, mod in mods.items():
        for k, v in vars(mod).items():
            if inspect.isclass(v) and issubclass(v, (ctypes.Structure, ctypes.Union)) and v.__module__ == mod.__name__:
                flds = []
                for fld in getattr(v, "_fields_", []):
                    fn, ft = fld[0], fld[1]
                    desc = getattr(v, fn)
                    flds.append(dict(name=fn, py=tname(ft), kind=kind_of(ft), off=desc.offset, size=desc.size & 0xFFFF if len(fld) > 2 else desc.size,
                                     bitfield=len(fld) > 2))
                structs[k] = dict(name=k, module=mname.split(".")[-1], union=issubclass(v, ctypes.Union), size=ctypes.sizeof(v),
                                  align=ctypes.alignment(v), pack=getattr(v, "_pack_", 0), fields=flds)
    out = dict(funcs=funcs, structs=structs, refs=refs, files=files, stubbed_modules=stubbed, import_errors=import_errors)
    with open(outp, "w") as fh:
        json.dump(out, fh, indent=1)


if __name__ == "__main__":
    main()
