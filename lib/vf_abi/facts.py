"""Join the C side, the python side and the exported symbols of the fresh build into the facts of one run,
and write them as the TLA+ data module AbiData.tla (read by spec/Abi.tla) and as JSON (evidence / replay)."""
import json, os, subprocess, sys
from . import cside

HERE = os.path.dirname(os.path.abspath(__file__))
VOID = cside.kind("void")


def exported_symbols(so):
    p = subprocess.run(["nm", "-D", "--defined-only", so], capture_output=True, text=True, timeout=120)
    if p.returncode != 0:
        raise cside.AbiError("nm -D failed on %s: %s" % (so, p.stderr[-500:]))
    out = set()
    for line in p.stdout.splitlines():
        t = line.split()
        if len(t) >= 3 and t[1] in ("T", "W", "i"):
            out.add(t[2].split("@")[0])
    if not out:
        raise cside.AbiError("no exported functions in %s" % so)
    return out


def python_side(repo, workdir):
    bind = os.path.join(repo, "src", "python_bindings")
    if not os.path.isdir(os.path.join(bind, "libscientific")):
        raise cside.AbiError("python package not found under %s" % bind)
    outp = os.path.join(workdir, "py_abi.json")
    env = {k: v for k, v in os.environ.items() if k not in ("PYTHONPATH", "PYTHONSTARTUP")}
    env["PYTHONDONTWRITEBYTECODE"] = "1"
    try:
        p = subprocess.run([sys.executable, "-B", os.path.join(HERE, "pyside_probe.py"), bind, outp], capture_output=True, text=True, timeout=120, env=env, cwd=workdir)
    except subprocess.TimeoutExpired:
        raise cside.AbiError("python-side extraction timed out")
    if p.returncode != 0 or not os.path.exists(outp):
        raise cside.AbiError("python-side extraction failed rc=%d:\n%s" % (p.returncode, (p.stderr or p.stdout)[-3000:]))
    py = json.load(open(outp))
    if py["import_errors"]:
        raise cside.AbiError("the python package does not import under the recording stub: %s" % py["import_errors"])
    return py


def collect(repo, lib, workdir):
    """lib = build.build_lib("plain") of the same tree -> facts dict"""
    c = cside.extract(repo, lib["inc"], workdir, cc=lib["cc"], cflags=[f for f in lib["cflags"] if f.startswith("-D")])
    py = python_side(repo, workdir)
    syms = exported_symbols(os.path.join(lib["dir"], "libsci.so"))
    funcs = []
    # names declared at import that the AST walk did not see (getattr tricks) are compared as well
    for name in py["funcs"]:
        py["refs"].setdefault(name, dict(decl=["(import)"], call=[], other=[]))
    for name in sorted(py["refs"]):
        ref = py["refs"][name]
        d = py["funcs"].get(name)
        proto = c["protos"].get(name)
        funcs.append(dict(
            name=name, called=bool(ref["call"] or ref["other"]), refs=ref,
            argset=bool(d and d["argset"]), retset=bool(d and d["retset"]),
            args=[a["kind"] for a in d["args"]] if d else [], ret=d["ret"]["kind"] if d else cside.kind("int", w=32, sg="s"),
            py_args=[a["py"] for a in d["args"]] if d else None, py_ret=d["ret"]["py"] if d else None,
            exported=name in syms, hasproto=proto is not None, variadic=bool(proto and proto["variadic"]), noproto=bool(proto and proto["noproto"]),
            cargs=proto["params"] if proto else [], cret=proto["ret"] if proto else VOID,
            c_args=proto["ctypes_params"] if proto else None, c_ret=proto["ctypes_ret"] if proto else None,
            c_where=("%s:%s" % (proto["file"], proto["line"])) if proto else None))
    # declarations recorded at import for names the AST walk did not see (e.g. getattr tricks): keep them too
    cstructs = [s for s in c["structs"].values() if not s["bitfield"]]
    facts = dict(repo=repo, headers=c["headers"], py_files=py["files"], n_protos=len(c["protos"]), n_exported=len(syms),
                 cstructs=cstructs, skipped_bitfield_structs=[s["name"] for s in c["structs"].values() if s["bitfield"]],
                 pystructs=list(py["structs"].values()), funcs=funcs, stubbed_modules=py["stubbed_modules"],
                 fields_measured=c["fields_measured"])
    return facts


# ---- TLA+ writer
def _s(x):
    return '"%s"' % str(x).replace("\\", "\\\\").replace('"', '\\"')


def _b(x):
    return "TRUE" if x else "FALSE"


def _kind(k):
    return "[k |-> %s, d |-> %d, w |-> %d, sg |-> %s, n |-> %s, a |-> %d]" % (_s(k["k"]), k["d"], k["w"], _s(k["sg"]), _s(k["n"]), k["a"])


def _seq(items):
    return "<< " + ", ".join(items) + " >>"


def _field(f):
    return "[name |-> %s, lname |-> %s, kind |-> %s, off |-> %d, size |-> %d]" % (_s(f["name"]), _s(f["name"].lower()), _kind(f["kind"]), f["off"], f["size"])


def _struct(s):
    return "[name |-> %s, lname |-> %s, union |-> %s, size |-> %d, align |-> %d,\n      fields |-> %s]" % (
        _s(s["name"]), _s(s["name"].lower()), _b(s["union"]), s["size"], s["align"], _seq([_field(f) for f in s["fields"]]))


def _func(f):
    return ("[name |-> %s, called |-> %s, argset |-> %s, retset |-> %s, exported |-> %s, hasproto |-> %s,\n      args |-> %s, ret |-> %s,\n      cargs |-> %s, cret |-> %s]" % (
        _s(f["name"]), _b(f["called"]), _b(f["argset"]), _b(f["retset"]), _b(f["exported"]), _b(f["hasproto"]),
        _seq([_kind(k) for k in f["args"]]), _kind(f["ret"]), _seq([_kind(k) for k in f["cargs"]]), _kind(f["cret"])))


def write_tla(facts, path, only=None):
    """only = ("struct"|"func"|"layout", name), or a list of such keys, restricts the checked declarations (all
    structs stay in the data, the pairing needs them)"""
    cst, pst, fn = facts["cstructs"], facts["pystructs"], facts["funcs"]
    lines = ["---- MODULE AbiData ----",
             "\\* generated by /verif/lib/vf_abi on every run from %s - do not edit" % facts["repo"],
             "CStructs == << " + ",\n   ".join(_struct(s) for s in cst) + " >>",
             "PyStructs == << " + ",\n   ".join(_struct(s) for s in pst) + " >>",
             "Funcs == << " + ",\n   ".join(_func(f) for f in fn) + " >>"]
    keys = [only] if (only and isinstance(only[0], str)) else list(only or [])
    items = []
    for t, name in keys:
        seq = dict(layout=cst, struct=pst, func=fn)[t]
        items += ['[t |-> "%s", i |-> %d]' % (t, i + 1) for i, x in enumerate(seq) if x["name"] == name]
    lines.append("OnlyDecls == {%s}" % ", ".join(items))
    lines.append("====")
    with open(path, "w") as f:
        f.write("\n".join(lines) + "\n")
    return path


def show(k):
    """compact text of a kind: pp f64 / u64 / p S:matrix"""
    base = {"int": "%s%d" % (k["sg"], k["w"]), "float": "f%d" % k["w"], "void": "void", "struct": "S:" + k["n"], "fnptr": "fnptr"}[k["k"]]
    return "*" * k["d"] + base + ("[%d]" % k["a"] if k["a"] else "")
