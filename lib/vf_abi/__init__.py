"""ABI fact extraction for property C20 (re-derived from the current tree on every run).

cside   - clang JSON AST of src/*.h: records, typedefs, enums, prototypes -> canonical kinds; generated
          offsetof/sizeof program compiled against the same headers and run (the compiler's own layout)
pyside  - imports the real python package with libscientific.loadlibrary replaced by a recording stub:
          argtypes/restype assignments, ctypes.Structure _fields_ (offsets from ctypes), AST scan of lsci.<name>
facts   - joins both sides with `nm -D` of the fresh libsci.so and writes AbiData.tla + JSON
"""
