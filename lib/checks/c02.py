"""C02 - PCA components are the principal axes of the data (spectral correctness, equivariance).

Mode 3 (ledger) over data with a KNOWN spectrum + TLC ordering logic.
(M)    Pca.tla, section Spectral: TLC enumerates every admissible integer spectrum (length <= 5 over a 12-letter alphabet,
       squared singular ratios <= 0.7225), extracts by arg-max and shows explained variance is the descending normalised
       spectrum and that the criterion-implied bounds are defined; the wrong extraction order ("first") must be rejected.
(GEN)  the same run emits every (spectrum, shape) case.
(C)    c02_drv builds X = U diag(sigma) V' + 1 offset' with exactly that SVD (seeded QR), runs the real PCA() (scaling 0/-1
       against the construction, scalings 1..5 against a long-double Jacobi eigen-solver cross-checked with LAPACK dsyev),
       paired runs on row-permuted / column-permuted / rotated / rescaled data; TLC validates every case against
       TracePcaSpectral.tla: component order = spec order, eigenvalues within TolEig, score and loading errors within the
       bounds TLC computes from the logged spectrum (K = 30, eps = sqrt(n*1e-10)).
"""
import math, os, random, shutil
from concurrent.futures import ThreadPoolExecutor
from vf import build, tlc, trace
from vf import run as hrun
from vf.core import InfraError

LEVEL = "exploration"
READY = True
TECHNIQUE = ("TLC enumeration of all admissible spectra (Pca.tla Spectral: arg-max extraction, descending normalised explained variance) generating the cases; "
             "data with exactly those singular values built by the harness; TLC trace validation of the real PCA's axis order, eigenvalues, score/loading errors "
             "against criterion-implied bounds computed by TLC, and of paired permuted/rotated/rescaled runs (oracles: construction, long-double Jacobi, LAPACK dsyev)")
LEVEL_TEXT = ("Sampled inputs with known truth: for TLC-enumerated separated spectra and shapes, matrices with exactly that SVD are fitted by the real PCA() under all 7 scalings "
              "and data magnitudes 1e-8..1e6 (scalings 0/-1; 1..1e3 for the normalising options); TLC validates per component that it sits on the true axis of the same index, carries its eigenvalue within TolEig, and that score and "
              "loading errors stay within the bound implied by the documented stopping rule; row/column permutations, rotations and rescalings must reproduce the transformed model.")
LEVEL_NOTE = ("Exploration: spectra/shapes are enumerated exhaustively by TLC within the alphabet, but orthogonal factors, offsets, scalings and decades are sampled. Trusts TLC, "
              "the harness's construction of data with a known SVD, its long-double Jacobi solver (cross-checked against dsyev and the construction on every case), "
              "and its error evaluation/quantisation (binding self-test). Bound constant K = 30 with the two-sequence recurrence of LedgerArith.tla.")

SCALINGS = [-1, 0, 0, 1, 2, 3, 4, 5]


def _ncmp(sig2):
    k = 0
    while k < len(sig2) and k < 6:
        rho9 = (sig2[k + 1] * 10 ** 9 // sig2[k]) if k + 1 < len(sig2) and sig2[k] > 0 else 0
        if sig2[k] < 1000 or rho9 > 722500000:
            break
        k += 1
    return k


def _bounds(sig2, n, K=30.0):
    """float mirror of LedgerArith!BoundsPT - for reporting worst observed/bound and for naming only"""
    eps = math.sqrt(n * 1e-10)
    bt, bp = [], []
    for k in range(_ncmp(sig2)):
        rho = sig2[k + 1] / sig2[k] if k + 1 < len(sig2) else 0.0
        gt, gp = max(rho / (1 - rho), 0.05), max(math.sqrt(rho) / (1 - rho), 0.05)
        lp = sum(bp)
        lt = sum(bp[j] * math.sqrt(sig2[j] / sig2[k]) for j in range(k))
        bp.append(min(1.0, K * eps * gp + lp / (1 - rho)))
        bt.append(min(1.0, K * eps * gt + lt / (1 - rho)))
    return bt, bp


def _evtol(n, s2k, entries):
    r = math.isqrt(n * 1000000)
    r = r if r * r == n * 1000000 else r + 1
    return 40 * r + (entries + 1) * (10 ** 9 // max(1, s2k)) + 2


def _model_and_cases(ctx):
    cfg = "MC_PcaSpectral_quick.cfg" if ctx.quick else "MC_PcaSpectral_thorough.cfg"
    r = tlc.run("Pca", cfg, timeout=1500)
    ctx.add_tlc(r, "mc_pca_spectral")
    if not r.ok:
        raise InfraError("Pca.tla (Spectral): %s fails in the model itself:\n%s" % (r.violation, r.trace_text[:1500]))
    if r.coverage.get("ExtractPrincipal", (0, 0))[0] == 0:
        raise InfraError("Pca.tla (Spectral): ExtractPrincipal never taken")
    seen, cases = set(), []
    for e in r.emits:
        key = (tuple(e["sig2"]), e["n"], e["c"])
        if key not in seen:
            seen.add(key)
            cases.append(key)
    if len(cases) < 50:
        raise InfraError("Spectral GEN emitted only %d cases" % len(cases))
    # non-vacuity: a wrong extraction order must violate SpectralOrder
    rd = tlc.rundir()
    try:
        p = os.path.join(rd, "first.cfg")
        open(p, "w").write(open(os.path.join(tlc.SPEC, "MC_PcaSpectral_quick.cfg")).read().replace('StartRule = "argmax"', 'StartRule = "first"').replace("CONSTRAINT Emit\n", ""))
        rf = tlc.run("Pca", p, timeout=600, coverage=False)
        ctx.add_tlc(rf, "mc_pca_spectral_wrong_order")
        if rf.ok or rf.violation != "SpectralOrder":
            raise InfraError("Pca.tla (Spectral): wrong extraction order is not rejected (vacuous)")
    finally:
        shutil.rmtree(rd, ignore_errors=True)
    ctx.note("spectral model: %d states, %d (spectrum, shape) cases emitted; wrong extraction order rejected" % (r.distinct, len(cases)))
    return cases


def _draw(rng, key):
    sig2, n, c = key
    scaling = rng.choice(SCALINGS)
    dec = rng.randint(-8, 6) if scaling in (-1, 0) else rng.randint(0, 3)
    return dict(sig2=list(sig2), n=n, c=c, scaling=scaling, dec=dec, tail=rng.randint(0, 2), seed=rng.randrange(1, 2 ** 30))


def _plan(ctx, cases):
    rng = random.Random(ctx.seed)
    if ctx.quick:
        picked = rng.sample(cases, min(len(cases), 260))
        plan = [_draw(rng, k) for k in picked]
        # the small-eigenvalue corner must be present in every run (that is where finding F11 lives)
        for k in rng.sample([k for k in cases if len(k[0]) >= 2], 24):
            d = _draw(rng, k)
            d["scaling"], d["dec"] = rng.choice([0, -1]), rng.choice([-8, -6, -5, -3, -2])
            plan.append(d)
    else:
        plan = [_draw(rng, k) for k in cases]
        plan += [_draw(rng, rng.choice(cases)) for _ in range(max(0, 10500 - len(plan)))]
    return plan


def _write_cases(path, plan):
    with open(path, "w") as f:
        for d in plan:
            f.write("%d %d %d %d %d %d %d %s\n" % (d["n"], d["c"], d["scaling"], d["dec"], d["tail"], d["seed"], len(d["sig2"]), " ".join(str(x) for x in d["sig2"])))


def _record(ctx, exe, rd, plan, nproc=1, parts=6, timeout=2400):
    parts = max(1, min(parts, len(plan) // 20 or 1))
    jobs = []
    for i in range(parts):
        sub = plan[i::parts]
        cf = os.path.join(rd, "cases_%d.txt" % i)
        _write_cases(cf, sub)
        jobs.append([os.path.join(rd, "c02_%d.ndjson" % i), "cases", cf, nproc])
    res = hrun.run_many(exe, jobs, timeout=timeout, workers=6)
    chunks = []
    for j, h in zip(jobs, res):
        ev = hrun.read_ndjson(j[0])
        if h.san:
            last = next((e for e in reversed(ev) if e.get("e") == "Case"), {})
            ctx.violation("PCA:spectral:%s" % h.san, "sanitizer report in case %s:\n%s" % (last, h.err[:1500]), dict(kind="case", case=last))
        if h.timed_out:
            raise InfraError("c02 harness timed out")
        if h.rc != 0 and not h.san:
            raise InfraError("c02 harness failed rc=%d\n%s" % (h.rc, h.err[-800:]))
        if not any(e.get("e") == "Summary" for e in ev):
            raise InfraError("c02 harness wrote no Summary")
        if any(e.get("e") == "Abort" and e.get("why") == "watchdog" for e in ev):
            raise InfraError("c02 harness: wall-clock watchdog fired without the iteration budget (machine load)")
        chunks.append([e for e in ev if e.get("e") != "Summary"])
    return chunks


def _case_of(block):
    case = next((e for e in block if e.get("e") == "Case"), {})
    spec = next((e for e in block if e.get("e") == "Spectrum"), {})
    return case, spec.get("sig2", [])


def _account(ctx, chunks, plan_by_seed):
    ncase = ndrop = 0
    worst = dict(axis_score=0.0, axis_loading=0.0, pair=0.0, eigen=0.0, oracle=0)
    wcase = {}
    for ev in chunks:
        for b in tlc.split_blocks(ev):
            case, sig2 = _case_of(b)
            if not case:
                continue
            if any(e["e"] == "Dropped" for e in b):
                ndrop += 1
                continue
            ncase += 1
            d = plan_by_seed.get(case["seed"], {})
            m = _ncmp(sig2)
            ctx.case((tuple(d.get("sig2", sig2)), case["n"], case["c"], case["scaling"], case["dec"]), m >= 2)
            bt, bp = _bounds(sig2, case["n"])
            for e in b:
                if e["e"] == "Axis" and e["k"] <= m:
                    k = e["k"] - 1
                    for nm, r in (("axis_score", e["terr"] * 1e-9 / bt[k]), ("axis_loading", e["perr"] * 1e-9 / bp[k]),
                                  ("eigen", max(e["evalErr"], e["vErr"]) / _evtol(case["n"], sig2[k], len(sig2)))):
                        if r > worst[nm]:
                            worst[nm] = r
                            wcase[nm] = dict(case=case, event=e)
                elif e["e"] in ("Pair", "Scale"):
                    for k in range(min(m, len(e["terr"]))):
                        r = max(e["terr"][k] * 1e-9 / (2 * bt[k]), e["perr"][k] * 1e-9 / (2 * bp[k]))
                        if r > worst["pair"]:
                            worst["pair"] = r
                            wcase["pair"] = dict(case=case, event=e)
                elif e["e"] == "Oracle":
                    worst["oracle"] = max(worst["oracle"], e["err"])
    if ncase == 0:
        raise InfraError("c02 harness produced no cases")
    cs = [_case_of(b) for ev in chunks for b in tlc.split_blocks(ev)]
    classes = dict(two_or_more_compared=sum(1 for c, s2 in cs if c and _ncmp(s2) >= 2), small_eigenvalues=sum(1 for c, s2 in cs if c and c["dec"] <= -2), tiny_magnitude=sum(1 for c, s2 in cs if c and c["dec"] <= -6), large_magnitude=sum(1 for c, s2 in cs if c and c["dec"] >= 4),
                   rotated=sum(1 for ev in chunks for e in ev if e["e"] == "Pair" and e["kind"] == "rot"), shrunk=sum(1 for ev in chunks for e in ev if e["e"] == "Scale" and e["cexp"] < 0))
    for sc in range(-1, 6):
        classes["scaling_%d" % sc] = sum(1 for c, s2 in cs if c and c["scaling"] == sc)
    ctx.steps["classes"] = classes
    missing = [k for k, v in classes.items() if v == 0]
    if missing:
        raise InfraError("c02 recording does not exercise: %s (vacuous antecedents)" % missing)
    ctx.steps["worst_observed_over_bound"] = {k: (round(v, 4) if isinstance(v, float) else v) for k, v in worst.items()}
    ctx.steps["worst_cases"] = wcase
    ctx.steps["cases"] = dict(run=ncase, dropped_outside_quantifier=ndrop)
    return ncase, ndrop, worst


def _name(block, ev):
    case, sig2 = _case_of(block)
    m = _ncmp(sig2)
    n = case.get("n", 2)
    e = ev.get("e")
    if e == "Diverge":
        return "no-convergence", "NIPALS loop of %s did not converge within %s iterations (component %s)" % (ev.get("site"), ev.get("it"), ev.get("comp"))
    if e == "Abort":
        return "no-convergence" if ev.get("why") == "iteration-budget" else "crash:%s" % ev.get("why"), "fit did not finish (%s)" % ev
    if e == "Oracle":
        return "oracle", "oracles disagree: %s" % ev
    bt, bp = _bounds(sig2, n)
    if e == "Axis":
        k = ev["k"]
        if ev["match"] != k:
            return "order", "component %d sits on true axis %d" % (k, ev["match"])
        if k <= m and max(ev["evalErr"], ev["vErr"]) > _evtol(n, sig2[k - 1], len(sig2)):
            return "eigenvalue", "component %d: t't off by %.3g, explained variance off by %.3g (relative; tolerance %.3g)" % (
                k, ev["evalErr"] * 1e-9, ev["vErr"] * 1e-9, _evtol(n, sig2[k - 1], len(sig2)) * 1e-9)
        if k <= m:
            return "axis", "component %d: score error %.3g (bound %.3g), loading error %.3g (bound %.3g) = %.1fx the criterion-implied bound" % (
                k, ev["terr"] * 1e-9, bt[k - 1], ev["perr"] * 1e-9, bp[k - 1], max(ev["terr"] * 1e-9 / bt[k - 1], ev["perr"] * 1e-9 / bp[k - 1]))
    if e in ("Pair", "Scale"):
        kind = ev.get("kind") or ("scale:1e%d" % ev["cexp"])
        r = max([max(ev["terr"][k] * 1e-9 / (2 * bt[k]), ev["perr"][k] * 1e-9 / (2 * bp[k])) for k in range(min(m, len(ev["terr"])))] or [0])
        return "equivariance:%s" % kind, "paired run (%s) differs from the transformed original by %.1fx the allowed 2 x bound: scores %s loadings %s (1e-9 units)" % (
            kind, r, ev["terr"], ev["perr"])
    return "trace", "event %s rejected" % ev


def _validate(ctx, chunks, plan_by_seed, label, max_rounds):
    def on_reject(ev, idx, block):
        case, sig2 = _case_of(block)
        nm, what = _name(block, ev)
        if nm == "oracle":
            raise InfraError("C02 oracles (construction / Jacobi / dsyev) disagree on case %s: %s" % (case, ev))
        d = plan_by_seed.get(case.get("seed"), {})
        ctx.violation("PCA:spectral:%s" % nm, "n=%s c=%s scaling=%s decade=%s spectrum=%s seed=%s: %s" % (
            case.get("n"), case.get("c"), case.get("scaling"), case.get("dec"), d.get("sig2", sig2), case.get("seed"), what),
            dict(kind="case", n=case.get("n"), c=case.get("c"), scaling=case.get("scaling"), dec=case.get("dec"), tail=case.get("tail"),
                 seed=case.get("seed"), nproc=case.get("nproc", 1), sig2=d.get("sig2"), event=ev))

    def one(args):
        i, ev = args
        return trace.check_trace(ctx, "TracePcaSpectral", "Trace_PcaSpectral.cfg", "Trace_PcaSpectral_prop.cfg", ev, on_reject, drop="block",
                                 max_rounds=max_rounds, label="%s_%d" % (label, i), timeout=1500)
    with ThreadPoolExecutor(6) as ex:
        return sum(ex.map(one, list(enumerate(chunks))))


def _binding(ctx, chunks):
    blocks = [b for ch in chunks[:3] for b in tlc.split_blocks(ch) if any(e["e"] == "Scale" for e in b)][:15]
    ev = [e for b in blocks for e in b]
    if not any(e["e"] == "Axis" for e in ev) and ctx.violations:
        ctx.note("binding self-test skipped: no completed case in the recording (violations reported above)")
        return

    def corrupt(evs):
        for e in evs:
            if e["e"] == "Axis" and e["k"] == 1:
                e["terr"] = min(2000000000, max(1, e["terr"]) * 1000000)
                return True
        return False
    trace.binding_selftest(ctx, "TracePcaSpectral", "Trace_PcaSpectral_prop.cfg", ev, corrupt, "binding_score_error_x1e6")

    def corrupt2(evs):
        for e in evs:
            if e["e"] == "Axis" and e["k"] == 1:
                e["match"] = 2
                return True
        return False
    trace.binding_selftest(ctx, "TracePcaSpectral", "Trace_PcaSpectral_prop.cfg", ev, corrupt2, "binding_axis_order")


def run(ctx):
    ctx.assumptions += [
        "spectra and shapes are enumerated by TLC; orthogonal factors, offsets, scaling option, data decade (1e-8..1e6 for scalings 0/-1 - absolute magnitude of the data, further rescaled by 1e+-3 in the paired runs - and 1..1e3 otherwise) and tail are sampled (seeded): level exploration",
        "truth: the constructed SVD (scaling 0/-1) or the harness's long-double cyclic Jacobi solver on E'E (scalings 1..5), each case cross-checked against LAPACK dsyev and the construction (Oracle event, 1e-6 of lambda_1)",
        "E = MatrixPreprocess(X) is the preprocessed matrix (C10); inputs whose column scale falls into the fit/apply guard zone (< 1.2e-2) are not generated",
        "bounds: K = 30, eps = sqrt(n*1e-10); loadings eps*sqrt(rho)/(1-rho), scores eps*rho/(1-rho), floor 0.05, leakage of earlier loading errors (LedgerArith.tla); eigenvalues TolEig relative + 1e-9*ss0",
        "components are judged up to the first squared singular ratio > 0.7225 (the property's quantifier), at most 6",
    ]
    cases = _model_and_cases(ctx)
    plan = _plan(ctx, cases)
    plan_by_seed = {d["seed"]: d for d in plan}
    lib = build.build_lib("san")
    exe = build.build_harness("c02", ["c02_drv.c"], lib)
    rd = tlc.rundir()
    try:
        chunks = _record(ctx, exe, rd, plan, parts=6 if ctx.quick else 12)
        ncase, ndrop, worst = _account(ctx, chunks, plan_by_seed)
        ctx.note("recorded %d cases (%d dropped as outside the quantifier); worst observed/bound: %s" % (ncase, ndrop, ctx.steps["worst_observed_over_bound"]))
        for b in tlc.split_blocks(chunks[0])[:2]:
            ctx.sample(b)
        ctx.cov["rule"] = ("every admissible spectrum (length <= 5 over {1,2,3,4,5,8,12,20,40,100,400,2000}, squared ratios <= 0.7225) x shape emitted by TLC; "
                           "%s; the harness builds data with exactly that SVD under a drawn scaling option (-1..5), decade and tail; one evaluation = one case "
                           "(base fit + 4..5 paired fits) validated by TLC; distinct = (spectrum, n, c, scaling, decade); non-trivial = at least 2 compared components"
                           % ("quick tier: a seeded sample of 260 + 24 small-eigenvalue cases" if ctx.quick else "thorough tier: every emitted case once plus random repeats up to 10,500"))
        rej = _validate(ctx, chunks, plan_by_seed, "trace_spectral", 4 if ctx.quick else 10)
        ctx.traces(max(0, ncase - rej))
        _binding(ctx, chunks)
    finally:
        shutil.rmtree(rd, ignore_errors=True)


def replay(ctx, body):
    case = body.get("case") or {}
    if case.get("kind") != "case" or not case.get("sig2"):
        return run(ctx)
    lib = build.build_lib("san")
    exe = build.build_harness("c02", ["c02_drv.c"], lib)
    rd = tlc.rundir()
    try:
        out = os.path.join(rd, "replay.ndjson")
        args = [out, "one", case["n"], case["c"], case["scaling"], case["dec"], case.get("tail", 0), case["seed"], case.get("nproc", 1), len(case["sig2"])] + list(case["sig2"])
        h = hrun.run(exe, args, timeout=900)
        ev = [e for e in hrun.read_ndjson(out) if e.get("e") != "Summary"]
        if h.san:
            ctx.violation("PCA:spectral:%s" % h.san, h.err[:1500], case)
        if not ev:
            raise InfraError("replay produced no events: %s" % h.err[-500:])
        plan_by_seed = {case["seed"]: dict(sig2=case["sig2"])}
        ctx.case(("replay", tuple(case["sig2"]), case["n"], case["c"], case["scaling"], case["dec"]))
        ctx.case(("replay-seed", case["seed"]))
        ctx.sample(ev)
        ctx.cov["rule"] = "replay of one recorded case (spectrum, n, c, scaling, decade, tail, seed) refitted on the current tree"
        rej = _validate(ctx, [ev], plan_by_seed, "replay", 3)
        ctx.traces(0 if rej else 1)
    finally:
        shutil.rmtree(rd, ignore_errors=True)
