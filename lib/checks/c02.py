"""C02 - PCA components are the principal axes of the data (spectral correctness, equivariance).

Mode 3 (ledger) over data with a KNOWN spectrum + TLC ordering logic.
(M)    Pca.tla, section Spectral: TLC enumerates every admissible integer spectrum (length <= 5 over a 12-letter alphabet,
       squared singular ratios <= 0.7225), extracts by arg-max and shows explained variance is the descending normalised
       spectrum and that the criterion-implied bounds are defined; the wrong extraction order ("first") must be rejected.
       Shapes are triples <<n, c, nproc>>: base shapes on one processor (tall / wide / square / n = p +- 1 / single column /
       block boundaries 4k, 4k +- 1, ~32, ~64) and MT shapes around the slice boundaries of 2, 3, 5, 16 (24) workers (fewer
       items than workers, k nproc +- 1, ragged last slice, idle last worker); the slice recurrence of the two MT kernels is
       defined in the module and TLC shows it hands every column / row to exactly one worker for every emitted shape
       (SlicesCover, MtShapeClasses).  The location term of the bounds (LocBase9 / LocK9 / BoundsPTL) is shown to change nothing
       when absent, to widen monotonically and to saturate instead of overflowing (LocSound).
(GEN)  the same run emits every (spectrum, shape, nproc) case with its shape-class tags.
(C)    c02_drv builds X = U diag(sigma) V' + 1 offset' with exactly that SVD (seeded QR), runs the real PCA() under the forced
       processor count, preprocesses the data ITSELF in long double (two-pass; never the library's statistics), takes as truth
       the construction (scaling 0/-1, ordinary offsets) or a long-double Jacobi eigen-solver on E'E cross-checked with LAPACK
       dsyev; paired runs on row-permuted / column-permuted / rotated / rescaled data, a repeated fit after an in-process
       history of other fits; TLC validates every case against TracePcaSpectral.tla: component order = spec order, eigenvalues
       within TolEig, score and loading errors within the bounds TLC computes from the logged spectrum (K = 30,
       eps = sqrt(n*1e-10)) plus, for the location class only, the term TLC computes from the logged one-ulp representability
       of the column locations.  Impl layer: slices of the MT kernels (hook H3), the stopping rule as coded (hook H4),
       bit-identical refit.  Ext layer (outside the statement, EXTRA-FINDING only): stored column statistics, fit into a used model.
"""
import copy, math, os, random, shutil
from concurrent.futures import ThreadPoolExecutor
from vf import build, tlc, trace
from vf import run as hrun
from vf.core import InfraError

LEVEL = "exploration"
READY = True
TECHNIQUE = ("TLC enumeration of all admissible spectra x shapes x forced processor counts (Pca.tla Spectral: arg-max extraction, descending normalised explained variance, "
             "slice recurrence of the MT kernels covers every column/row exactly once, location term of the bounds sound/monotone/saturating) generating the cases; "
             "data with exactly those singular values built by the harness (ordinary and 1e3..1e8 x spread column offsets, duplicate rows/columns, constant columns, in-process histories); "
             "TLC trace validation of the real PCA's axis order, eigenvalues, score/loading errors against criterion-implied bounds computed by TLC (plus a TLC-computed "
             "representability term for the location class), and of paired permuted/rotated/rescaled/repeated runs "
             "(oracles: construction, long-double two-pass preprocessing + long-double Jacobi, LAPACK dsyev)")
LEVEL_TEXT = ("Sampled inputs with known truth: for TLC-enumerated separated spectra, shapes (tall, wide, square, n = p +- 1, single column, block boundaries) and forced processor counts "
              "1, 2, 3, 5, 16 (24 in the thorough tier; shapes around the slice boundaries so that the multithreaded t'E / E p kernels run with empty, ragged and idle slices), matrices with "
              "exactly that SVD are fitted by the real PCA() under all 7 scalings, data magnitudes 1e-8..1e6 (scalings 0/-1; 1..1e6 for the normalising options) and column offsets from "
              "0.1 x to 1e8 x the column spread; the harness preprocesses the data itself in long double; TLC validates per component that it sits on the true axis of the same index, carries its "
              "eigenvalue within TolEig, and that score and loading errors stay within the bound implied by the documented stopping rule (plus one-ulp representability of the locations, "
              "computed by TLC from the logged input, for the location class only); row/column permutations, rotations, rescalings and a refit after other fits must reproduce the transformed model.")
LEVEL_NOTE = ("Exploration: spectra/shapes/processor counts are enumerated exhaustively by TLC within the alphabet, but orthogonal factors, offsets, scalings and decades are sampled. Trusts TLC, "
              "the harness's construction of data with a known SVD, its long-double preprocessing and Jacobi solver (cross-checked against dsyev and the construction on every case), "
              "and its error evaluation/quantisation (binding self-tests per event kind). Bound constant K = 30 with the two-sequence recurrence of LedgerArith.tla; location term CLoc = 12 (n + 1) loc sigma_1/sigma_k. "
              "Input classes deliberately NOT generated because the quantifier excludes them: K9 missing values (the statement does not speak about the missing-value code; entries that collide with "
              "99999999 are dropped), K10 labels (none in PCA), K4 per-column unit systems (X D is not of the form U diag(s) V' + offsets; only the whole-matrix rescaling is in), "
              "magnitudes below 1 for scalings 1..5 and column scales in (0, 1.2e-2) (the library's zero-scale guard: C10/C18), unseparated spectra (ratio > 0.85), single row (n = 1), "
              "K8 exact ties between eigenvalues. A fit into a model that already holds a fit (K7 'reuse') and the stored column statistics are outside the statement: reported as EXTRA-FINDING only.")

W = max(1, int(os.environ.get("VERIF_WORKERS", "6")))
TLC_WORKERS = int(os.environ["VERIF_WORKERS"]) if os.environ.get("VERIF_WORKERS") else 16
SCALINGS = [-1, 0, 0, 1, 2, 3, 4, 5]
EXT_EVENTS = ("Prep", "Reuse")
GEN_EVENTS = ("Reset", "Case", "Spectrum", "Loc", "Dropped", "Summary")
CLOC = 12.0


def _ncmp(sig2):
    k = 0
    while k < len(sig2) and k < 6:
        rho9 = (sig2[k + 1] * 10 ** 9 // sig2[k]) if k + 1 < len(sig2) and sig2[k] > 0 else 0
        if sig2[k] < 1000 or rho9 > 722500000:
            break
        k += 1
    return k


def _bounds(sig2, n, K=30.0, loc12=0):
    """float mirror of LedgerArith!BoundsPT / Pca!BoundsPTL - for reporting worst observed/bound, for naming and for the sandwich self-test"""
    eps = math.sqrt(n * 1e-10)
    lb = CLOC * (n + 1) * loc12 * 1e-12
    bt, bp = [], []
    for k in range(_ncmp(sig2)):
        rho = sig2[k + 1] / sig2[k] if k + 1 < len(sig2) else 0.0
        gt, gp = max(rho / (1 - rho), 0.05), max(math.sqrt(rho) / (1 - rho), 0.05)
        lk = lb * math.sqrt(sig2[0] / sig2[k])
        lp = sum(bp)
        lt = sum(bp[j] * math.sqrt(sig2[j] / sig2[k]) for j in range(k))
        bp.append(min(1.0, K * eps * gp + lp / (1 - rho) + lk))
        bt.append(min(1.0, K * eps * gt + lt / (1 - rho) + lk))
    return bt, bp


def _evtol(n, s2k, entries, sig2=None, loc12=0):
    r = math.isqrt(n * 1000000)
    r = r if r * r == n * 1000000 else r + 1
    lk = CLOC * (n + 1) * loc12 * 1e-3 * math.sqrt(sig2[0] / s2k) if (sig2 and loc12) else 0
    return 40 * r + (entries + 1) * (10 ** 9 // max(1, s2k)) + 2 + lk


def _model_and_cases(ctx):
    cfg = "MC_PcaSpectral_quick.cfg" if ctx.quick else "MC_PcaSpectral_thorough.cfg"
    r = tlc.run("Pca", cfg, timeout=1700, workers=TLC_WORKERS)
    ctx.add_tlc(r, "mc_pca_spectral")
    if not r.ok:
        raise InfraError("Pca.tla (Spectral): %s fails in the model itself:\n%s" % (r.violation, r.trace_text[:1500]))
    if r.coverage.get("ExtractPrincipal", (0, 0))[0] == 0:
        raise InfraError("Pca.tla (Spectral): ExtractPrincipal never taken")
    seen, cases = set(), []
    for e in r.emits:
        key = (tuple(e["sig2"]), e["n"], e["c"], e["np"])
        if key not in seen:
            seen.add(key)
            cases.append(key + (tuple(sorted(e["tags"])),))
    if len(cases) < 50:
        raise InfraError("Spectral GEN emitted only %d cases" % len(cases))
    nps = sorted({k[3] for k in cases})
    if nps[:1] != [1] or len(nps) < 5:
        raise InfraError("Spectral GEN emitted processor counts %s only" % nps)
    # non-vacuity: a wrong extraction order must violate SpectralOrder
    rd = tlc.rundir()
    try:
        p = os.path.join(rd, "first.cfg")
        open(p, "w").write(open(os.path.join(tlc.SPEC, "MC_PcaSpectral_quick.cfg")).read().replace('StartRule = "argmax"', 'StartRule = "first"').replace("CONSTRAINT Emit\n", ""))
        rf = tlc.run("Pca", p, timeout=600, coverage=False, workers=TLC_WORKERS)
        ctx.add_tlc(rf, "mc_pca_spectral_wrong_order")
        if rf.ok or rf.violation != "SpectralOrder":
            raise InfraError("Pca.tla (Spectral): wrong extraction order is not rejected (vacuous)")
    finally:
        shutil.rmtree(rd, ignore_errors=True)
    ctx.note("spectral model: %d states, %d (spectrum, shape, nproc) cases emitted for nproc %s; wrong extraction order rejected" % (r.distinct, len(cases), nps))
    return cases


def _draw(rng, key, **over):
    sig2, n, c, np_, tags = key
    scaling = rng.choice(SCALINGS)
    dec = rng.randint(-8, 6) if scaling in (-1, 0) else rng.randint(0, 3)
    d = dict(sig2=list(sig2), n=n, c=c, nproc=np_, tags=list(tags), scaling=scaling, dec=dec, tail=rng.randint(0, 2), seed=rng.randrange(1, 2 ** 30), loc=0, deg=0, hist=0)
    d.update(over)
    if "scaling" in over and "dec" not in over:
        d["dec"] = rng.randint(-8, 6) if d["scaling"] in (-1, 0) else rng.randint(0, 3)
    return d


def _plan(ctx, cases):
    rng = random.Random(ctx.seed)
    base = [k for k in cases if k[3] == 1]
    orig = [k for k in base if (k[1], k[2]) in ((7, 5), (30, 6), (6, 12), (9, 9), (60, 25), (4, 25), (2, 3), (3, 3), (12, 2), (25, 25), (45, 3))]
    oset = set(orig)
    newshape = [k for k in base if k not in oset]
    multi = [k for k in base if len(k[0]) >= 2]
    mt = {}
    for k in cases:
        if k[3] > 1:
            mt.setdefault(k[3], []).append(k)
    plan = []
    if ctx.quick:
        plan += [_draw(rng, k) for k in rng.sample(orig, min(len(orig), 260))]
        # the small-eigenvalue corner must be present in every run (that is where finding F11 lives)
        for k in rng.sample([k for k in orig if len(k[0]) >= 2], 24):
            plan.append(_draw(rng, k, scaling=rng.choice([0, -1]), dec=rng.choice([-8, -6, -5, -3, -2])))
        n_new, n_loc, n_deg, n_hist, n_k4, n_unc = 80, 112, 64, 40, 30, 16
        n_mt = {2: 16, 3: 16, 5: 16, 16: 10}
    else:
        plan += [_draw(rng, k) for k in rng.sample(orig, min(len(orig), 8500))]
        plan += [_draw(rng, rng.choice(orig)) for _ in range(max(0, 8500 - len(plan)))]
        n_new, n_loc, n_deg, n_hist, n_k4, n_unc = 2000, 2100, 900, 500, 400, 200
        n_mt = {2: 300, 3: 300, 5: 300, 16: 150, 24: 80}
    # K1 / K2: the added base shapes (n = p +- 1, single column, block boundaries)
    by_shape = {}
    for k in newshape:
        by_shape.setdefault((k[1], k[2]), []).append(k)
    for i in range(n_new):
        sh = sorted(by_shape)[i % len(by_shape)]
        plan.append(_draw(rng, rng.choice(by_shape[sh])))
    # K3: column locations 1e3 .. 1e8 x the column spread, every scaling option (the sdev-based ones twice)
    locs = [4, 6, 7, 8, 7, 8, 6, 8]
    scs = [1, 3, 1, 3, 0, 2, 4, 5, 1, 3, -1, 0, 1, 3]
    for i in range(n_loc):
        k = rng.choice(multi if i % 4 else base)
        sc = scs[i % len(scs)]
        plan.append(_draw(rng, k, scaling=sc, loc=locs[(i // len(scs) + i) % len(locs)], dec=rng.randint(-3, 3) if sc in (-1, 0) else rng.randint(0, 3)))
    # K3 for the option that does not centre: ordinary offsets stay in the data (truth: Jacobi on X'X)
    for i in range(n_unc):
        plan.append(_draw(rng, rng.choice(base), scaling=-1, deg=4, dec=rng.randint(-6, 5)))
    # K5 / K8: duplicate objects, duplicate variables, constant column at a non-representable value, all offsets non-representable
    for i in range(n_deg):
        plan.append(_draw(rng, rng.choice(multi if i % 3 else base), deg=1 + i % 4, scaling=[0, 1, 2, 3, 4, 5, 0, 1][(i // 4) % 8]))
    # K7: in-process histories
    for i in range(n_hist):
        plan.append(_draw(rng, rng.choice(base), hist=1, loc=(7 if i % 5 == 0 else 0), scaling=(1 if i % 5 == 0 else rng.choice(SCALINGS))))
    # K4: large magnitudes for the normalising options
    for i in range(n_k4):
        plan.append(_draw(rng, rng.choice(base), scaling=1 + i % 5, dec=4 + i % 3))
    # K6 (+K2 slice boundaries): forced processor counts on the MT shapes
    for np_, cnt in sorted(n_mt.items()):
        if not mt.get(np_):
            raise InfraError("Spectral GEN emitted no shape for nproc %d" % np_)
        by_shape = {}
        for k in mt[np_]:
            by_shape.setdefault((k[1], k[2]), []).append(k)
        shapes = sorted(by_shape)
        for i in range(cnt):
            sh = shapes[i % len(shapes)] if i < 2 * len(shapes) or ctx.quick else rng.choice(shapes)
            ks = by_shape[sh]
            k = rng.choice([q for q in ks if len(q[0]) >= 2] or ks)
            over = {}
            if i % 6 == 4:
                over = dict(scaling=rng.choice([1, 3]), loc=rng.choice([6, 7, 8]))
            elif i % 6 == 5:
                over = dict(hist=1)
            d = _draw(rng, k, **over)
            if d["scaling"] in (-1, 0) and d["dec"] < -3 and np_ >= 16:
                d["dec"] = -3        # keep the iteration counts (and with them nproc threads per iteration) moderate for the widest thread counts
            plan.append(d)
    seeds = set()
    for d in plan:
        while d["seed"] in seeds:
            d["seed"] = rng.randrange(1, 2 ** 30)
        seeds.add(d["seed"])
    return plan


def _write_cases(path, plan):
    with open(path, "w") as f:
        for d in plan:
            f.write("%d %d %d %d %d %d %d %d %d %d %d %s\n" % (d["n"], d["c"], d["scaling"], d["dec"], d["tail"], d["seed"], d["nproc"], d["loc"], d["deg"], d["hist"],
                                                            len(d["sig2"]), " ".join(str(x) for x in d["sig2"])))


def _cost(d):
    return (1 + d["hist"]) * (1.0 if d["nproc"] == 1 else 12.0 * d["nproc"] ** 0.5) * (1 + d["n"] * d["c"] / 600.0)


def _record(ctx, exe, rd, plan, parts=6, timeout=2400):
    parts = max(1, min(parts, len(plan) // 20 or 1))
    # balance the parts by estimated cost (the MT cases spawn nproc threads per NIPALS iteration)
    bins = [[0.0, []] for _ in range(parts)]
    for d in sorted(plan, key=_cost, reverse=True):
        b = min(bins, key=lambda x: x[0])
        b[0] += _cost(d)
        b[1].append(d)
    jobs = []
    for i, (_, sub) in enumerate(bins):
        cf = os.path.join(rd, "cases_%d.txt" % i)
        _write_cases(cf, sub)
        jobs.append([os.path.join(rd, "c02_%d.ndjson" % i), "cases", cf])
    res = hrun.run_many(exe, jobs, timeout=timeout, workers=W)
    chunks = []
    for j, h in zip(jobs, res):
        ev = hrun.read_ndjson(j[0])
        if h.san:
            last = next((e for e in reversed(ev) if e.get("e") == "Case"), {})
            ctx.violation("PCA:spectral:%s" % h.san, "sanitizer report in case %s:\n%s" % (last, h.err[:1500]), dict(kind="case", case=last))
        # a fit that hangs outside the NIPALS loops (no iteration budget) on a changed tree ends as a time-out / watchdog: not a verdict (machine load looks the
        # same), but it must not pre-empt one either - deferred like the vacuity findings (_deferred_infra), the complete recorded cases are still judged
        deferred = ctx.steps.setdefault("_deferred_infra", [])
        if h.rc != 0 and not h.san and not h.timed_out:
            raise InfraError("c02 harness failed rc=%d\n%s" % (h.rc, h.err[-800:]))
        done = any(e.get("e") == "Summary" for e in ev)
        blocks = tlc.split_blocks([e for e in ev if e.get("e") != "Summary"]) if ev else []
        if h.timed_out:
            deferred.append("c02 harness timed out")
        elif not done:
            if not h.san:
                raise InfraError("c02 harness wrote no Summary")
        if not done and blocks:
            blocks = blocks[:-1]              # the case that was running when the harness process ended
        if any(e.get("e") == "Abort" and e.get("why") == "watchdog" for b in blocks for e in b):
            deferred.append("c02 harness: wall-clock watchdog fired without the iteration budget (machine load)")
            blocks = [b for b in blocks if not any(e.get("e") == "Abort" and e.get("why") == "watchdog" for e in b)]
        if blocks:
            chunks.append([e for b in blocks for e in b])
    if not chunks:
        raise InfraError("c02 harness recorded no complete case (%s)" % "; ".join(ctx.steps.get("_deferred_infra", [])[:2]))
    return chunks


def _case_of(block):
    case = next((e for e in block if e.get("e") == "Case"), {})
    spec = next((e for e in block if e.get("e") == "Spectrum"), {})
    return case, spec.get("sig2", [])


def _loc_of(block):
    return next((e["loc12"] for e in block if e.get("e") == "Loc"), 0)


def _tags(case, d, block):
    """input classes of one executed case (INPUT-CLASSES.md): the shape tags TLC computed + what the drawn parameters say"""
    t = list(d.get("tags", []))
    t.append("K6:nproc%d" % case["nproc"])
    L, r = case["L"], case["L"] + case["tail"]
    t.append("K1:npc=1" if L == 1 else ("K1:npc=rank" if L == r else "K1:1<npc<rank"))
    if case["loc"]:
        t.append("K3:offset/sdev~1e%d" % case["loc"])
        t.append("K3:loc-scaling%d" % case["scaling"])
    elif case["scaling"] == -1 and case["src"] == "jacobi":
        t.append("K3:uncentred-offsets")
    else:
        t.append("K3:offset/spread<=1e3")
    if case["dec"] <= -6:
        t.append("K4:magnitude<=1e-6")
    if case["dec"] >= 4:
        t.append("K4:magnitude>=1e4" + ("-normalising-option" if case["scaling"] >= 1 else ""))
    if case["deg"] in (3, 4):
        t.append("K5:non-representable-constants")
    if case["hist"]:
        t.append("K7:other-fits-before,refit-after")
        if any(e.get("e") == "Reuse" for e in block):
            t.append("K7:fit-into-used-model(extra)")
    if case["deg"]:
        t.append({1: "K8:duplicate-rows", 2: "K8:duplicate-columns", 3: "K8:constant-column", 4: "K5:offsets-0.1,1/3,0.7"}[case["deg"]])
    return t


REQUIRED_CLASSES = ["K1:tall", "K1:wide", "K1:square", "K1:n=p+-1", "K1:single-column", "K1:npc=1", "K1:npc=rank", "K1:1<npc<rank",
                    "K2:cols=4k", "K2:cols=4k+1", "K2:cols=4k-1", "K2:rows=4k", "K2:rows~32", "K2:cols=k*nproc+1", "K2:cols=k*nproc-1", "K2:rows=k*nproc+1", "K2:rows=k*nproc-1",
                    "K3:offset/sdev~1e6", "K3:offset/sdev~1e7", "K3:offset/sdev~1e8", "K3:loc-scaling1", "K3:loc-scaling3", "K3:loc-scaling0", "K3:loc-scaling2", "K3:loc-scaling4",
                    "K3:loc-scaling5", "K3:loc-scaling-1", "K3:uncentred-offsets", "K4:magnitude<=1e-6", "K4:magnitude>=1e4", "K4:magnitude>=1e4-normalising-option",
                    "K5:non-representable-constants", "K6:nproc1", "K6:nproc2", "K6:nproc3", "K6:nproc5", "K6:nproc16", "K6:cols<nproc", "K6:rows<nproc",
                    "K6:cols-ragged-last-slice", "K6:rows-ragged-last-slice", "K6:cols-idle-worker", "K7:other-fits-before,refit-after",
                    "K8:duplicate-rows", "K8:duplicate-columns", "K8:constant-column"]


def _account(ctx, chunks, plan_by_seed):
    ncase = ndrop = 0
    worst = dict(axis_score=0.0, axis_loading=0.0, pair=0.0, eigen=0.0, oracle=0, axis_loc=0.0, pair_loc=0.0, axis_mt=0.0)
    wcase = {}
    drops = {}
    kern_calls = {}
    deferred = ctx.steps.setdefault("_deferred_infra", [])   # vacuity findings are raised AFTER the trace validation: a broken tree must surface as its verdict, not as exit 2
    for ev in chunks:
        for b in tlc.split_blocks(ev):
            case, sig2 = _case_of(b)
            if not case:
                continue
            dr = next((e for e in b if e["e"] == "Dropped"), None)
            if dr:
                ndrop += 1
                drops[dr["why"]] = drops.get(dr["why"], 0) + 1
                continue
            ncase += 1
            d = plan_by_seed.get(case["seed"], {})
            m = _ncmp(sig2)
            loc12 = _loc_of(b)
            ctx.case((tuple(d.get("sig2", sig2)), case["n"], case["c"], case["scaling"], case["dec"], case["nproc"], case["loc"], case["deg"], case["hist"]), m >= 2)
            for t in _tags(case, d, b):
                ctx.cls(t)
            if case["nproc"] > 1:
                sites = {e["site"]: e["calls"] for e in b if e["e"] == "Kern"}
                if not any(e["e"] == "Abort" for e in b) and any(e["e"] == "Axis" for e in b) and set(sites) != {"vm", "mv"}:
                    deferred.append("c02: forced nproc=%d but the slice hook (H3) did not fire in both MT kernels of the fit under test: %s (case %s)" % (case["nproc"], sites, case))
                for s_, c_ in sites.items():
                    kern_calls[s_] = kern_calls.get(s_, 0) + c_
            if any(e["e"] == "Axis" for e in b) and not any(e["e"] == "Stop" for e in b):
                deferred.append("c02: the iteration hook (H4) did not fire in the fit under test (case %s)" % case)
            bt, bp = _bounds(sig2, case["n"], loc12=loc12)
            for e in b:
                if e["e"] == "Axis" and e["k"] <= m:
                    k = e["k"] - 1
                    rs = (("axis_score", e["terr"] * 1e-9 / bt[k]), ("axis_loading", e["perr"] * 1e-9 / bp[k]),
                          ("eigen", max(e["evalErr"], e["vErr"]) / _evtol(case["n"], sig2[k], len(sig2), sig2, loc12)))
                    if case["loc"]:
                        rs += (("axis_loc", max(e["terr"] * 1e-9 / bt[k], e["perr"] * 1e-9 / bp[k])),)
                    if case["nproc"] > 1:
                        rs += (("axis_mt", max(e["terr"] * 1e-9 / bt[k], e["perr"] * 1e-9 / bp[k])),)
                    for nm, r in rs:
                        if r > worst[nm]:
                            worst[nm] = r
                            wcase[nm] = dict(case=case, event=e)
                elif e["e"] in ("Pair", "Scale", "Hist"):
                    for k in range(min(m, len(e["terr"]))):
                        r = max(e["terr"][k] * 1e-9 / (2 * bt[k]), e["perr"][k] * 1e-9 / (2 * bp[k]))
                        for nm in ("pair",) + (("pair_loc",) if case["loc"] else ()):
                            if r > worst[nm]:
                                worst[nm] = r
                                wcase[nm] = dict(case=case, event=e)
                elif e["e"] == "Oracle":
                    worst["oracle"] = max(worst["oracle"], e["err"])
    if ncase == 0:
        raise InfraError("c02 harness produced no cases")
    cs = [_case_of(b) for ev in chunks for b in tlc.split_blocks(ev) if not any(e["e"] == "Dropped" for e in b)]
    classes = dict(two_or_more_compared=sum(1 for c, s2 in cs if c and _ncmp(s2) >= 2), small_eigenvalues=sum(1 for c, s2 in cs if c and c["dec"] <= -2), tiny_magnitude=sum(1 for c, s2 in cs if c and c["dec"] <= -6), large_magnitude=sum(1 for c, s2 in cs if c and c["dec"] >= 4),
                   rotated=sum(1 for ev in chunks for e in ev if e["e"] == "Pair" and e["kind"] == "rot"), shrunk=sum(1 for ev in chunks for e in ev if e["e"] == "Scale" and e["cexp"] < 0),
                   refits=sum(1 for ev in chunks for e in ev if e["e"] == "Hist"), mt_kernel_events=sum(1 for ev in chunks for e in ev if e["e"] == "Kern"),
                   stop_events=sum(1 for ev in chunks for e in ev if e["e"] == "Stop"), loc_events=sum(1 for ev in chunks for e in ev if e["e"] == "Loc"))
    for sc in range(-1, 6):
        classes["scaling_%d" % sc] = sum(1 for c, s2 in cs if c and c["scaling"] == sc)
    ctx.steps["classes"] = classes
    missing = [k for k, v in classes.items() if v == 0] + [k for k in REQUIRED_CLASSES if not ctx.classes.get(k)]
    if not ctx.quick and not ctx.classes.get("K6:nproc24"):
        missing.append("K6:nproc24")
    if missing:
        deferred.append("c02 recording does not exercise: %s (vacuous antecedents)" % missing)
    ctx.steps["worst_observed_over_bound"] = {k: (round(v, 4) if isinstance(v, float) else v) for k, v in worst.items()}
    ctx.steps["worst_cases"] = wcase
    ctx.steps["cases"] = dict(run=ncase, dropped_outside_quantifier=ndrop, dropped_why=drops)
    ctx.steps["mt_kernel_calls_in_fits_under_test"] = kern_calls
    return ncase, ndrop, worst


def _name(block, ev):
    case, sig2 = _case_of(block)
    m = _ncmp(sig2)
    n = case.get("n", 2)
    loc12 = _loc_of(block)
    e = ev.get("e")
    if e == "Diverge":
        return "no-convergence", "NIPALS loop of %s did not converge within %s iterations (component %s)" % (ev.get("site"), ev.get("it"), ev.get("comp"))
    if e == "Abort":
        return "no-convergence" if ev.get("why") == "iteration-budget" else "crash:%s" % ev.get("why"), "fit did not finish (%s)" % ev
    if e == "Oracle":
        return "oracle", "oracles disagree: %s" % ev
    bt, bp = _bounds(sig2, n, loc12=loc12)
    if e == "Axis":
        k = ev["k"]
        if ev["match"] != k:
            return "order", "component %d sits on true axis %d" % (k, ev["match"])
        if k <= m and max(ev["evalErr"], ev["vErr"]) > _evtol(n, sig2[k - 1], len(sig2), sig2, loc12):
            return "eigenvalue", "component %d: t't off by %.3g, explained variance off by %.3g (relative; tolerance %.3g)" % (
                k, ev["evalErr"] * 1e-9, ev["vErr"] * 1e-9, _evtol(n, sig2[k - 1], len(sig2), sig2, loc12) * 1e-9)
        if k <= m:
            return "axis", "component %d: score error %.3g (bound %.3g), loading error %.3g (bound %.3g) = %.1fx the criterion-implied bound" % (
                k, ev["terr"] * 1e-9, bt[k - 1], ev["perr"] * 1e-9, bp[k - 1], max(ev["terr"] * 1e-9 / bt[k - 1], ev["perr"] * 1e-9 / bp[k - 1]))
    if e in ("Pair", "Scale", "Hist", "Reuse"):
        kind = ev.get("kind") or ("scale:1e%d" % ev["cexp"] if e == "Scale" else "refit-after-other-fits" if e == "Hist" else "fit-into-used-model")
        r = max([max(ev["terr"][k] * 1e-9 / (2 * bt[k]), ev["perr"][k] * 1e-9 / (2 * bp[k])) for k in range(min(m, len(ev["terr"])))] or [0])
        if r <= 1 and e == "Scale":
            return "equivariance:%s" % kind, "explained variances of PCA(cX) differ from those of PCA(X) by %s (relative, 1e-9 units; allowed 2 x TolEig)" % ev.get("verr")
        return "equivariance:%s" % kind, "paired run (%s) differs from the transformed original by %.1fx the allowed 2 x bound: scores %s loadings %s (1e-9 units)" % (
            kind, r, ev["terr"], ev["perr"])
    return "trace", "event %s rejected" % ev


def _split_ext(chunks):
    """main trace (statement + Impl layer) and the Ext trace (Prep / Reuse with the context TLC needs to judge them): every Prep first,
    then the Reuse events of a few histories (a rejected block ends the examination of its own events only)"""
    main = [[e for e in ev if e.get("e") not in EXT_EVENTS] for ev in chunks]
    ctxev = ("Reset", "Case", "Spectrum", "Loc", "Oracle")
    prep, reuse = [], []
    for ev in chunks:
        for b in tlc.split_blocks(ev):
            if not any(e.get("e") == "Oracle" for e in b):
                continue
            if any(e.get("e") == "Prep" for e in b):
                prep += [e for e in b if e.get("e") in ctxev + ("Prep",)]
            if any(e.get("e") == "Reuse" for e in b) and sum(1 for e in reuse if e["e"] == "Reuse") < 3:
                reuse += [e for e in b if e.get("e") in ctxev + ("Reuse",)]
    return main, prep + reuse


def _replay_of(case, d, ev):
    return dict(kind="case", n=case.get("n"), c=case.get("c"), scaling=case.get("scaling"), dec=case.get("dec"), tail=case.get("tail"),
                seed=case.get("seed"), nproc=case.get("nproc", 1), loc=case.get("loc", 0), deg=case.get("deg", 0), hist=case.get("hist", 0), sig2=d.get("sig2"), event=ev)


def _validate(ctx, chunks, plan_by_seed, label, max_rounds, extra_jobs=(), late_jobs=()):
    """main trace chunks, the Ext trace and (extra_jobs) the binding self-tests share one pool of TLC processes"""
    def on_reject(ev, idx, block):
        case, sig2 = _case_of(block)
        if ev.get("e") in GEN_EVENTS:
            raise InfraError("C02 generator/recorder left the quantifier or the event grammar: %s rejected in case %s" % (ev, case))
        nm, what = _name(block, ev)
        if nm == "oracle":
            raise InfraError("C02 oracles (construction / Jacobi / dsyev) disagree on case %s: %s" % (case, ev))
        d = plan_by_seed.get(case.get("seed"), {})
        ctx.violation("PCA:spectral:%s" % nm, "n=%s c=%s scaling=%s decade=%s nproc=%s loc=%s deg=%s hist=%s spectrum=%s seed=%s: %s" % (
            case.get("n"), case.get("c"), case.get("scaling"), case.get("dec"), case.get("nproc"), case.get("loc"), case.get("deg"), case.get("hist"),
            d.get("sig2", sig2), case.get("seed"), what), _replay_of(case, d, ev))

    def one(args):
        i, ev = args
        return trace.check_trace(ctx, "TracePcaSpectral", "Trace_PcaSpectral.cfg", "Trace_PcaSpectral_prop.cfg", ev, on_reject, drop="block",
                                 max_rounds=max_rounds, label="%s_%d" % (label, i), timeout=1500)
    main, ext = _split_ext(chunks)

    # Ext layer: behaviour the statement of C02 does not cover - TLC judges, the check only reports
    def on_reject_ext(ev, idx, block):
        case, sig2 = _case_of(block)
        if ev.get("e") not in EXT_EVENTS:
            raise InfraError("C02 Ext trace: %s rejected (case %s)" % (ev, case))
        if ev["e"] == "Prep":
            sig, what = "PCA:prep:stored-statistics", ("model->colaverage / colscaling differ from the two-pass long-double statistics of the input by %.3g / %.3g (relative; tolerance 1e-6) "
                                                       "on n=%s c=%s scaling=%s loc=%s seed=%s" % (ev["avgErr"] * 1e-9, ev["sclErr"] * 1e-9, case.get("n"), case.get("c"), case.get("scaling"), case.get("loc"), case.get("seed")))
        else:
            sig, what = "PCA:reuse:fit-into-used-model", ("PCA() into a PCAMODEL that already holds a fit of other data of the same shape does not give the model of the new data "
                                                          "(%s; n=%s c=%s scaling=%s seed=%s): the stored column averages/scalings of the old fit are applied" % (
                                                              _name(block, ev)[1], case.get("n"), case.get("c"), case.get("scaling"), case.get("seed")))
        dup = sig in ctx.extras
        ctx.extra(sig, what)
        return "dup" if dup else None
    eb = tlc.split_blocks(ext) if ext else []
    eparts = [[e for b in eb[i:i + 2000] for e in b] for i in range(0, len(eb), 2000)]

    def ext_job(i, part):
        trace.check_trace(ctx, "TracePcaSpectral", "Trace_PcaSpectral_prop.cfg", "Trace_PcaSpectral_prop.cfg", part, on_reject_ext, drop="block", max_rounds=4, label="%s_ext_%d" % (label, i), timeout=900)
    with ThreadPoolExecutor(W + 2) as ex:
        fm = [ex.submit(one, a) for a in enumerate(main)]
        fo = [ex.submit(ext_job, i, part) for i, part in enumerate(eparts)] + [ex.submit(j) for j in extra_jobs]
        rej = sum(f.result() for f in fm)
        fo += [ex.submit(j) for j in late_jobs]          # jobs that need to know whether violations were reported
        for f in fo:
            f.result()
    return rej


def _binding_jobs(ctx, chunks):
    """binding self-tests (one per event kind: a corrupted recorded field must be rejected by TLC) as callables for the shared pool"""
    main, ext = _split_ext(chunks)
    allb = [b for ch in main for b in tlc.split_blocks(ch)]
    done = [b for b in allb if any(e["e"] == "Scale" for e in b) and not any(e["e"] in ("Abort", "Diverge") for e in b)]
    if not done:
        if ctx.violations:
            ctx.note("binding self-test skipped: no completed case in the recording (violations reported above)")
            return [], []
        raise InfraError("c02: no completed case for the binding self-tests")

    def pick(pred, n=6):
        return [e for b in [b for b in done if pred(b)][:n] for e in b]

    def field(kind, name, value, pred=lambda e: True):
        def corrupt(evs):
            for e in evs:
                if e["e"] == kind and pred(e):
                    e[name] = value(e[name]) if callable(value) else value
                    return True
            return False
        return corrupt
    big = lambda v: min(2000000000, max(1, v) * 1000000)
    PROP, IMPL = "Trace_PcaSpectral_prop.cfg", "Trace_PcaSpectral.cfg"
    plain = pick(lambda b: True, 8)
    isloc = lambda b: any(e["e"] == "Loc" for e in b)
    ismt = lambda b: any(e["e"] == "Kern" for e in b)
    ishist = lambda b: any(e["e"] == "Hist" for e in b)
    tests = [
        ("binding_score_error_x1e6", PROP, plain, field("Axis", "terr", big, lambda e: e["k"] == 1)),
        ("binding_axis_order", PROP, plain, field("Axis", "match", 2, lambda e: e["k"] == 1)),
        ("binding_case_nproc", PROP, plain, field("Case", "nproc", 0)),
        ("binding_stop_criterion", IMPL, plain, field("Stop", "conv", 5000, lambda e: e["k"] == 1)),
        ("binding_start_column", IMPL, plain, field("Stop", "start", 50000000, lambda e: e["k"] == 1)),
        ("binding_loc_ratio", PROP, pick(isloc), field("Loc", "ratio", 2000000000)),
        ("binding_kern_lost_column", IMPL, pick(ismt), lambda evs: _corrupt_kern(evs)),
        ("binding_hist_not_identical", IMPL, pick(ishist), field("Hist", "same", 0)),
        ("binding_hist_error", PROP, pick(ishist), field("Hist", "perr", lambda v: [2000000000] * len(v))),
    ]
    eb = tlc.split_blocks(ext)
    exte = [e for b in eb[:6] + [b for b in eb if any(e["e"] == "Reuse" for e in b)][:2] for e in b]
    tests.append(("binding_prep_scale", PROP, exte, field("Prep", "sclErr", 1000000)))
    if any(e["e"] == "Reuse" for e in exte):
        tests.append(("binding_reuse_error", PROP, exte, field("Reuse", "perr", lambda v: [2000000000] * len(v))))
    for nm, cfg, evs, cor in tests:
        if not evs:
            # (cases that die on a changed tree leave a class of blocks empty: judged after the trace validation, like the other vacuity findings)
            ctx.steps.setdefault("_deferred_infra", []).append("c02: no recorded block for self-test %s" % nm)
    tests = [t for t in tests if t[2]]

    jobs = [(lambda t=t: trace.binding_selftest(ctx, "TracePcaSpectral", t[1], t[2], t[3], t[0])) for t in tests]
    def sandwich():
        # location term: the python mirror used for reporting / naming and the bound TLC computes agree (sandwich).  The recorded terms are
        # small against the criterion term (1e-8 x spread at most), so the test plants a large one (loc12 = 5e7, i.e. 5e-5) into a recorded
        # location-class block: a score error of 0.6 x the mirrored bound must be accepted, 1.7 x rejected, and without the planted term rejected
        cand = [b for b in done if isloc(b) and _ncmp(_case_of(b)[1]) >= 1]
        if not cand:
            raise InfraError("c02: no location-class block for the sandwich self-test")
        blk = None
        for b in cand[:4]:       # the recorded block itself must be acceptable (it is not when the tree under test violates the property on it)
            if not ctx.violations or tlc.validate_trace("TracePcaSpectral", PROP, b)[0]:     # no violation reported: every block was accepted by the main validation
                blk = b
                break
        if blk is None:
            if ctx.violations:
                ctx.note("location sandwich self-test skipped: the recorded location-class blocks are themselves rejected (violations reported above)")
                return
            raise InfraError("c02: recorded location-class blocks are rejected on their own although no violation was reported")
        case, sig2 = _case_of(blk)
        planted = 50000000
        b1, _ = _bounds(sig2, case["n"], loc12=planted)
        b0, _ = _bounds(sig2, case["n"])
        for f, loc12, want in ((0.6, planted, True), (1.7, planted, False), (0.6, 0, False)):
            if not want and loc12 == 0 and 0.6 * b1[0] <= b0[0]:
                raise InfraError("c02: planted location term does not dominate (%.3g vs %.3g)" % (b1[0], b0[0]))
            ev = copy.deepcopy(blk)
            for e in ev:
                if e["e"] == "Loc":
                    e["loc12"] = loc12
                if e["e"] == "Axis" and e["k"] == 1:
                    e["terr"] = int(f * b1[0] * 1e9)
            ok, n_, r = tlc.validate_trace("TracePcaSpectral", PROP, ev)
            if ok != want:
                raise InfraError("c02: location bound of the spec and its mirror disagree (score error %.1f x the mirrored bound with loc12=%d %s)" % (f, loc12, "rejected" if want else "accepted"))
        ctx.steps["binding_loc_sandwich"] = dict(ok=True, planted_loc12=planted, bound_with=b1[0], bound_without=b0[0])
    return jobs, [sandwich]


def _corrupt_kern(evs):
    for e in evs:
        if e["e"] == "Kern" and e["site"] == "vm" and e["len"] >= 2:
            for w in range(len(e["to"]) - 1, -1, -1):       # the last non-empty slice loses its last column
                if e["to"][w] > e["from"][w]:
                    e["to"][w] -= 1
                    return True
    return False


def run(ctx):
    ctx.assumptions += [
        "spectra, shapes and forced processor counts are enumerated by TLC; orthogonal factors, offsets, scaling option, data decade (1e-8..1e6 for scalings 0/-1 - absolute magnitude of the data, further rescaled by 1e+-3 in the paired runs - and 1..1e6 otherwise), tail, location / degenerate / history class are sampled (seeded): level exploration",
        "truth: the constructed SVD (scaling 0/-1, ordinary offsets) or the harness's long-double cyclic Jacobi solver on E'E (scalings 1..5, location class, un-centred offsets), each case cross-checked against LAPACK dsyev and the construction (Oracle event, 1e-6 of lambda_1)",
        "E is the preprocessed matrix computed by the harness in long double from the documented definition of the option (two-pass mean and sdev, rms of the raw column, sqrt(sdev), range, mean); inputs whose column scale falls into the library's fit/apply guard zone (0 < |scale| < 1.2e-2) or that contain the missing-value code are not generated",
        "bounds: K = 30, eps = sqrt(n*1e-10); loadings eps*sqrt(rho)/(1-rho), scores eps*rho/(1-rho), floor 0.05, leakage of earlier loading errors (LedgerArith.tla); eigenvalues TolEig relative + 1e-9*ss0",
        "location class only: every bound and eigenvalue tolerance additionally gets CLoc (n+1) loc sigma_1/sigma_k, CLoc = 12, loc = 2^-53 sqrt(n SUM_j (mean_j/scale_j)^2)/sigma_1 logged from the input alone (Pca.tla LocBase9/LocK9/BoundsPTL); all other classes keep exactly the bounds they had",
        "components are judged up to the first squared singular ratio > 0.7225 (the property's quantifier), at most 6",
        "forced processor counts (hook H2) replace the detected count; for nproc > 1 the slice hook (H3) must fire in both MT kernels of the fit under test",
    ]
    cases = _model_and_cases(ctx)
    plan = _plan(ctx, cases)
    plan_by_seed = {d["seed"]: d for d in plan}
    lib = build.build_lib("san")
    exe = build.build_harness("c02", ["c02_drv.c"], lib)
    rd = tlc.rundir()
    try:
        chunks = _record(ctx, exe, rd, plan, parts=W if ctx.quick else 16)
        ncase, ndrop, worst = _account(ctx, chunks, plan_by_seed)
        ctx.note("recorded %d cases (%d dropped as outside the quantifier); worst observed/bound: %s" % (ncase, ndrop, ctx.steps["worst_observed_over_bound"]))
        bl = tlc.split_blocks(chunks[0])
        for b in bl[:1] + [b for b in bl if any(e["e"] == "Loc" for e in b)][:1] + [b for b in bl if any(e["e"] == "Kern" for e in b)][:1]:
            ctx.sample(b)
        ctx.cov["rule"] = ("every admissible spectrum (length <= 5 over {1,2,3,4,5,8,12,20,40,100,400,2000}, squared ratios <= 0.7225) x shape x forced processor count emitted by TLC; "
                           "%s; the harness builds data with exactly that SVD under a drawn scaling option (-1..5), decade, tail, location class (offset/sdev up to 1e8), degenerate factor "
                           "(duplicate rows/columns, constant column) and in-process history; one evaluation = one case (base fit + 4..6 paired fits) validated by TLC; "
                           "distinct = (spectrum, n, c, scaling, decade, nproc, loc, deg, hist); non-trivial = at least 2 compared components"
                           % ("quick tier: a seeded stratified sample (284 of the original class, 80 on the added shapes, 128 location, 64 degenerate, 40 histories, 30 large magnitudes, 16 un-centred offsets, 58 multithreaded)"
                              if ctx.quick else "thorough tier: a seeded stratified sample (8,500 of the original class over the 11 original shapes, 2,000 on the 14 added shapes, 2,100 location, 900 degenerate, 500 histories, 400 large magnitudes, 200 un-centred offsets, 1,130 multithreaded)"))
        bj, late = _binding_jobs(ctx, chunks)
        rej = _validate(ctx, chunks, plan_by_seed, "trace_spectral", 4 if ctx.quick else 10, extra_jobs=bj, late_jobs=late)
        ctx.traces(max(0, ncase - rej))
        deferred = ctx.steps.pop("_deferred_infra", [])
        if deferred:
            raise InfraError(deferred[0] + (" (+%d more)" % (len(deferred) - 1) if len(deferred) > 1 else ""))
    finally:
        shutil.rmtree(rd, ignore_errors=True)


def replay(ctx, body):
    case = body.get("case") or {}
    if case.get("kind") != "case" or not case.get("sig2"):
        return run(ctx)
    lib = build.build_lib("san")
    exe = build.build_harness("c02", ["c02_drv.c"], lib)
    rd = tlc.rundir()
    try:
        out = os.path.join(rd, "replay.ndjson")
        args = [out, "one", case["n"], case["c"], case["scaling"], case["dec"], case.get("tail", 0), case["seed"], case.get("nproc", 1),
                case.get("loc", 0), case.get("deg", 0), case.get("hist", 0), len(case["sig2"])] + list(case["sig2"])
        h = hrun.run(exe, args, timeout=900)
        ev = [e for e in hrun.read_ndjson(out) if e.get("e") != "Summary"]
        if h.san:
            ctx.violation("PCA:spectral:%s" % h.san, h.err[:1500], case)
        if not ev:
            raise InfraError("replay produced no events: %s" % h.err[-500:])
        plan_by_seed = {case["seed"]: dict(sig2=case["sig2"])}
        ctx.case(("replay", tuple(case["sig2"]), case["n"], case["c"], case["scaling"], case["dec"], case.get("nproc", 1), case.get("loc", 0), case.get("deg", 0), case.get("hist", 0)))
        ctx.case(("replay-seed", case["seed"]))
        ctx.sample(ev)
        ctx.cov["rule"] = "replay of one recorded case (spectrum, n, c, scaling, decade, tail, seed, nproc, loc, deg, hist) refitted on the current tree"
        rej = _validate(ctx, [ev], plan_by_seed, "replay", 3)
        ctx.traces(0 if rej else 1)
    finally:
        shutil.rmtree(rd, ignore_errors=True)
