"""C05 - cross-validation predictions are out-of-sample and cover every object once.

(M)  CvPartition.tla: the rejection-sampling fold generator with the RNG draw nondeterministic (every stream), splits and
     the per-group merge: partition / disjoint+exhaustive splits / every object predicted once, for all n, groups; fair
     termination of the rejection loop; the same machine under the id-renaming VIEW (all draws still generated, one
     representative per renaming class kept) for EVERY (n, groups) of the quantifier, n <= 30.
     CvLabels.tla: label-driven folds for ALL label vectors (gaps, unbalanced).
     CvOrch.tla: batch orchestration (bootstrap: full batches; LOO/k-fold: guarded batches): every work item once, no merge
     before join, for all (items, threads) and every completion order.
     CvBoot.tla: the bootstrap accumulators (per-worker sums and visit counters, merge in thread order, division by the
     visit counter) over batches x completion orders x two CALLS in one process: the reported average is the exact mean of
     the per-pass predictions of THIS call whatever the thread count and whatever the outputs held (Mode "fresh"); the
     stale-accumulator and requested-iterations variants are refuted by TLC (negative configurations).
     CvDomain.tla: the property's quantifier, the learners' domains and the input/history classes K1..K10 as TLA+
     predicates; CvCases.tla: stratified case families; TLC emits the chains that the driver replays.
(C)  c05_drv drives the real drivers.  tts: the public train_test_split() for every n x test fraction k/8;  helpers: the
     two public helpers with x[i] = i for all (n, groups);  cv: Bootstrap / LOO / KFoldCV for PLS, MLR, LDA on random data,
     hook H5 records the fold matrices, the row ids really copied into train/test and the create/join/merge order; the
     harness refits through the public API on exactly the logged training ids and re-runs with only y[i] changed;  labels:
     TLC-generated label vectors replayed through KFoldCV;  cases: the TLC-generated chains of CvCases.tla (thread counts
     1..8 x scheme x learner, iterations 1..12, group counts 2..n, K1 shapes, K3/K4/K5/K8 data, K10 label alphabets, K6
     kernel processor counts, x/y autoscaling, own-response insensitivity for EVERY object, K7 histories: several runs in ONE
     process into the same already sized outputs), each chain on 2 (quick) / 3 (thorough) different data sets; helpers / tts also with
     fold matrix and split outputs already sized by an earlier use.  TLC validates every recorded block against TraceCv.tla, which itself re-checks
     that each case lies inside the quantifier (CvDomain!Admissible).

Clause table (statement of C05 -> deciding TLA+ definition -> event that carries it):
  "leave-one-out, user-grouped k-fold and bootstrap ... for every learner (PLS, MLR, LDA)"
        -> CvDomain!Admissible + CvCases!Required (every scheme x learner x thread count must be emitted) -> Run
  "the value predicted for an object ... equals the prediction of a model refitted through the public API on exactly the
   other folds"        -> TraceCv!TPred: Ev.refit <= Tol                                  -> Pred.refit (harness refit on the logged ids)
  "does not change when that object's own response is changed"
        -> TraceCv!TPred: Ev.sens in {0} (every object when run.sensall = 1), TEnd: "Sens" in seen -> Pred.sens
  "leave-one-out ... never saw that object" (row routing as the routine did it)
        -> TraceCv!TLooSplit: test = <<m>>, CvFolds!SplitIsSound(train, test, n) (Prop); train = all j # m in order, positions 0..n-2 (Impl);
           TPred: all n models logged                                                        -> LooSplit (hooks loo_train / loo_test)
  "each object index appears in exactly one group"
        -> CvFolds!IsPartition (model: CvPartition!Partition / NoDupEver, CvLabels!LabelFolds; trace: TGroups)   -> Groups.gid
  "training and test parts are disjoint and together exhaust the data"
        -> CvFolds!SplitIsSound (model: SplitsSound; trace: TSplit, TTts; helpers: TRows)     -> Split.train/test, Tts, Rows
  "every object receives a finite prediction in every iteration"
        -> TPred: Ev.finite = 1 /\ Ev.cnt = Ev.passes (= merged workers = fold matrices seen); PassComplete; OrchComplete;
           model: CvPartition!EveryObjectOnce, CvBoot!CounterIsPasses / AverageIsMean     -> Pred.finite/cnt/passes, Create/Join/Merge
        -> TraceCv!TCounter: the routine's OWN visit counter at the division = tally of the logged test folds (CvBoot!CounterIsPasses on the
           recording; a lost update on accumulators shared between workers shows here whatever the values are)   -> Counter (hook boot_counter);
           stress: 120 (quick) / 1500 (thorough) 8-worker x 12-iteration calls on the smallest problems with the workers of a batch held in
           LOCK-STEP at the last row-copy hook of every group (a legal schedule) so that unsynchronised shared accumulators do collide
  "the reported residuals are prediction minus the matching observed response column"
        -> TResid: Ev.err <= Tol /\ Ev.resp = col % ny /\ Ev.lv = col \\div ny + 1; TResOnly (residual-only call)  -> Resid, ResOnly
  (delivery to the caller: the output objects survive the call and have shape n x scol, whatever they held before)
        -> TOut: pred_freed = res_freed = 0; TEnd: Ev.shape = 1; model: CvBoot!SecondCallIndependent            -> Out, End
"""
import json, os, random, shutil
from concurrent.futures import ThreadPoolExecutor
from vf import build, tlc, trace
from vf import run as hrun
from vf.core import InfraError
from checks.deferred import Deferred

LEVEL = "model_checking"
READY = True
W = max(1, int(os.environ.get("VERIF_WORKERS", "8")))
TECHNIQUE = ("TLC model checking of CvPartition (all draw sequences; id-renaming view for every (n, groups) with n <= 30) / CvLabels / CvOrch / CvBoot (accumulators, "
             "two calls per process, refuted stale variants) + TLC-generated stratified case chains (CvCases over the quantifier, learner domains and input classes "
             "K1..K10 of CvDomain) replayed into the real CV drivers + TLC trace validation of fold matrices, split ids, orchestration order, refit errors, "
             "own-response sensitivity of every object, residual columns, output objects, LeaveOneOut row routing and the bootstrap's own visit counter recorded "
             "from the real CV drivers (hook H5), incl. a lock-step 8-worker stress block for lost updates on shared accumulators")
LEVEL_TEXT = ("The fold generator is model-checked with the random draw left nondeterministic, so every RNG stream is covered for all n <= 6 (quick) / 8 (thorough) and group "
              "counts (and, under the id-renaming view, for every n <= 30); label-driven folds for all label vectors; orchestration for all (items, threads) and "
              "completion orders; the bootstrap accumulators over batches, completion orders and two calls in one process. The real drivers are then run for "
              "PLS/MLR/LDA under bootstrap, LOO and k-fold on TLC-generated stratified cases (thread counts 1..8 incl. more threads than work items / objects, "
              "iterations 1..12, group counts 2..n, more responses than predictors, wide training sets, offsets/magnitudes/ties, user label alphabets, several "
              "runs in one process into already sized outputs); TLC checks on the recorded ids that every fold matrix is a partition, every split disjoint and "
              "exhaustive, every object predicted once per pass, nothing merged before its join, and that the logged refit error / own-response sensitivity / "
              "residual-column errors are within bounds, the caller's output objects survive, LeaveOneOut routes every row but the left-out one into the "
              "training part, and the bootstrap's own visit counter equals the number of logged passes that tested the object.")
LEVEL_NOTE = ("Trusts TLC, hook H5 placement, and the harness's projection (refit through the public API on the logged training ids, double-precision comparison "
              "quantised to 1e-12 units relative to max(|value|, 1), or to 1e-6 for the 1e-6-magnitude class - never looser). Model checking is exhaustive only "
              "within the small bounds (the n <= 30 run relies on the invariance of the machine under renaming object ids); the conformance runs are stratified + "
              "sampled configurations. Classes excluded because the quantifier / statement excludes them: group count 1 (its training set is empty: fold structure "
              "only, through the helpers); KFoldCV+LDA (the routine never creates the LDA workers it joins); K9 missing-value codes (the statement does not mention "
              "missing values; a response equal to 99999999 is C07's/C03's business); y-autoscaling of a constant response (C03's business); MLR with a constant column (rank-deficient with the intercept: outside "
              "MLR's own domain, C07); LDA with fewer than 3 training members per class (C08's domain); bootstrap own-response test with more than one thread (two "
              "runs race on the shared generator word - property C06). A lost update on accumulators shared between bootstrap workers is not observable without a real collision (absent one the "
              "counter equals the passes): the lock-step stress block provokes collisions (measured on the two seeded changes of that kind: 5-18 % and 22-26 % of "
              "the calls show counter != passes on a 16-core machine at load 50-80, i.e. a miss probability < 1 % for the 120 calls of the quick tier); it is "
              "sampled, not exhaustive; the race itself is C06's business (ThreadSanitizer block there).")

# KFoldCV frees the caller's predicted_y when it is already sized for another shape (fixes/C05-kfoldcv-sized-output.diff).  The statement of C05 is
# about the predictions the routines DELIVER ("every object receives a finite prediction"): a freed output delivers none, so it is reported as a
# violation.  Set to False to report it as an EXTRA-FINDING instead (then it never changes the exit code).
SIZED_OUTPUT_IS_VERDICT = True
SC = {"boot": 0, "loo": 1, "kfold": 2}
AL = {"PLS": 0, "MLR": 1, "LDA": 2}


def _block_info(block):
    for e in block:
        if e.get("e") == "Run":
            return e
        if e.get("e") == "Crash":
            return e
    return {}


def _sig(ev, block):
    run = _block_info(block)
    scheme, algo = run.get("scheme", "?"), run.get("algo", "?")
    e = ev.get("e")
    if e == "Crash":
        return "CV:%s:crash:%s:rc%s" % (scheme if scheme != "?" else ev.get("scheme"), algo if algo != "?" else ev.get("algo"), ev.get("rc")), \
               "CV run died or hung (rc=%s): %s (chain starting with %s)" % (ev.get("rc"), {k: run.get(k) for k in ("scheme", "algo", "n", "p", "ny", "nlv", "groups", "iters", "nth", "hist")}, ev)
    if e == "Out":
        which = "predicted_y" if ev.get("pred_freed") else "pred_residuals"
        return "CV:%s:sized-output:caller-matrix-freed" % scheme, \
               ("%s: the caller's %s matrix (already sized by an earlier call, other shape) was FREED and replaced by a new object the caller never sees - "
                "the caller's pointer dangles (run %s of the process, %s)") % (
                   {"kfold": "KFoldCV", "loo": "LeaveOneOut", "boot": "BootstrapRandomGroupsCV"}.get(scheme, scheme), which, run.get("hist"),
                   {k: run.get(k) for k in ("algo", "n", "ny", "nlv", "nth")})
    if e == "LooSplit":
        return "CV:loo:row-routing", ("LeaveOneOut: the rows routed into the training / test part of model %s are not 'every object but %s' / 'object %s' "
                                      "(train %s, test %s; %s)") % (ev.get("m"), ev.get("m"), ev.get("m"), ev.get("train"), ev.get("test"), {k: run.get(k) for k in ("algo", "n", "nth")})
    if e == "Counter":
        return "CV:boot:visit-counter", ("BootstrapRandomGroupsCV divides the summed predictions of object %s by its visit counter = %s, but the object sat in a test fold in a different "
                                         "number of the logged passes (an update of the counter was lost or added: accumulators shared between workers?) (%s)") % (
                                             ev.get("i"), ev.get("cnt"), {k: run.get(k) for k in ("algo", "n", "groups", "iters", "nth", "lockstep")})
    if e == "Groups":
        return "CV:%s:partition" % scheme, "fold matrix is not a partition of 0..n-1: %s" % ev
    if e == "Split":
        return "CV:%s:split" % scheme, "train/test split not disjoint+exhaustive or not the fold's members: %s" % ev
    if e in ("Create", "Join", "Merge"):
        return "CV:%s:orchestration" % scheme, "orchestration event out of order (merge before join / item twice): %s" % ev
    if e == "Tts":
        return "CV:tts:split", "train_test_split: test/training parts are not disjoint + exhaustive, or the copied rows are not the rows of the reported ids: %s" % ev
    if e == "Rows":
        return "CV:helpers:rows", "rows copied into train/test are not the rows of the logged ids"
    hist = ":history" if run.get("hist", 0) > 0 else ""
    if e == "Pred":
        if ev.get("finite") != 1:
            return "CV:%s:finite:%s%s" % (scheme, algo, hist), "object %s has a non-finite prediction (%s)" % (ev.get("i"), run)
        if ev.get("cnt") != ev.get("passes"):
            return "CV:%s:coverage:%s" % (scheme, algo), "object %s predicted %s times in %s passes" % (ev.get("i"), ev.get("cnt"), ev.get("passes"))
        if ev.get("sens", -1) not in (-2, -1, 0):
            return "CV:%s:leak:%s" % (scheme, algo), "prediction of object %s changes when only its own response changes (%s units of 1e-12)" % (ev.get("i"), ev.get("sens"))
        if ev.get("refit", 0) > 1000:
            return "CV:%s:refit:%s%s" % (scheme, algo, hist), "prediction of object %s differs from a model refitted on exactly the other folds (%s units of 1e-12; run %s of the process)" % (
                ev.get("i"), ev.get("refit"), run.get("hist", 0))
        if ev.get("sens") == -1 and run.get("sensall") == 1:
            raise InfraError("driver did not measure the own-response sensitivity of object %s in an every-object run: %s" % (ev.get("i"), run))
        nl = sum(1 for x in block if x.get("e") == "LooSplit")
        if scheme == "loo" and nl not in (0, run.get("n")):
            return "CV:loo:row-routing", "LeaveOneOut routed rows for %d of %d models only (%s)" % (nl, run.get("n"), {k: run.get(k) for k in ("algo", "n", "nth")})
        return "CV:%s:pred-order:%s" % (scheme, algo), "prediction phase reached with incomplete orchestration/passes: %s" % ev
    if e == "Resid":
        cls = "ny%s:nlv%s" % (">1" if run.get("ny", 1) > 1 else "1", ">1" if run.get("nlv", 1) > 1 else "1")
        return "CV:%s:residual:%s%s" % (scheme, cls, hist), "reported residual is not prediction minus the matching response column (col %s, response %s, lv %s; %s)" % (
            ev.get("col"), ev.get("resp"), ev.get("lv"), {k: run.get(k) for k in ("algo", "n", "ny", "nlv", "hist")})
    if e == "ResOnly":
        return "CV:%s:residual-only-call" % scheme, "residuals returned by the call without a prediction output are not prediction minus the matching response column (%s units of 1e-12, shape ok %s; %s)" % (
            ev.get("err"), ev.get("shape"), {k: run.get(k) for k in ("algo", "n", "ny", "nlv", "hist")})
    if e == "End":
        if ev.get("shape") == 1 and scheme in SC:
            raise InfraError("driver skipped a measurement (Out / own-response / residual-only) in block %s" % run)
        return "CV:%s:shape:%s%s" % (scheme, algo, hist), "output shape wrong or pass incomplete at End: %s (%s)" % (ev, {k: run.get(k) for k in ("n", "scol", "hist", "reuse")})
    return "CV:%s:trace:%s" % (scheme, e), "unexpected event %s" % ev


MC_RUNS = [("CvPartition", "MC_CvPartition_%s.cfg", "mc_partition", 1800),
           ("CvPartition", "MC_CvPartition_live.cfg", "mc_partition_live", 600),
           ("CvPartition", "MC_CvPartition_sym_%s.cfg", "mc_partition_view", 1800),
           ("CvLabels", "MC_CvLabels_%s.cfg", "mc_labels", 900),
           ("CvOrch", "MC_CvOrch_boot.cfg", "mc_orch_boot", 600),
           ("CvOrch", "MC_CvOrch_guard.cfg", "mc_orch_guard", 600),
           ("CvOrch", "MC_CvOrch_live.cfg", "mc_orch_live", 600),
           ("CvOrch", "MC_CvOrch_live_boot.cfg", "mc_orch_live_boot", 600),
           ("CvBoot", "MC_CvBoot_%s.cfg", "mc_boot_accumulators", 1800),
           ("CvBoot", "MC_CvBoot_live.cfg", "mc_boot_live", 600)]
# negative configurations: the model of a defective variant MUST be refuted (the invariants bite)
MC_NEG = [("CvBoot", "MC_CvBoot_stale.cfg", "mc_boot_stale_refuted", "SecondCallIndependent"),
          ("CvBoot", "MC_CvBoot_requested.cfg", "mc_boot_requested_refuted", "AverageIsMean")]


def _mc_start(ctx):
    """the model-checking runs go on in the background while the conformance runs execute"""
    t = "quick" if ctx.quick else "thorough"

    def one(spec):
        mod, cfg, label, to = spec
        return spec, tlc.run(mod, cfg % t if "%s" in cfg else cfg, timeout=to, workers=max(2, W // 2))

    def neg(spec):
        mod, cfg, label, inv = spec
        return spec, tlc.run(mod, cfg, timeout=600, workers=2, coverage=False)

    ex = ThreadPoolExecutor(max(1, min(3, W // 2)))
    futs = [ex.submit(one, s) for s in MC_RUNS] + [ex.submit(neg, s) for s in MC_NEG]
    ex.shutdown(wait=False)
    return futs


def _mc_finish(ctx, futs):
    for f in futs[:len(MC_RUNS)]:
        (mod, cfg, label, to), r = f.result()
        ctx.add_tlc(r, label)
        if not r.ok:
            raise InfraError("%s/%s: %s fails in the model itself:\n%s" % (mod, cfg, r.violation, r.trace_text[:1500]))
        z = [a for a in r.zero_actions(ignore=("Stutter", "Stop", "LNext", "Next")) if a not in ("Init", "LInit")]
        if z:
            raise InfraError("%s/%s: actions never taken (vacuous): %s" % (mod, cfg, z))
    for f in futs[len(MC_RUNS):]:
        (mod, cfg, label, inv), r = f.result()
        ctx.add_tlc(r, label)
        if r.ok or r.violation != inv:
            raise InfraError("%s/%s: the defective variant was NOT refuted by %s (got %s): the invariant does not bite" % (mod, cfg, inv, r.violation))
    ctx.note("models: partition (also for every n <= %d under the renaming view) / labels / orchestration / accumulator invariants and the liveness properties hold; "
             "stale-accumulator and requested-iterations variants refuted" % (20 if ctx.quick else 30))


def _label_vectors(ctx, k):
    r = tlc.run("CvLabels", "GEN_CvLabels.cfg", timeout=600, coverage=False)
    ctx.add_tlc(r, "gen_labels")
    seen, out = set(), []
    for e in r.emits:
        t = tuple(e["lab"])
        if t not in seen and len(t) >= 2 and len(set(t)) >= 2:
            seen.add(t)
            out.append(list(t))
    rnd = random.Random(ctx.seed)
    rnd.shuffle(out)
    # make sure gaps / unbalanced / non-contiguous vectors are in
    pri = [v for v in out if max(v) + 1 > len(set(v))][: k // 3]
    rest = [v for v in out if v not in pri][: k - len(pri)]
    return pri + rest, len(seen)


def _gen_chains(ctx):
    """the stratified case chains, generated (and checked for admissibility + class completeness) by TLC from CvCases.tla"""
    r = tlc.run("CvCases", "GEN_CvCases_%s.cfg" % ("quick" if ctx.quick else "thorough"), timeout=900, coverage=False, workers=1)
    ctx.add_tlc(r, "gen_cases")
    seen, chains = set(), []
    for e in r.emits:
        k = json.dumps(e, sort_keys=True)
        if k not in seen:
            seen.add(k)
            chains.append(e)
    if not chains:
        raise InfraError("CvCases emitted no chain")
    chains.sort(key=lambda e: json.dumps(e["chain"], sort_keys=True))
    return chains


def _write_cases(path, chains, cid0, index):
    cid = cid0
    with open(path, "w") as f:
        for e in chains:
            for j, c in enumerate(e["chain"]):
                f.write("%d %d %d %d %d %d %d %d %d %d %d %d %d %d %d %d %d %d %d %s\n" % (
                    cid, 1 if j else 0, SC[c["scheme"]], AL[c["algo"]], c["n"], c["p"], c["ny"], c["nlv"], c["xs"], c["ys"], c["k"], c["groups"], c["iters"], c["nth"],
                    c["dcls"], c["sens"], c["nproc"], c["dseed"], len(c["lab"]), " ".join(map(str, c["lab"]))))
                index[cid] = (c, e["cls"][j])
                cid += 1
    return cid


def _classify_runs(ctx, rd, runs):
    """TLC evaluates the class definitions of CvDomain.tla on the recorded Run events of the randomly generated blocks"""
    if not runs:
        return []
    p = os.path.join(rd, "runs.ndjson")
    with open(p, "w") as f:
        for r in runs:
            f.write(json.dumps(r, separators=(",", ":")) + "\n")
    r = tlc.run("CvClassify", "GEN_CvClassify.cfg", env={"RUNS": p}, coverage=False, workers=1, timeout=600)
    ctx.add_tlc(r, "classify_runs")
    if not r.emits or len(r.emits[0]["cls"]) != len(runs):
        raise InfraError("CvClassify returned no classification")
    return r.emits[0]["cls"]


def run_check(ctx):
    ctx.assumptions += [
        "TLC explores the fold generator exhaustively only for n <= %d (every draw sequence; for n <= %d under the id-renaming view), label vectors up to length %d over 4 labels, orchestration up to 12 items x 8 threads, "
        "accumulators up to %s" % (6 if ctx.quick else 8, 20 if ctx.quick else 30, 5 if ctx.quick else 6, "3 objects x 4 passes x 3 threads x 2 calls" if ctx.quick else "3 objects x 6 passes x 4 threads x 2 calls"),
        "refit error, own-response sensitivity and residual-column errors are computed by the harness in double precision and logged in units of 1e-12 (saturating at 2e-3); TLC checks the bounds and all id/ordering logic",
        "own-response sensitivity and the residual-only call compare two runs: bootstrap only single-threaded (multi-threaded runs share the global RNG word - property C06 - so two runs need not draw the same folds); LeaveOneOut / KFoldCV for every thread count",
        "group count 1 is exercised through the helper functions only (its training set is empty); KFoldCV with LDA is excluded (the routine does not support it)",
        "hook H5 reports fold matrices when complete, row ids at the copy, join after pthread_join returns, merge before the worker's output is added",
        "a freed output object is recognised through the sanitizer's shadow memory (san build)",
        "lost updates on accumulators shared between workers are sampled by a lock-step stress block (120 / 1500 calls, 8 workers, 12 iterations), not excluded exhaustively",
    ]
    mc = _mc_start(ctx)
    lib = build.build_lib("san")
    exe = build.build_harness("c05", ["c05_drv.c"], lib)
    rd = tlc.rundir()
    try:
        q = ctx.quick
        jobs = []
        # helpers: all (n, groups), n 1..30, split in slices of n
        for i, (lo, hi) in enumerate([(1, 12), (13, 18), (19, 22), (23, 26), (27, 30)] if not q else [(1, 10), (11, 14), (15, 18)]):
            jobs.append([os.path.join(rd, "h%d.ndjson" % i), "helpers", ctx.seed + i, hi, lo])
        jobs.append([os.path.join(rd, "t.ndjson"), "tts", ctx.seed + 5, 24 if q else 40])
        ncv = 8 if q else 15
        per = 12 if q else 110
        for i in range(ncv):
            jobs.append([os.path.join(rd, "c%d.ndjson" % i), "cv", ctx.seed * 7 + i, per])
        labs, nlab = _label_vectors(ctx, 30 if q else 400)
        lf = os.path.join(rd, "labels.txt")
        with open(lf, "w") as f:
            for v in labs:
                f.write("%d %s\n" % (len(v), " ".join(map(str, v))))
        jobs.append([os.path.join(rd, "l.ndjson"), "labels", ctx.seed + 99, len(labs), lf])
        # TLC-generated chains, dealt round-robin into a few case files (a chain stays in one file = one process per chain)
        # every chain is replayed on NREP different data sets (the data seed of the driver differs per replicate)
        chains = _gen_chains(ctx)
        nfiles = 4 if q else 12
        nrep = 2 if q else 3
        index, cid = {}, 0
        for rep in range(nrep):
            for i in range(nfiles):
                part = chains[i::nfiles]
                if not part:
                    continue
                cf = os.path.join(rd, "cases%d_%d.txt" % (rep, i))
                cid = _write_cases(cf, part, cid, index)
                jobs.append([os.path.join(rd, "g%d_%d.ndjson" % (rep, i)), "cases", ctx.seed + 7919 * rep, 1000000, cf])
        # lock-step stress: repeated 8-worker bootstrap calls on the smallest problems (lost updates on shared accumulators)
        nstress = 120 if q else 1500
        for i in range(2 if q else 6):
            jobs.append([os.path.join(rd, "s%d.ndjson" % i), "stress", ctx.seed + 31 * i, nstress // (2 if q else 6)])
        res = hrun.run_many(exe, jobs, timeout=2400, workers=W)
        events = []
        for j, h in zip(jobs, res):
            ev = hrun.read_ndjson(j[0])
            if h.rc != 0:
                if h.timed_out:
                    raise InfraError("c05 harness timed out: %s" % j[1:])
                raise InfraError("c05 harness parent process failed rc=%d (%s): %s" % (h.rc, j[1:], h.err[-1500:]))
            events += ev
        blocks = tlc.split_blocks(events)
        nblocks = 0
        executed = set()
        legacy_runs = []
        for b in blocks:
            run = _block_info(b)
            if not run:
                continue
            nblocks += 1
            scheme = run.get("scheme")
            key = (scheme, run.get("algo"), run.get("n"), run.get("p"), run.get("groups"), run.get("iters"), run.get("nth"), run.get("ny"), run.get("nlv"), run.get("dcls"),
                   run.get("hist"), run.get("sensall"), run.get("nproc"), run.get("xs"), run.get("ys"), run.get("case"), tuple(run.get("lab", [])))
            t = None
            if scheme == "tts":
                t = next((e for e in b if e["e"] == "Tts"), None)
                key = ("tts", run.get("n"), t["num"] if t else -1, tuple(t["test"]) if t else ())
            nt = scheme == "kfold" or (scheme == "tts" and t is not None and len(t["test"]) >= 1) or run.get("ny", 1) > 1 or bool(run.get("groups") and run.get("n") % run.get("groups") != 0) \
                or run.get("nth", 1) > 1 or run.get("hist", 0) > 0
            ctx.case(key, nt)
            if run.get("e") == "Run" and scheme in SC:
                if run.get("case", -1) >= 0:
                    executed.add(run["case"])
                    for tag in index[run["case"]][1]:
                        ctx.cls(tag)
                else:
                    legacy_runs.append(run)
                    if run.get("lockstep"):
                        ctx.cls("K6:boot:lock-step-stress(8-workers,12-iterations)")
            elif scheme == "helpers":
                ctx.cls("H:helpers-all-(n,groups)")
                if run.get("groups") == 1:
                    ctx.cls("G:groups=1(helpers-only)")
                if run.get("reuse"):
                    ctx.cls("K7:helpers-fold-matrix-and-split-outputs-already-sized")
            elif scheme == "tts":
                ctx.cls("H:train_test_split")
                if run.get("reuse"):
                    ctx.cls("K7:train_test_split-outputs-already-sized")
        for tags in _classify_runs(ctx, rd, legacy_runs):
            for tag in tags:
                if tag == "OUTSIDE":
                    raise InfraError("the random generator produced a case outside the quantifier / learner domain")
                ctx.cls(tag)
        missing = sorted(set(index) - executed)
        if missing:
            # a chain that died is reported through its Crash event below; cases that silently never ran are the driver's fault
            crashed = any(e["e"] == "Crash" for e in events) or any(e["e"] == "Out" and (e["pred_freed"] or e["res_freed"]) for e in events)
            if not crashed:
                raise InfraError("%d TLC-generated cases were not executed by the driver (first: %s)" % (len(missing), index[missing[0]][0]))
        # vacuity of the recording: settled AFTER the verdicts (a tree on which the runs die, or whose fits leave the hooked path, is first judged on what it recorded)
        deferred = Deferred(ctx)
        if not any(e["e"] == "Tts" and len(e["test"]) >= 2 for e in events):
            deferred.add("no train_test_split recording")
        if not any(e["e"] == "Groups" for e in events) or not any(e["e"] == "Create" for e in events):
            deferred.add("no Groups/Create events: hook H5 is not firing (hooks removed or guard off)")
        for kind in ("Out", "ResOnly"):
            if not any(e["e"] == kind for e in events):
                deferred.add("no %s events recorded" % kind)
        if not any(e["e"] == "Run" and e.get("sensall") == 1 for e in events) or not any(e["e"] == "Run" and e.get("hist", 0) >= 3 for e in events):
            deferred.add("no every-object / history blocks recorded")
        for b in blocks:
            run = _block_info(b)
            if run.get("scheme") in ("boot", "kfold") and run.get("ny", 1) > 1:
                ctx.sample([e for e in b if e["e"] in ("Run", "Groups", "Split")][:4], 3)
        ctx.cov["rule"] = ("a case is one recorded run (block) keyed by (scheme, learner, n, p, groups, iterations, threads, ny, nlv, data class, position in the process history, labels); "
                           "helpers: all (n, groups) with n 1..%d x 2 seeds; cv: random in-quantifier configurations; labels: TLC-generated label vectors (%d distinct generated, %d replayed); "
                           "cases: %d executions of TLC-generated stratified cases (%d chains x %d data sets; CvCases.tla, every class of CvCases!Required present); non-trivial = k-fold, ny > 1, groups does not divide n, "
                           "threads > 1 or a later run of a process history") % (18 if q else 30, nlab, len(labs), len(index), len(chains), nrep)

        def on_reject(ev, idx, block):
            if ev.get("e") == "Run":
                raise InfraError("TraceCv rejects a Run event: the driver ran a case outside the quantifier / learner domain, or announces other work items / width than the specification computes: %s" % ev)
            sig, what = _sig(ev, block)
            run = _block_info(block)
            if ev.get("e") == "Out" and not SIZED_OUTPUT_IS_VERDICT:
                ctx.extra(sig, what)
                return "dup" if sig in ctx.extras else None
            known = any(v[0] == sig for v in ctx.violations) or sig in ctx.known_hits
            ctx.violation(sig, what, dict(kind="block", run=run, event=ev, case=index.get(run.get("case"), (None,))[0], block=block[:80]))
            return "dup" if known else None
        # runs that died or lost an output object are validated as a stream of their own (TLC still decides): a defect that kills many runs
        # must not use up the rejection rounds of the main stream and so hide other signatures
        def dead(b):
            return any(e["e"] == "Crash" or (e["e"] == "Out" and (e["pred_freed"] or e["res_freed"])) for e in b)
        dead_ev = [e for b in blocks if dead(b) for e in b]
        main_ev = [e for b in blocks if not dead(b) for e in b]
        if dead_ev:
            trace.check_trace(ctx, "TraceCv", "Trace_Cv.cfg", "Trace_Cv_prop.cfg", dead_ev, on_reject, drop="block", max_rounds=14, label="trace_cv_dead_runs", xmx="4g", timeout=900)
        if main_ev:
            trace.check_trace(ctx, "TraceCv", "Trace_Cv.cfg", "Trace_Cv_prop.cfg", main_ev, on_reject, drop="block", max_rounds=40, label="trace_cv", xmx="8g", timeout=1800)
        ctx.traces(nblocks)
        deferred.settle()
        # vacuity of the hook-bound events, AFTER the verdicts: a tree whose hooks stopped firing has still been judged on everything else
        alive = [b for b in blocks if not dead(b) and _block_info(b).get("e") == "Run"]
        loo_b = [b for b in alive if _block_info(b).get("scheme") == "loo"]
        boot_b = [b for b in alive if _block_info(b).get("scheme") == "boot"]
        no_loo = [b for b in loo_b if sum(1 for e in b if e["e"] == "LooSplit") != _block_info(b)["n"]]
        no_cnt = [b for b in boot_b if sum(1 for e in b if e["e"] == "Counter") != _block_info(b)["n"]]
        if not loo_b or not boot_b:
            raise InfraError("no LeaveOneOut / bootstrap block survived")
        if no_loo and not ctx.violations:
            raise InfraError("hook loo_train / loo_test did not fire for every model in %d of %d LeaveOneOut runs (hooks removed?): %s" % (len(no_loo), len(loo_b), _block_info(no_loo[0])))
        if no_cnt and not ctx.violations:
            raise InfraError("hook boot_counter did not fire for every object in %d of %d bootstrap runs (hooks removed?): %s" % (len(no_cnt), len(boot_b), _block_info(no_cnt[0])))
        if not any(_block_info(b).get("lockstep") for b in boot_b):
            raise InfraError("no lock-step stress block recorded")
        _selftests(ctx, blocks)
        _mc_finish(ctx, mc)
    finally:
        shutil.rmtree(rd, ignore_errors=True)


def _selftests(ctx, blocks):
    """binding self-tests: corrupt one recorded field -> TLC must reject"""
    def info(b):
        return _block_info(b)

    def find(pred):
        for b in blocks:
            r = info(b)
            if r.get("e") == "Run" and pred(r, b) and any(e["e"] == "End" and e["shape"] == 1 for e in b):
                return b
        raise InfraError("binding self-test: no block to corrupt")

    def setter(kind, field, value, pick=lambda e: True):
        def corrupt(evs):
            for e in evs:
                if e["e"] == kind and pick(e):
                    e[field] = value(e[field]) if callable(value) else value
                    return True
            return False
        return corrupt

    # swap two ids between train and test of one logged split
    def swap(evs):
        for e in evs:
            if e["e"] == "Split" and len(e["train"]) >= 1 and len(e["test"]) >= 1:
                e["train"][0], e["test"][0] = e["test"][0], e["train"][0]
                return True
        return False
    tests = []

    def T(*a):
        tests.append(a)
    boot = find(lambda r, b: r.get("scheme") == "boot" and any(e["e"] == "Split" for e in b))
    T("TraceCv", "Trace_Cv_prop.cfg", boot, swap, "binding_split")
    anycv = find(lambda r, b: r.get("scheme") in SC and any(e["e"] == "ResOnly" for e in b))
    T("TraceCv", "Trace_Cv_prop.cfg", anycv, setter("Out", "pred_freed", 1), "binding_out")
    T("TraceCv", "Trace_Cv_prop.cfg", anycv, setter("ResOnly", "err", 5000), "binding_resonly")
    T("TraceCv", "Trace_Cv_prop.cfg", anycv, lambda evs: bool([evs.remove(e) for e in list(evs) if e["e"] == "ResOnly"]), "binding_resonly_missing")
    T("TraceCv", "Trace_Cv_prop.cfg", anycv, lambda evs: bool([evs.remove(e) for e in list(evs) if e["e"] == "Out"]), "binding_out_missing")
    sall = find(lambda r, b: r.get("scheme") in SC and r.get("sensall") == 1)
    T("TraceCv", "Trace_Cv_prop.cfg", sall, setter("Pred", "sens", 7, lambda e: e["i"] == info(sall)["n"] - 1), "binding_sens_last_object")
    T("TraceCv", "Trace_Cv_prop.cfg", sall, setter("Pred", "sens", -1, lambda e: e["i"] == 2), "binding_sens_unmeasured")
    T("TraceCv", "Trace_Cv_prop.cfg", anycv, setter("Run", "n", 31), "binding_quantifier")
    loo = find(lambda r, b: r.get("scheme") == "loo" and r.get("nth", 1) > 1 and any(e["e"] == "LooSplit" for e in b))
    T("TraceCv", "Trace_Cv_prop.cfg", loo, setter("LooSplit", "train", lambda t: [2] + t[1:], lambda e: e["m"] == 2), "binding_loo_leak")       # model 2 trains on object 2
    T("TraceCv", "Trace_Cv_prop.cfg", loo, setter("LooSplit", "train", lambda t: t[:-1], lambda e: e["m"] == 0), "binding_loo_row_lost")
    T("TraceCv", "Trace_Cv_prop.cfg", loo, setter("LooSplit", "test", lambda t: [t[0] + 1], lambda e: e["m"] == 1), "binding_loo_test_row")
    T("TraceCv", "Trace_Cv.cfg", loo, setter("LooSplit", "train", lambda t: [t[1], t[0]] + t[2:], lambda e: e["m"] == 3), "binding_loo_order_impl")
    T("TraceCv", "Trace_Cv_prop.cfg", loo, lambda evs: bool([evs.remove(e) for e in list(evs) if e["e"] == "LooSplit" and e["m"] == 4]), "binding_loo_model_missing")
    bootb = find(lambda r, b: r.get("scheme") == "boot" and r.get("nth", 1) > 1 and any(e["e"] == "Counter" for e in b))
    T("TraceCv", "Trace_Cv_prop.cfg", bootb, setter("Counter", "cnt", lambda c: c - 1, lambda e: e["i"] == 3), "binding_counter_lost_update")
    T("TraceCv", "Trace_Cv_prop.cfg", bootb, setter("Counter", "cnt", lambda c: c + 1, lambda e: e["i"] == 0), "binding_counter_extra")
    T("TraceCv", "Trace_Cv.cfg", bootb, setter("Counter", "iters", lambda c: c + 1), "binding_counter_iters_impl")
    hist = find(lambda r, b: r.get("scheme") in SC and r.get("hist", 0) >= 1)
    T("TraceCv", "Trace_Cv_prop.cfg", hist, setter("Pred", "refit", 1001), "binding_history_refit")
    T("TraceCv", "Trace_Cv_prop.cfg", hist, setter("End", "shape", 0), "binding_history_shape")
    with ThreadPoolExecutor(max(1, min(W, 6))) as ex:
        list(ex.map(lambda a: trace.binding_selftest(ctx, *a), tests))
    ctx.steps["binding_selftests"] = len(tests)


def run(ctx):
    run_check(ctx)


def replay(ctx, body):
    # the stored block is re-validated as recorded AND the tier is re-run on the current tree
    case = body.get("case") or {}
    block = case.get("block")
    if block:
        ok, n, r = tlc.validate_trace("TraceCv", "Trace_Cv_prop.cfg", block)
        ctx.note("stored block %s by the property layer" % ("accepted" if ok else "rejected at event %d" % n))
    run_check(ctx)
