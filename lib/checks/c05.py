"""C05 - cross-validation predictions are out-of-sample and cover every object once.

(M)  CvPartition.tla: the rejection-sampling fold generator with the RNG draw nondeterministic (every stream), splits and
     the per-group merge: partition / disjoint+exhaustive splits / every object predicted once, for all n, groups; fair
     termination of the rejection loop.  CvLabels.tla: label-driven folds for ALL label vectors (gaps, unbalanced).
     CvOrch.tla: batch orchestration (bootstrap: full batches; LOO/k-fold: guarded batches): every work item once, no merge
     before join, for all (items, threads) and every completion order.
(C)  c05_drv drives the real drivers.  tts: the public train_test_split() for every n x test fraction k/8;  helpers: the two public helpers with x[i] = i for all (n, groups);  cv: Bootstrap /
     LOO / KFoldCV for PLS, MLR, LDA on random data, hook H5 records the fold matrices, the row ids really copied into
     train/test and the create/join/merge order; the harness refits through the public API on exactly the logged training
     ids and re-runs with only y[i] changed;  labels: TLC-generated label vectors replayed through KFoldCV.
     TLC validates every recorded block against TraceCv.tla.
"""
import json, os, random, shutil
from vf import build, tlc, trace
from vf import run as hrun
from vf.core import InfraError

LEVEL = "model_checking"
READY = True
TECHNIQUE = ("TLC model checking of CvPartition/CvLabels/CvOrch (all draw sequences, label vectors, completion orders) + TLC trace validation of fold "
             "matrices, split ids, orchestration order, refit errors and own-response sensitivity recorded from the real CV drivers (hook H5)")
LEVEL_TEXT = ("The fold generator is model-checked with the random draw left nondeterministic, so every RNG stream is covered for all n <= 6..7 and group "
              "counts; label-driven folds for all label vectors; orchestration for all (items, threads) and completion orders. The real drivers are then run for "
              "PLS/MLR/LDA under bootstrap, LOO and k-fold; TLC checks on the recorded ids that every fold matrix is a partition, every split disjoint and "
              "exhaustive, every object predicted once per pass, nothing merged before its join, and that the logged refit error / own-response sensitivity / "
              "residual-column errors are within bounds.")
LEVEL_NOTE = ("Trusts TLC, hook H5 placement, and the harness's projection (refit through the public API on the logged training ids, double-precision comparison "
              "quantised to 1e-12 units). Model checking is exhaustive only within the small bounds; the conformance runs are sampled configurations. Group count 1 "
              "(empty training set) and KFoldCV+LDA (not supported by the routine) are exercised for fold structure only / excluded, as stated in DESIGN.md.")


def _block_info(block):
    for e in block:
        if e.get("e") == "Run":
            return e
        if e.get("e") == "Crash":
            return e
    return {}


def _sig(ev, block):
    run = _block_info(block)
    scheme, algo = run.get("scheme", "?"), run.get("algo", "?")
    e = ev.get("e")
    if e == "Crash":
        return "CV:%s:crash:%s:rc%s" % (ev.get("scheme"), ev.get("algo"), ev.get("rc")), "CV run died or hung (rc=%s): %s" % (ev.get("rc"), ev)
    if e == "Groups":
        return "CV:%s:partition" % scheme, "fold matrix is not a partition of 0..n-1: %s" % ev
    if e == "Split":
        return "CV:%s:split" % scheme, "train/test split not disjoint+exhaustive or not the fold's members: %s" % ev
    if e in ("Create", "Join", "Merge"):
        return "CV:%s:orchestration" % scheme, "orchestration event out of order (merge before join / item twice): %s" % ev
    if e == "Tts":
        return "CV:tts:split", "train_test_split: test/training parts are not disjoint + exhaustive, or the copied rows are not the rows of the reported ids: %s" % ev
    if e == "Rows":
        return "CV:helpers:rows", "rows copied into train/test are not the rows of the logged ids"
    if e == "Pred":
        if ev.get("finite") != 1:
            return "CV:%s:finite:%s" % (scheme, algo), "object %s has a non-finite prediction (%s)" % (ev.get("i"), run)
        if ev.get("cnt") != ev.get("passes"):
            return "CV:%s:coverage:%s" % (scheme, algo), "object %s predicted %s times in %s passes" % (ev.get("i"), ev.get("cnt"), ev.get("passes"))
        if ev.get("sens", -1) not in (-1, 0):
            return "CV:%s:leak:%s" % (scheme, algo), "prediction of object %s changes when only its own response changes (%s units of 1e-12)" % (ev.get("i"), ev.get("sens"))
        if ev.get("refit", 0) > 1000:
            return "CV:%s:refit:%s" % (scheme, algo), "prediction of object %s differs from a model refitted on exactly the other folds (%s units of 1e-12)" % (ev.get("i"), ev.get("refit"))
        return "CV:%s:pred-order:%s" % (scheme, algo), "prediction phase reached with incomplete orchestration/passes: %s" % ev
    if e == "Resid":
        cls = "ny%s:nlv%s" % (">1" if run.get("ny", 1) > 1 else "1", ">1" if run.get("nlv", 1) > 1 else "1")
        return "CV:%s:residual:%s" % (scheme, cls), "reported residual is not prediction minus the matching response column (col %s, response %s, lv %s; %s)" % (
            ev.get("col"), ev.get("resp"), ev.get("lv"), {k: run.get(k) for k in ("algo", "n", "ny", "nlv")})
    if e == "End":
        return "CV:%s:shape:%s" % (scheme, algo), "output shape wrong or pass incomplete at End: %s" % ev
    return "CV:%s:trace:%s" % (scheme, e), "unexpected event %s" % ev


def _mc(ctx):
    q = ctx.quick
    runs = [("CvPartition", "MC_CvPartition_quick.cfg" if q else "MC_CvPartition_thorough.cfg", "mc_partition", 1800),
            ("CvPartition", "MC_CvPartition_live.cfg", "mc_partition_live", 600),
            ("CvLabels", "MC_CvLabels_quick.cfg" if q else "MC_CvLabels_thorough.cfg", "mc_labels", 900),
            ("CvOrch", "MC_CvOrch_boot.cfg", "mc_orch_boot", 600),
            ("CvOrch", "MC_CvOrch_guard.cfg", "mc_orch_guard", 600),
            ("CvOrch", "MC_CvOrch_live.cfg", "mc_orch_live", 600)]
    for mod, cfg, label, to in runs:
        r = tlc.run(mod, cfg, timeout=to)
        ctx.add_tlc(r, label)
        if not r.ok:
            raise InfraError("%s/%s: %s fails in the model itself:\n%s" % (mod, cfg, r.violation, r.trace_text[:1500]))
        z = [a for a in r.zero_actions(ignore=("Stutter", "Stop", "LNext", "Next")) if a not in ("Init", "LInit")]
        if z:
            raise InfraError("%s/%s: actions never taken (vacuous): %s" % (mod, cfg, z))
    ctx.note("models: partition/labels/orchestration invariants and both liveness properties hold")


def _label_vectors(ctx, k):
    r = tlc.run("CvLabels", "GEN_CvLabels.cfg", timeout=600, coverage=False)
    ctx.add_tlc(r, "gen_labels")
    seen, out = set(), []
    for e in r.emits:
        t = tuple(e["lab"])
        if t not in seen and len(t) >= 2 and len(set(t)) >= 2:
            seen.add(t)
            out.append(list(t))
    rnd = random.Random(ctx.seed)
    rnd.shuffle(out)
    # make sure gaps / unbalanced / non-contiguous vectors are in
    pri = [v for v in out if max(v) + 1 > len(set(v))][: k // 3]
    rest = [v for v in out if v not in pri][: k - len(pri)]
    return pri + rest, len(seen)


def run_check(ctx):
    ctx.assumptions += [
        "TLC explores the fold generator exhaustively only for n <= %d (every draw sequence), label vectors up to length %d over 4 labels, orchestration up to 12 items x 8 threads" % (6 if ctx.quick else 7, 5 if ctx.quick else 6),
        "refit error, own-response sensitivity and residual-column errors are computed by the harness in double precision and logged in units of 1e-12 (saturating at 2e-3); TLC checks the bounds and all id/ordering logic",
        "own-response sensitivity is measured on single-threaded runs only (multi-threaded runs share the global RNG word - property C06 - so two runs need not draw the same folds)",
        "group count 1 is exercised through the helper functions only (its training set is empty); KFoldCV with LDA is excluded (the routine does not support it)",
        "hook H5 reports fold matrices when complete, row ids at the copy, join after pthread_join returns, merge before the worker's output is added",
    ]
    _mc(ctx)
    lib = build.build_lib("san")
    exe = build.build_harness("c05", ["c05_drv.c"], lib)
    rd = tlc.rundir()
    try:
        q = ctx.quick
        jobs = []
        # helpers: all (n, groups), n 1..30, split in slices of n
        for i, (lo, hi) in enumerate([(1, 12), (13, 18), (19, 22), (23, 26), (27, 30)] if not q else [(1, 10), (11, 14), (15, 18)]):
            jobs.append([os.path.join(rd, "h%d.ndjson" % i), "helpers", ctx.seed + i, hi, lo])
        jobs.append([os.path.join(rd, "t.ndjson"), "tts", ctx.seed + 5, 24 if q else 40])
        ncv = 8 if q else 15
        per = 12 if q else 110
        for i in range(ncv):
            jobs.append([os.path.join(rd, "c%d.ndjson" % i), "cv", ctx.seed * 7 + i, per])
        labs, nlab = _label_vectors(ctx, 30 if q else 400)
        lf = os.path.join(rd, "labels.txt")
        with open(lf, "w") as f:
            for v in labs:
                f.write("%d %s\n" % (len(v), " ".join(map(str, v))))
        jobs.append([os.path.join(rd, "l.ndjson"), "labels", ctx.seed + 99, len(labs), lf])
        res = hrun.run_many(exe, jobs, timeout=2400, workers=12)
        events = []
        for j, h in zip(jobs, res):
            ev = hrun.read_ndjson(j[0])
            if h.rc != 0:
                if h.timed_out:
                    raise InfraError("c05 harness timed out: %s" % j[1:])
                raise InfraError("c05 harness parent process failed rc=%d (%s): %s" % (h.rc, j[1:], h.err[-1500:]))
            events += ev
        blocks = tlc.split_blocks(events)
        nblocks = 0
        for b in blocks:
            run = _block_info(b)
            if not run:
                continue
            nblocks += 1
            scheme = run.get("scheme")
            key = (scheme, run.get("algo"), run.get("n"), run.get("groups"), run.get("nth"), run.get("ny"), run.get("nlv"), tuple(run.get("lab", [])))
            if scheme == "tts":
                t = next((e for e in b if e["e"] == "Tts"), None)
                key = ("tts", run.get("n"), t["num"] if t else -1, tuple(t["test"]) if t else ())
            nt = scheme == "kfold" or (scheme == "tts" and t is not None and len(t["test"]) >= 1) or run.get("ny", 1) > 1 or (run.get("groups") and run.get("n") % run.get("groups") != 0)
            ctx.case(key, nt)
        if not any(e["e"] == "Tts" and len(e["test"]) >= 2 for e in events):
            raise InfraError("no train_test_split recording")
        if not any(e["e"] == "Groups" for e in events) or not any(e["e"] == "Create" for e in events):
            raise InfraError("no Groups/Create events: hook H5 is not firing (hooks removed or guard off)")
        for b in blocks:
            run = _block_info(b)
            if run.get("scheme") in ("boot", "kfold") and run.get("ny", 1) > 1:
                ctx.sample([e for e in b if e["e"] in ("Run", "Groups", "Split")][:4], 3)
        ctx.cov["rule"] = ("a case is one recorded run (block) keyed by (scheme, learner, n, groups, threads, ny, nlv, labels); helpers: all (n, groups) with n 1..%d x 2 seeds; "
                           "cv: random in-quantifier configurations; labels: TLC-generated label vectors (%d distinct generated, %d replayed); non-trivial = k-fold, "
                           "ny > 1, or groups does not divide n") % (18 if q else 30, nlab, len(labs))

        def on_reject(ev, idx, block):
            sig, what = _sig(ev, block)
            run = _block_info(block)
            known = any(v[0] == sig for v in ctx.violations) or sig in ctx.known_hits
            ctx.violation(sig, what, dict(kind="block", run=run, event=ev, block=block[:60]))
            return "dup" if known else None
        trace.check_trace(ctx, "TraceCv", "Trace_Cv.cfg", "Trace_Cv_prop.cfg", events, on_reject, drop="block", max_rounds=40, label="trace_cv", xmx="8g")
        ctx.traces(nblocks)

        # binding self-test: swap two ids between train and test of one logged split -> must be rejected
        def corrupt(evs):
            for e in evs:
                if e["e"] == "Split" and len(e["train"]) >= 1 and len(e["test"]) >= 1:
                    e["train"][0], e["test"][0] = e["test"][0], e["train"][0]
                    return True
            return False
        first = next(b for b in blocks if any(e["e"] == "Split" for e in b) and _block_info(b).get("scheme") == "boot")
        trace.binding_selftest(ctx, "TraceCv", "Trace_Cv_prop.cfg", first, corrupt, "binding_split")
    finally:
        shutil.rmtree(rd, ignore_errors=True)


def run(ctx):
    run_check(ctx)


def replay(ctx, body):
    # the stored block is re-validated as recorded AND the tier is re-run on the current tree
    case = body.get("case") or {}
    block = case.get("block")
    if block:
        ok, n, r = tlc.validate_trace("TraceCv", "Trace_Cv_prop.cfg", block)
        ctx.note("stored block %s by the property layer" % ("accepted" if ok else "rejected at event %d" % n))
    run_check(ctx)
