"""Deferred infrastructure findings (helper shared by the check modules; not a check).

An InfraError that a CHANGE TO THE LIBRARY can provoke (a harness that dies or emits nothing because the changed
library aborts, a hook that stopped firing, a vacuity guard that trips because cases died early) must not pre-empt the
verdict: the module remembers the message, goes on with everything that can still be evaluated (the complete recorded
blocks are validated by TLC, the other parts of the check run) and settles at the very end of run():
violations recorded -> the messages are printed as a note and the violations decide (exit 1); none -> InfraError (exit 2).
InfraErrors that only the framework can cause (spec does not parse, model check of the spec alone fails, a binding
self-test is not rejected, TLC infrastructure error) stay immediate.
"""
from vf.core import InfraError

# deterministic crash signals (SIGKILL / SIGTERM are the machine's or a watchdog's doing: never a verdict)
CRASH_SIGNALS = {4: "SIGILL", 6: "SIGABRT", 7: "SIGBUS", 8: "SIGFPE", 11: "SIGSEGV"}


def crash_signal(rc):
    """name of the crash signal behind a return code, else None: subprocess gives -N, vrt_run_child 1000 + N, a shell 128 + N"""
    if rc is None:
        return None
    for n in (-rc, rc - 1000, rc - 128):
        if n in CRASH_SIGNALS:
            return CRASH_SIGNALS[n]
    return None


class Deferred(list):
    def __init__(self, ctx):
        list.__init__(self)
        self.ctx = ctx

    def add(self, msg):
        msg = str(msg)
        if msg not in self:
            self.append(msg)
            self.ctx.note("infrastructure finding deferred until the recorded runs are judged: %s" % msg[:300])

    def guard(self, fn, *a, **kw):
        """run one part of the check; an InfraError it raises is deferred (the other parts still run). Returns fn's value or None"""
        try:
            return fn(*a, **kw)
        except InfraError as ex:
            self.add(ex)
            return None

    def settle(self):
        """call as the last statement of run()"""
        if not self:
            return
        text = "; ".join(self[:4]) + (" (+%d more)" % (len(self) - 4) if len(self) > 4 else "")
        if self.ctx.violations:
            self.ctx.note("infrastructure trouble on this tree, reported after the verdict: %s" % text[:1200])
            self.ctx.assumptions.append("the run also met infrastructure trouble (judged after the verdict): %s" % text[:600])
            return
        raise InfraError(text)
