"""C15 - regression and classification figures of merit equal their definitions.

(M)  Stats.tla: exact rational definitions of ROC / AUC (trapezoids over 2PN) / precision-recall curve and area, R2, MSE, MAE,
     BIAS with missing-coded truths skipped, and of the PLS / MLR / PLS-DA statistic tables (scalar functions at column
     ny*lv + j, layout shared with C03's Layout.tla).  TLC enumerates every truth vector x score order (n <= 5 quick, 6 thorough)
     and every pair of regression vectors over -2..2 (length <= 3 quick, 4 thorough, at most one missing truth) and checks the
     property's theorems as invariants: AUC = Mann-Whitney, monotone curve, 1 - AUC under negation, invariance under increasing
     maps and object reordering, recall non-decreasing ending at 1, PR area in [0,1], R2 <= 1, perfect prediction, MAE <= RMSE,
     missing truths ignored, layout bijective.
(GEN) the same run prints every case with the exact expected results.
(C)  replay: harness/c15_replay.c runs ROC, PrecisionRecall, curve_area, R2/MSE/RMSE/MAE/BIAS and the three table builders of
     the real library on every printed case (four increasing score maps / three dyadic scales), comparing point by point with
     the rationals (1e-12); every regression case is evaluated again with truths and predictions moved by a common offset of
     2^20 .. 2^30 units (|mean|/spread up to 1e9, exactly representable) against the SAME exact value (1e-8).
     validate: the same driver runs the library on long random inputs (n <= 200, arbitrary tie-free score distributions,
     increasing maps, permutations, negation, up to 20 % missing truths) and logs rank order + results as integers over the
     known denominators; TLC recomputes every curve / area / sum exactly and relates the events (TraceStats.tla).
"""
import os, shutil
from concurrent.futures import ThreadPoolExecutor
from vf import build, tlc, trace
from vf import run as hrun
from vf.core import InfraError

LEVEL = "model_checking"
READY = True
TECHNIQUE = ("TLC as exact rational oracle: Stats.tla defines ROC/AUC/PR, R2/MSE/MAE/BIAS and the statistic tables, TLC enumerates all truth vectors x "
             "score orders and all small regression pairs, checks the property's theorems as invariants and prints cases + exact results; a C driver replays "
             "them through the real library, and records long random runs whose curves/areas/sums TLC recomputes exactly (trace validation)")
LEVEL_TEXT = ("All (truth vector, score order) pairs up to 5 (quick) / 6 (thorough) objects incl. one missing-coded truth, and all regression vector pairs over "
              "-2..2 up to length 3 / 4 with at most one missing truth, are enumerated by TLC; the theorems are invariants of that enumeration and every case's "
              "exact result is compared with the real functions. Beyond the small scope, recorded executions on random inputs up to 200 objects are "
              "validated event by event by TLC against the same operators.")
LEVEL_NOTE = ("Trusts TLC's integer/rational arithmetic, the text conversion of TLC's output, the harness's 1e-12 comparison and its rank-order projection "
              "(qsort of its own scores) in the validate direction; R2/BIAS are logged at 1e-4 resolution in the validate direction (exact in replay). "
              "Scores are tie-free by construction (the property's quantifier); ASan/UBSan is the memory monitor.")

W = int(os.environ.get("VERIF_WORKERS", "16"))


def _san_brief(err):
    """the stable part of a sanitizer report (no pids / addresses, so that the same defect gives the same replay file)"""
    import re
    out = []
    for line in err.splitlines():
        m = re.match(r"\s*(#\d+) 0x[0-9a-f]+ (in \S+ \S+)", line)
        if m and len(out) < 6:
            out.append("  %s %s" % (m.group(1), m.group(2)))
        elif line.startswith("SUMMARY:") or "runtime error:" in line:
            out.append(line.strip())
    return "\n".join(out)[:1500]
FAMS = ["Roc", "Reg", "PlsReg", "Mlr", "PlsDa"]
EVENT_FN = {"Roc": "ROC", "Area": "curve_area", "Pr": "PrecisionRecall", "Mse": "MSE", "Mae": "MAE", "Rmse": "RMSE", "R2": "R2", "Bias": "BIAS"}


def _flat(x, out):
    if isinstance(x, list):
        for v in x:
            _flat(v, out)
    else:
        out.append(int(x))
    return out


def _case_lines(e, with_expected=True):
    fam = e["fam"]
    if fam == "Roc":
        sc = [e["n"], e.get("p", 0), e.get("nn", 0), e.get("auc2", 0)] + list(e.get("ap", [0, 1]))
        arrs = [e["y"], e["ord"], e.get("roc", []), e.get("pr", [])]
    elif fam == "Reg":
        sc = [e["n"]]
        arrs = [e["yt"], e["yp"], e.get("q", [])]
    elif fam in ("PlsReg", "Mlr"):
        sc = [e["n"], e["ny"], e["nlv"]]
        arrs = [e["mt"], e["mp"], e["q"]]
    else:
        sc = [e["n"], e["ny"], e["nlv"]]
        ent, rocs, prs = [], [], []
        for row in e["q"]:
            for q in row:
                ent += [q["auc2"], q["p"], q["nn"]] + list(q["ap"])
                rocs.append(q["roc"])
                prs.append(q["pr"])
        arrs = [e["mt"], e["mp"], ent, rocs, prs]
    out = ["%s %d %d" % (fam, len(sc), len(arrs)), " ".join(map(str, sc))]
    for a in arrs:
        v = _flat(a, [])
        out.append("%d %s" % (len(v), " ".join(map(str, v))))
    return out


def _write_cases(path, emits):
    with open(path, "w") as f:
        for e in emits:
            f.write("\n".join(_case_lines(e)) + "\n")


def _inputs(e):
    keep = ("fam", "n", "y", "ord", "yt", "yp", "ny", "nlv", "mt", "mp")
    return {k: v for k, v in e.items() if k in keep}


def _exe():
    lib = build.build_lib("san")
    return build.build_harness("c15", ["c15_replay.c"], lib)


def _gen(ctx, cfg, label):
    r = tlc.run("Stats", cfg, workers=W, timeout=2400, coverage=False, xmx="8g")
    ctx.add_tlc(r, label)
    if not r.ok:
        raise InfraError("Stats.tla: theorem %s fails in the model itself:\n%s" % (r.violation, r.trace_text[:1500]))
    return r


def _replay_cases(ctx, emits, rd, fams):
    exe = _exe()
    cases = os.path.join(rd, "cases.txt")
    _write_cases(cases, emits)
    count = {}
    for e in emits:
        count[e["fam"]] = count.get(e["fam"], 0) + 1
    jobs = [["replay", cases, os.path.join(rd, "o-%s.ndjson" % f), f] for f in fams if count.get(f)]
    res = hrun.run_many(exe, jobs, timeout=2400, workers=W)
    for j, h in zip(jobs, res):
        fam = j[3]
        ev = hrun.read_ndjson(j[2])
        if h.timed_out:
            raise InfraError("c15 harness timed out on family %s" % fam)
        if h.rc == 2:
            raise InfraError("c15 harness format error on %s: %s" % (fam, h.err[-600:]))
        done = [e for e in ev if e["e"] == "Done"]
        nres = 0
        for e in ev:
            if e["e"] != "Res":
                continue
            nres += 1
            rec = emits[e["i"]]
            if fam == "Roc":
                ctx.case(("Roc", tuple(rec["y"]), tuple(rec["ord"])), True)
            elif fam == "Reg":
                ctx.case(("Reg", tuple(rec["yt"]), tuple(rec["yp"])), rec["q"][2][1] > 0)
            else:
                ctx.case((fam, rec["n"], rec["ny"], rec["nlv"]), rec["ny"] > 1 and rec["nlv"] > 1 or fam == "Mlr")
            for fl in e.get("fails", []):
                # ":offset" = correct on the unshifted data at all three scales, wrong only when truths and predictions share a large offset
                ctx.violation("STATS:%s%s" % (fl["fn"], ":offset" if fl.get("shifted") else ""),
                              "%s on %s: %s: got %s, the definition gives %s" % (fl["fn"], _inputs(rec), fl["what"], fl["got"], fl["want"]),
                              dict(kind="case", rec=_inputs(rec)))
        if h.rc != 0 or not done:
            crash = [e for e in ev if e["e"] == "Crash"]
            rec = emits[crash[-1]["i"]] if crash else {}
            kind = ":".join((h.san or "crash:rc%d" % h.rc).split(":")[:2])
            fn = (h.san or "").split(":")[2] if h.san and h.san.count(":") >= 2 else fam
            ctx.violation("STATS:%s:%s" % (fn, kind), "family %s, input %s: %s\n%s" % (fam, _inputs(rec), h.san or "rc=%d" % h.rc, _san_brief(h.err)),
                          dict(kind="case", rec=_inputs(rec)) if rec else None)
        elif done[0]["cases"] != count[fam] or nres != count[fam]:
            raise InfraError("c15 harness ran %s of %d cases of family %s" % (done[0]["cases"], count[fam], fam))


def _validate_events(ctx, events, label, replay_case):
    def on_reject(ev, idx, block):
        fn = EVENT_FN.get(ev.get("e"), "trace")
        head = next((b for b in block if b.get("e") in ("Roc", "RegIn")), {})
        inp = next((b for b in reversed(block[:block.index(ev) + 1]) if b.get("e") in ("Roc", "RegIn")), head)
        brief = {k: inp.get(k) for k in ("e", "kind", "n", "exp", "off", "y", "ord", "yt", "yp") if k in inp}
        ctx.violation("STATS:%s%s" % (fn, ":offset" if inp.get("off") else ""),
                      "%s: what the library returned is not what the definition gives for the recorded input (event %s; input %s)"
                      % (fn, str({k: v for k, v in ev.items() if k not in ("y", "ord", "pts", "pr")})[:300], str(brief)[:700]), replay_case(block))
    return trace.check_trace(ctx, "TraceStats", "Trace_Stats.cfg", None, events, on_reject, drop="block", label=label, timeout=2400, max_rounds=8)


def _trace_direction(ctx, rd, nproc, blocks, maxn):
    exe = _exe()
    jobs = [["trace", os.path.join(rd, "t%d.ndjson" % i), ctx.seed + 7919 * i, blocks, maxn] for i in range(nproc)]
    res = hrun.run_many(exe, jobs, timeout=2400, workers=W)
    chunks = []
    for j, h in zip(jobs, res):
        ev = hrun.read_ndjson(j[1])
        if h.timed_out:
            raise InfraError("c15 trace harness timed out")
        if h.rc != 0:
            kind = ":".join((h.san or "crash:rc%d" % h.rc).split(":")[:2])
            fn = (h.san or "").split(":")[2] if h.san and h.san.count(":") >= 2 else "trace"
            ctx.violation("STATS:%s:%s" % (fn, kind), "random-input run seed=%s: %s\n%s" % (j[2], h.san or "rc=%d" % h.rc, _san_brief(h.err)),
                          dict(kind="trace", args=j[2:]))
        if not ev:
            raise InfraError("c15 trace harness produced no events")
        chunks.append((j, ev))

    def one(item):
        (j, ev), i = item
        return _validate_events(ctx, ev, "trace_stats_%d" % i, lambda block, j=j: dict(kind="trace", args=j[2:], block=[b for b in block][:12]))
    with ThreadPoolExecutor(min(len(chunks), max(1, W // 2))) as ex:
        list(ex.map(one, [(c, i) for i, c in enumerate(chunks)]))
    nroc = 0
    for _, ev in chunks:
        for e in ev:
            if e["e"] == "Roc":
                nroc += 1
                ctx.case(("T", e["kind"], tuple(e["y"]), tuple(e["ord"])), True)
            elif e["e"] == "RegIn":
                ctx.case(("TR", tuple(e["yt"]), tuple(e["yp"]), e["exp"], e.get("off", 0)), True)
        ctx.traces(sum(1 for e in ev if e["e"] == "Reset"))
    if nroc == 0:
        raise InfraError("no Roc events recorded")
    # binding self-test: a wrong AUC / a wrong curve point / a wrong sum must be rejected
    first = chunks[0][1]
    blk = tlc.split_blocks(first)
    sample = [e for b in blk[:6] for e in b]

    def corrupt_auc(evs):
        for e in evs:
            if e["e"] == "Roc" and e["kind"] == "base":
                e["auc2"] += 1
                return True
        return False

    def corrupt_pr(evs):
        for e in evs:
            if e["e"] == "Pr" and len(e["pr"]) >= 2 and e["pr"][-1][0] >= 1:
                e["pr"][-1][0] -= 1          # recall no longer ends at 1
                return True
        return False

    def corrupt_sse(evs):
        for e in evs:
            if e["e"] == "Mse":
                e["ssen"] += 1
                return True
        return False
    trace.binding_selftest(ctx, "TraceStats", "Trace_Stats.cfg", sample, corrupt_auc, "binding_auc")
    trace.binding_selftest(ctx, "TraceStats", "Trace_Stats.cfg", sample, corrupt_pr, "binding_pr")
    regs = [e for b in blk for e in b if any(x["e"] == "RegIn" for x in b)][:40]
    if regs:
        trace.binding_selftest(ctx, "TraceStats", "Trace_Stats.cfg", regs, corrupt_sse, "binding_sse")
    for e in first:
        if e["e"] == "Roc" and e["n"] <= 12 and e["kind"] == "base":
            ctx.sample(e, 6)
            break


def run(ctx):
    ctx.assumptions += [
        "TLC's integer/rational arithmetic and the Stats.tla definitions are the reference (AUC by trapezoids over 2PN, PR area by trapezoids from (recall 0, precision 1), R2 = 1 - SSE/SST, BIAS = |1 - slope|)",
        "scores are tie-free (the property's quantifier); truths are exactly 0/1 or the missing code; R2/BIAS are judged only when the present truths are not constant",
        "replay compares doubles with the exact rationals within 1e-12 (relative, floor 1 or the squared scale), and within 1e-8 when truths and predictions share an offset of 2^20..2^30 units (conditioning of a computation on deviations; justified by ThShiftInvariant); the validate direction logs integers over the known denominators plus the residual in 1e-12 units, R2/BIAS at 1e-4",
        "in the validate direction the rank order handed to TLC is computed by the harness from its own scores (qsort), and the monotone maps are checked to preserve it in double precision",
        "ASan/UBSan build: any sanitizer report is a violation",
    ]
    r = _gen(ctx, "MC_Stats_quick.cfg" if ctx.quick else "MC_Stats_thorough.cfg", "mc_gen_stats")
    count = {}
    for e in r.emits:
        count[e["fam"]] = count.get(e["fam"], 0) + 1
    missing = [f for f in FAMS if not count.get(f)]
    if missing:
        raise InfraError("vacuous run: no case generated for families %s" % missing)
    if not any(e["fam"] == "Roc" and 2 in e["y"] for e in r.emits) or not any(e["fam"] == "Reg" and 99 in e["yt"] for e in r.emits):
        raise InfraError("vacuous run: no case with a missing-coded truth")
    if not any(e["fam"] in ("PlsReg", "PlsDa") and e["ny"] > 1 and e["nlv"] > 1 for e in r.emits):
        raise InfraError("vacuous run: no table case with several responses and latent variables")
    ctx.steps["mc_gen_stats"]["cases_per_family"] = count
    ctx.note("Stats: %d states, 14 theorems hold; %d cases printed %s (%.1fs)" % (r.distinct, len(r.emits), count, r.wall))
    rd = tlc.rundir()
    try:
        _replay_cases(ctx, r.emits, rd, FAMS)
        ctx.note("replay done")
        if ctx.quick:
            _trace_direction(ctx, rd, 4, 45, 200)
        else:
            _trace_direction(ctx, rd, 12, 250, 200)
    finally:
        shutil.rmtree(rd, ignore_errors=True)
    for e in r.emits:
        if e["fam"] == "Roc" and e["n"] == 5 and 2 in e["y"]:
            ctx.sample(e, 2)
            break
    for e in r.emits:
        if e["fam"] == "Reg" and e["n"] == 3 and 99 in e["yt"] and e["q"][2][1] > 0 and e["q"][0][0] > 0:
            ctx.sample(e, 3)
            break
    for e in r.emits:
        if e["fam"] == "PlsReg" and e["ny"] == 2 and e["nlv"] == 2:
            ctx.sample(e, 4)
            break
    ctx.cov["rule"] = ("TLC enumerates every (truth vector over {0,1,missing} with both classes, score order) for 2..%d objects and every pair of regression vectors over -2..2 "
                       "(+ one missing truth) up to length %d; each printed case is run through the real functions (4 score maps / 3 scales); table cases for ny 1..3 x nlv 1..3; "
                       "random recorded runs up to 200 objects are validated by TLC. A case is keyed by its input vectors; regression cases are non-trivial when the present "
                       "truths are not constant, table cases when ny > 1 and nlv > 1" % ((5, 3) if ctx.quick else (6, 4)))
    ctx.cov["exhaustive"] = True


def replay(ctx, body):
    case = body.get("case") or {}
    rd = tlc.rundir()
    try:
        if case.get("kind") == "case" and case.get("rec", {}).get("fam") in ("Roc", "Reg"):
            rec = case["rec"]
            p = os.path.join(rd, "one.txt")
            with open(p, "w") as f:
                f.write("\n".join(_case_lines(rec)) + "\n")
            out = os.path.join(rd, "one.ndjson")
            h = hrun.run(_exe(), ["one", p, out], timeout=600)
            ev = hrun.read_ndjson(out)
            if h.rc != 0:
                ctx.violation("STATS:%s:%s" % (rec["fam"], ":".join((h.san or "crash:rc%d" % h.rc).split(":")[:2])), _san_brief(h.err), case)
            if ev:
                _validate_events(ctx, ev, "replay_trace", lambda block: case)
                ctx.traces(sum(1 for e in ev if e["e"] == "Reset"))
            ctx.case(("replay", str(rec)))
            ctx.case(("replay2", str(rec)))
            ctx.sample(rec)
        elif case.get("kind") == "case" and case.get("rec", {}).get("fam") in ("PlsReg", "Mlr", "PlsDa"):
            fam = case["rec"]["fam"]
            cfg = tlc.write_cfg(os.path.join(rd, "replay.cfg"), spec="Spec", constants=dict(FamSet='{"%s"}' % fam, MaxN=2, MaxNMiss=0, RegN=1, RegEmitN=1, MaxNy=3, MaxNlv=3, DoEmit=True),
                                invariants=["ThLayout", "ThTablesDistinguish"], constraints=["EmitCase"], deadlock=False)
            g = _gen(ctx, cfg, "gen_replay")
            _replay_cases(ctx, g.emits, rd, [fam])
            ctx.sample(_inputs(g.emits[0]))
        elif case.get("kind") == "trace":
            a = case["args"]
            out = os.path.join(rd, "t.ndjson")
            h = hrun.run(_exe(), ["trace", out] + list(a), timeout=1200)
            ev = hrun.read_ndjson(out)
            if h.rc != 0:
                ctx.violation("STATS:trace:%s" % ":".join((h.san or "crash:rc%d" % h.rc).split(":")[:2]), _san_brief(h.err), case)
            _validate_events(ctx, ev, "replay_trace", lambda block: case)
            ctx.traces(sum(1 for e in ev if e["e"] == "Reset"))
            for e in ev:
                if e["e"] == "Roc":
                    ctx.case(("T", e["kind"], tuple(e["y"]), tuple(e["ord"])), True)
            ctx.sample([e for e in ev if e["e"] == "Roc"][0])
        else:
            return run(ctx)
        ctx.cov["rule"] = "replay of one reported case"
    finally:
        shutil.rmtree(rd, ignore_errors=True)
