"""C15 - regression and classification figures of merit equal their definitions.

(M)  Stats.tla: exact rational definitions of ROC / AUC (trapezoids over 2PN) / precision-recall curve and area, R2, MSE, MAE,
     BIAS with missing-coded truths skipped, and of the PLS / MLR / PLS-DA statistic tables (scalar functions at column
     ny*lv + j, layout shared with C03's Layout.tla).  TLC enumerates every truth vector x score order (n <= 5 quick, 6 thorough)
     and every pair of regression vectors over -2..2 (length <= 3 quick, 4 thorough, at most one missing truth) and checks the
     property's theorems as invariants: AUC = Mann-Whitney, monotone curve, 1 - AUC under negation, invariance under increasing
     maps and object reordering, recall non-decreasing ending at 1, PR area in [0,1], R2 <= 1, perfect prediction, MAE <= RMSE,
     missing truths ignored, layout bijective; round 3: class exchange mirrors the curve, AUC = 1 iff the scores separate the
     classes, a missing-coded object is transparent wherever it is ranked, precision steps, index sums = set sums, and the laws of
     the tolerance functions (ASSUME TolLaws).  StatsOut.tla / StatsHist.tla: what a routine does with an output that is not empty
     on entry ("assign" for PLS/MLRRegressionStatistics, "append" for ROC / PrecisionRecall / PLSDiscriminantAnalysisStatistics, read
     off the unchanged library); all call histories (pre-size, call, call again with another shape, re-initialise) are model-checked:
     under "assign" the table is always the latest call's, under "append" only its tail is - TLC must produce the counterexample -
     and with fresh outputs only the two are indistinguishable (FreshBlind: why a fresh-only generator missed the DVectorAppend change).
(GEN) the same run prints every case with the exact expected results.
(C)  replay: harness/c15_replay.c runs ROC, PrecisionRecall, curve_area, R2/MSE/RMSE/MAE/BIAS and the three table builders of
     the real library on every printed case (four increasing score maps / three dyadic scales), comparing point by point with
     the rationals (1e-12); every regression case is evaluated again with truths and predictions moved by a common offset of
     2^20 .. 2^30 units (|mean|/spread up to 1e9, exactly representable) against the SAME exact value (1e-8).
     validate: the same driver runs the library on long random inputs (n <= 200, arbitrary tie-free score distributions,
     increasing maps, permutations, negation, up to 20 % missing truths) and logs rank order + results as integers over the
     known denominators; TLC recomputes every curve / area / sum exactly and relates the events (TraceStats.tla; the all-pairs
     Mann-Whitney count up to 60 objects in the quick tier, for every length (Trace_Stats_deep*.cfg) in the thorough tier and for
     every class-directed block).
     validate, class-directed (round 3, `cls` mode of the driver): stratified blocks for the input / history classes of
     INPUT-CLASSES.md, each tagged (coverage.classes):
       K1 lengths 2, 3, 199, 200; tables ny=1 / ny>1 x nlv=1 / nlv>1 and wide (n < ny*nlv)
       K2 lengths 4, 5, 31..33, 63..65, 127..129
       K3 regression offsets 1e3 .. 2^30 at dyadic scales (R2/BIAS now exact numerator over D + 1e-12 residual, tolerance
          Stats!FineTol(offset, length, D)); scores 1e15 + k and 1e8 + k/1024
       K4 regression scales 2^-30 .. 2^30; scores all < 1e-297, all > 1e300, spanning 1e-300 .. 1e300 with both signs, denormal
       K5 decimal unit systems 1e-9 .. 1e9 (not exactly representable); scores 0.1*k and k/3
       K7 table builders into outputs that are fresh / pre-sized New*(n) with data / of another size / filled by a previous call
          of the same or another shape, every NULL-mask of the optional outputs; ROC inputs reused in place (same shape other
          data, other shape, first shape again); ROC / PrecisionRecall / PLS-DA into used outputs (implementation layer only)
       K8 scores 1 ulp apart (at 1, at -1e5, at 1e300), all negative; all-but-one positive / negative; alternating; perfect prediction
       K9 missing-coded truths first / last / first and last / 20 % / a different row in every response, for every latent variable
     Excluded with reason: K6 (no routine of C15 reaches an MT kernel or spawns workers), K10 (truths are binary by the quantifier),
     tied scores and non-finite scores (outside "without ties" / the library recodes non-finite values as missing), constant truths
     (R2/BIAS undefined), missing-coded truths in PLS-DA tables (classification vectors are "binary" in the quantifier).

Clause audit (statement clause -> model theorem | trace action / event that decides it on the real library):
  R2 / MSE / MAE / BIAS equal their formulas      Stats!R2q MSEq MAEq BIASq | replay Reg (Res) ; TR2 TMse TMae TBias (R2 Mse Mae Bias)
  RMSE^2 = MSE                                    (definition)               | replay Reg ; TRmse (Rmse)
  R2 = 1 and errors = 0 for perfect prediction    ThRegPerfect               | TR2 (q = 10000, num = D) TMse TMae (ssen = saen = 0), class K8:perfect-prediction
  R2 <= 1                                         ThRegBounds                | TR2 (q <= 10000, over <= tol)
  MAE <= RMSE                                     ThRegBounds                | replay Reg ; TMae (saen^2 <= m SSE on the recorded integers)
  missing-coded truths ignored                    ThMissingIgnored, ThMissingTransparent | Present()/Cnt() in every action; classes K9:*
  PLS/MLR tables = functions per response and LV  ThLayout ThTablesDistinguish StatsHist!TableIsLatest | replay PlsReg Mlr ; TTabIn TTabOut (TabIn TabOut)
  (PLS-DA tables, anchors)                        ThLayout                   | replay PlsDa ; TDaIn TDaOut (DaIn DaOut)
  ROC rises monotonically from (0,0) to (1,1)     ThRocMonotone              | replay Roc ; TRoc MonotoneCurve (Roc)
  area = Mann-Whitney probability                 ThMannWhitney              | TRoc auc2 = Area2(pts) = 2 Wins (n <= 60), TArea (Area)
  unchanged by strictly increasing maps           ThOrderOfScores            | TRoc kind "mono" (same auc2, same points as "base")
  unchanged by reordering the objects             ThReorder                  | TRoc kind "perm"
  1 - AUC when scores are negated                 ThComplement ThLabelSwap   | TRoc kind "neg"
  PR recall non-decreasing ending at 1            ThPrecisionRecall ThPrPoints | replay Roc ; TPr RecallCurve (Pr)
  PR area in [0,1]                                ThPrecisionRecall          | replay Roc ; TPr ap9 (Pr)
Outside the statement, specified and reported as EXTRA-FINDING only: curve_area on an arbitrary polyline (TPoly), the curve
slices PLSDiscriminantAnalysisStatistics appends to a used tensor (TDaSlices).
"""
import os, shutil, copy
from concurrent.futures import ThreadPoolExecutor
from vf import build, tlc, trace
from vf import run as hrun
from vf.core import InfraError
from checks.deferred import Deferred

LEVEL = "model_checking"
READY = True
TECHNIQUE = ("TLC as exact rational oracle: Stats.tla defines ROC/AUC/PR, R2/MSE/MAE/BIAS and the statistic tables, TLC enumerates all truth vectors x "
             "score orders and all small regression pairs, checks the property's theorems as invariants and prints cases + exact results; a C driver replays "
             "them through the real library, and records long random and class-directed runs (input classes K1-K9: sizes, offsets, unit systems, "
             "1-ulp / extreme scores, missing patterns, output histories of the table builders) whose curves/areas/sums/tables TLC recomputes exactly "
             "(trace validation); StatsHist.tla model-checks the output-reuse contracts (assign vs append)")
LEVEL_TEXT = ("All (truth vector, score order) pairs up to 5 (quick) / 6 (thorough) objects incl. one missing-coded truth, and all regression vector pairs over "
              "-2..2 up to length 3 / 4 with at most one missing truth, are enumerated by TLC; the theorems are invariants of that enumeration and every case's "
              "exact result is compared with the real functions. All call histories into one output (3 calls, lengths 1..3) are enumerated for both reuse "
              "contracts. Beyond the small scope, recorded executions on random and class-stratified inputs up to 200 objects (scalars, ROC/PR, and the "
              "three table builders with used / pre-sized / NULL outputs) are validated event by event by TLC against the same operators.")
LEVEL_NOTE = ("Trusts TLC's integer/rational arithmetic, the text conversion of TLC's output, the harness's 1e-12 comparison and its rank-order projection "
              "(qsort of its own scores) in the validate direction; R2/BIAS are logged as round(result * D) over D = m*Syy - Sy^2 (D recomputed by TLC) plus the "
              "residual in 1e-12 units, judged with the spec's tolerance function of offset, length and D. Scores are tie-free by construction (the property's "
              "quantifier); ASan/UBSan is the memory monitor. Classes not generated because the quantifier excludes them: tied or non-finite scores, constant "
              "truths, non-binary class labels (K10), missing-coded truths in PLS-DA tables, more than 20 % missing truths; K6 does not apply (no routine of "
              "C15 reaches an MT kernel). Used outputs of the 'append' routines (ROC, PrecisionRecall, PLSDiscriminantAnalysisStatistics) are recorded in the "
              "implementation-shaped layer only (SPEC-DRIFT, never a verdict).")

W = int(os.environ.get("VERIF_WORKERS", "16"))


def _san_brief(err):
    """the stable part of a sanitizer report (no pids / addresses, so that the same defect gives the same replay file)"""
    import re
    out = []
    for line in err.splitlines():
        m = re.match(r"\s*(#\d+) 0x[0-9a-f]+ (in \S+ \S+)", line)
        if m and len(out) < 6:
            out.append("  %s %s" % (m.group(1), m.group(2)))
        elif line.startswith("SUMMARY:") or "runtime error:" in line:
            out.append(line.strip())
    return "\n".join(out)[:1500]
FAMS = ["Roc", "Reg", "PlsReg", "Mlr", "PlsDa"]
EVENT_FN = {"Roc": "ROC", "Area": "curve_area", "Pr": "PrecisionRecall", "Mse": "MSE", "Mae": "MAE", "Rmse": "RMSE", "R2": "R2", "Bias": "BIAS",
            "DaOut": "PLSDiscriminantAnalysisStatistics"}
TAB_FN = {"PlsReg": "PLSRegressionStatistics", "Mlr": "MLRRegressionStatistics"}
INPUT_EVENTS = ("RegIn", "TabIn", "DaIn", "Reset")          # state only that the generated input is well formed and inside the quantifier
EXTRA_EVENTS = {"Poly": ("STATS:curve_area:polyline", "curve_area() on an arbitrary polyline is not the trapezoid sum of its points"),
                "DaSlices": ("STATS:PLSDiscriminantAnalysisStatistics:used-tensor",
                             "PLSDiscriminantAnalysisStatistics called with a roc / precision_recall tensor that already holds slices appends nlv ZERO slices and "
                             "writes the new curves over the FIRST nlv slices (roc->m[lv] instead of the appended slice): the previous call's curves are lost and "
                             "the appended slices are empty, while the AUC / AP tables are appended correctly")}


def _size_tag(n):
    """the size class of a vector length, named as size_cls() of the driver names them"""
    if n <= 3 or n >= 199:
        return "K1:n=%d" % n
    if n % 32 == 0:
        return "K2:n=%d(k*32)" % n
    if n % 32 in (1, 31):
        return "K2:n=%d(k*32+-1)" % n
    return "K2:n=k*4" if n % 4 == 0 else "K2:n=k*4+-r"


def _derived_tags(block):
    """class tags of a block of the RANDOM generator (its Reset carries none): read off the recorded inputs"""
    tags = []
    for e in block:
        if e["e"] == "Roc" and e["kind"] == "base":
            y = e["y"]
            tags.append(_size_tag(e["n"]))
            tags.append("K8:all-but-one-negative" if e["p"] == 1 else ("K8:all-but-one-positive" if e["nn"] == 1 else "K8:truths-random"))
            tags.append("K8:scores-random-distribution(%s)" % e.get("sc", "rand"))
            if 2 in y:
                tags.append("K9:missing-first-and-last" if y[0] == 2 and y[-1] == 2 else ("K9:missing-first" if y[0] == 2 else ("K9:missing-last" if y[-1] == 2 else "K9:missing-inside")))
                if 5 * y.count(2) >= len(y) - 4:
                    tags.append("K9:missing-20pct")
            else:
                tags.append("K9:no-missing")
        elif e["e"] == "RegIn":
            off, yt = abs(e.get("off", 0)), e["yt"]
            tags.append(_size_tag(e["n"]))
            if off:
                tags.append("K3:offset-%s" % ("1e9" if off >= 10 ** 9 else ("1e8" if off >= 10 ** 8 else ("1e6..1e8" if off >= 10 ** 6 else "<1e6"))))
            if e.get("dx", 0):
                tags.append("K5:scale-1e%d" % e["dx"])
            elif not off or e["exp"]:
                tags.append("K4:scale-2^%d" % e["exp"])
            if 99 in yt:
                tags.append("K9:missing-first-and-last" if yt[0] == 99 and yt[-1] == 99 else ("K9:missing-first" if yt[0] == 99 else ("K9:missing-last" if yt[-1] == 99 else "K9:missing-inside")))
            else:
                tags.append("K9:no-missing")
            if all(a == 99 or a == b for a, b in zip(yt, e["yp"])):
                tags.append("K8:perfect-prediction")
    return tags


def _flat(x, out):
    if isinstance(x, list):
        for v in x:
            _flat(v, out)
    else:
        out.append(int(x))
    return out


def _case_lines(e, with_expected=True):
    fam = e["fam"]
    if fam == "Roc":
        sc = [e["n"], e.get("p", 0), e.get("nn", 0), e.get("auc2", 0)] + list(e.get("ap", [0, 1]))
        arrs = [e["y"], e["ord"], e.get("roc", []), e.get("pr", [])]
    elif fam == "Reg":
        sc = [e["n"]]
        arrs = [e["yt"], e["yp"], e.get("q", [])]
    elif fam in ("PlsReg", "Mlr"):
        sc = [e["n"], e["ny"], e["nlv"]]
        arrs = [e["mt"], e["mp"], e["q"]]
    else:
        sc = [e["n"], e["ny"], e["nlv"]]
        ent, rocs, prs = [], [], []
        for row in e["q"]:
            for q in row:
                ent += [q["auc2"], q["p"], q["nn"]] + list(q["ap"])
                rocs.append(q["roc"])
                prs.append(q["pr"])
        arrs = [e["mt"], e["mp"], ent, rocs, prs]
    out = ["%s %d %d" % (fam, len(sc), len(arrs)), " ".join(map(str, sc))]
    for a in arrs:
        v = _flat(a, [])
        out.append("%d %s" % (len(v), " ".join(map(str, v))))
    return out


def _write_cases(path, emits):
    with open(path, "w") as f:
        for e in emits:
            f.write("\n".join(_case_lines(e)) + "\n")


def _inputs(e):
    keep = ("fam", "n", "y", "ord", "yt", "yp", "ny", "nlv", "mt", "mp")
    return {k: v for k, v in e.items() if k in keep}


def _exe():
    lib = build.build_lib("san")
    return build.build_harness("c15", ["c15_replay.c"], lib)


def _gen(ctx, cfg, label):
    r = tlc.run("Stats", cfg, workers=W, timeout=2400, coverage=False, xmx="8g")
    ctx.add_tlc(r, label)
    if not r.ok:
        raise InfraError("Stats.tla: theorem %s fails in the model itself:\n%s" % (r.violation, r.trace_text[:1500]))
    return r


def _defer(ctx, msg):
    """an infrastructure finding that a change to the library can provoke (a driver that hangs or dies early, classes / event kinds that are empty for that reason):
    remembered, everything recorded is still judged by TLC, settled at the end of run(); without a run() in progress (replay of a stored case) it is raised at once"""
    d = getattr(ctx, "_deferred", None)
    if d is None:
        raise InfraError(msg)
    d.add(msg)


def _replay_cases(ctx, emits, rd, fams):
    exe = _exe()
    cases = os.path.join(rd, "cases.txt")
    _write_cases(cases, emits)
    count = {}
    for e in emits:
        count[e["fam"]] = count.get(e["fam"], 0) + 1
    jobs = [["replay", cases, os.path.join(rd, "o-%s.ndjson" % f), f] for f in fams if count.get(f)]
    res = hrun.run_many(exe, jobs, timeout=2400, workers=W)
    for j, h in zip(jobs, res):
        fam = j[3]
        ev = hrun.read_ndjson(j[2])
        if h.timed_out:
            _defer(ctx, "c15 harness timed out on family %s" % fam)
        if h.rc == 2:
            raise InfraError("c15 harness format error on %s: %s" % (fam, h.err[-600:]))
        done = [e for e in ev if e["e"] == "Done"]
        nres = 0
        for e in ev:
            if e["e"] != "Res":
                continue
            nres += 1
            rec = emits[e["i"]]
            if fam == "Roc":
                ctx.case(("Roc", tuple(rec["y"]), tuple(rec["ord"])), True)
            elif fam == "Reg":
                ctx.case(("Reg", tuple(rec["yt"]), tuple(rec["yp"])), rec["q"][2][1] > 0)
            else:
                ctx.case((fam, rec["n"], rec["ny"], rec["nlv"]), rec["ny"] > 1 and rec["nlv"] > 1 or fam == "Mlr")
            for fl in e.get("fails", []):
                # ":offset" = correct on the unshifted data at all three scales, wrong only when truths and predictions share a large offset
                ctx.violation("STATS:%s%s" % (fl["fn"], ":offset" if fl.get("shifted") else ""),
                              "%s on %s: %s: got %s, the definition gives %s" % (fl["fn"], _inputs(rec), fl["what"], fl["got"], fl["want"]),
                              dict(kind="case", rec=_inputs(rec)))
        if h.timed_out:
            pass                # not a verdict (a hang cannot be told from machine load); the comparisons made so far were reported above
        elif h.rc != 0 or not done:
            crash = [e for e in ev if e["e"] == "Crash"]
            rec = emits[crash[-1]["i"]] if crash else {}
            kind = ":".join((h.san or "crash:rc%d" % h.rc).split(":")[:2])
            fn = (h.san or "").split(":")[2] if h.san and h.san.count(":") >= 2 else fam
            ctx.violation("STATS:%s:%s" % (fn, kind), "family %s, input %s: %s\n%s" % (fam, _inputs(rec), h.san or "rc=%d" % h.rc, _san_brief(h.err)),
                          dict(kind="case", rec=_inputs(rec)) if rec else None)
        elif done[0]["cases"] != count[fam] or nres != count[fam]:
            raise InfraError("c15 harness ran %s of %d cases of family %s" % (done[0]["cases"], count[fam], fam))


class _Plan:
    """TLC work of the validate directions, collected first and then run through ONE pool: trace validations (tasks), binding self-tests (bind), then the
    sequential evidence accounting (post).  A failing binding self-test is an infrastructure failure unless violations were reported (a broken library leaves
    no healthy block to corrupt)."""
    def __init__(self):
        self.tasks, self.bind, self.post = [], [], []

    def run(self, ctx):
        def go(f):
            try:
                f()
            except Exception as e:          # noqa: BLE001 - re-raised below in the main thread
                return e
        with ThreadPoolExecutor(max(1, W)) as ex:
            r1 = ex.map(go, self.tasks)
            r2 = ex.map(go, self.bind)
            r1, r2 = list(r1), list(r2)
        for e in r1:
            if e is not None:
                raise e
        if ctx.violations:
            if any(e is not None for e in r2):
                ctx.note("violations were reported: failing binding self-tests (they need healthy recorded blocks) are not counted")
        else:
            for e in r2:
                if e is not None:
                    raise e
        for f in self.post:
            f()


def _validate_events(ctx, events, label, replay_case, deep=False):
    def on_reject(ev, idx, block):
        kind = ev.get("e")
        if kind in INPUT_EVENTS:
            raise InfraError("the driver generated an input the specification does not admit (event %s)" % str(ev)[:400])
        if kind in EXTRA_EVENTS:
            ctx.extra(*EXTRA_EVENTS[kind])
            return
        tabin = next((b for b in block if b.get("e") == "TabIn"), {})
        fn = TAB_FN.get(tabin.get("fam"), "trace") if kind == "TabOut" else EVENT_FN.get(kind, "trace")
        head = next((b for b in block if b.get("e") in ("Roc", "RegIn", "TabIn", "DaIn")), {})
        inp = next((b for b in reversed(block[:block.index(ev) + 1]) if b.get("e") in ("Roc", "RegIn", "TabIn", "DaIn")), head)
        brief = {k: inp.get(k) for k in ("e", "kind", "sc", "fam", "n", "ny", "nlv", "exp", "dx", "off", "hist", "mask", "pre", "y", "ord", "yt", "yp", "mt", "mp") if k in inp}
        sig = "STATS:%s%s%s" % (fn, ":offset" if inp.get("off") else "", ":reuse" if inp.get("hist", "fresh") != "fresh" else "")
        ctx.violation(sig, "%s: what the library returned is not what the definition gives for the recorded input (event %s; input %s)"
                      % (fn, str({k: v for k, v in ev.items() if k not in ("y", "ord", "pts", "pr", "rocs", "prs")})[:400], str(brief)[:900]), replay_case(block))
    # deep: the all-pairs Mann-Whitney count is evaluated for every recorded length (to 200) instead of up to 60 objects
    cfgs = ("Trace_Stats_deep.cfg", "Trace_Stats_deep_prop.cfg") if deep else ("Trace_Stats.cfg", "Trace_Stats_prop.cfg")
    return trace.check_trace(ctx, "TraceStats", cfgs[0], cfgs[1], events, on_reject, drop="block", label=label, timeout=2400, max_rounds=8)


def _trace_direction(ctx, rd, nproc, blocks, maxn, plan):
    exe = _exe()
    jobs = [["trace", os.path.join(rd, "t%d.ndjson" % i), ctx.seed + 7919 * i, blocks, maxn] for i in range(nproc)]
    res = hrun.run_many(exe, jobs, timeout=2400, workers=W)
    chunks = []
    for j, h in zip(jobs, res):
        ev = hrun.read_ndjson(j[1])
        if h.timed_out:
            _defer(ctx, "c15 trace harness timed out")
        elif h.rc != 0:
            kind = ":".join((h.san or "crash:rc%d" % h.rc).split(":")[:2])
            fn = (h.san or "").split(":")[2] if h.san and h.san.count(":") >= 2 else "trace"
            ctx.violation("STATS:%s:%s" % (fn, kind), "random-input run seed=%s: %s\n%s" % (j[2], h.san or "rc=%d" % h.rc, _san_brief(h.err)),
                          dict(kind="trace", args=j[2:]))
        if not ev:
            _defer(ctx, "c15 trace harness produced no events")
            continue
        chunks.append((j, ev))

    for i, (j, ev) in enumerate(chunks):
        plan.tasks.append(lambda j=j, ev=ev, i=i: _validate_events(ctx, ev, "trace_stats_%d" % i,
                                                                   lambda block, j=j: dict(kind="trace", args=j[2:], block=[b for b in block][:12]), deep=not ctx.quick))

    def account():
        for _, ev in chunks:
            for blk_ in tlc.split_blocks(ev):
                for t in _derived_tags(blk_):
                    ctx.cls(t)
            for e in ev:
                if e["e"] == "Roc":
                    ctx.case(("T", e["kind"], tuple(e["y"]), tuple(e["ord"])), True)
                elif e["e"] == "RegIn":
                    ctx.case(("TR", tuple(e["yt"]), tuple(e["yp"]), e["exp"], e.get("off", 0), e.get("dx", 0)), True)
            ctx.traces(sum(1 for e in ev if e["e"] == "Reset"))
    plan.post.append(account)
    if not any(e["e"] == "Roc" for _, ev in chunks for e in ev):
        _defer(ctx, "no Roc events recorded")
    if not chunks:
        return
    # binding self-test: a wrong AUC / a wrong curve point / a wrong sum must be rejected
    first = chunks[0][1]
    blk = tlc.split_blocks(first)
    sample = [e for b in blk[:6] for e in b]

    def corrupt_auc(evs):
        for e in evs:
            if e["e"] == "Roc" and e["kind"] == "base":
                e["auc2"] += 1
                return True
        return False

    def corrupt_pr(evs):
        for e in evs:
            if e["e"] == "Pr" and len(e["pr"]) >= 2 and e["pr"][-1][0] >= 1:
                e["pr"][-1][0] -= 1          # recall no longer ends at 1
                return True
        return False

    def corrupt_sse(evs):
        for e in evs:
            if e["e"] == "Mse":
                e["ssen"] += 1
                return True
        return False

    def corrupt_r2num(evs):
        for e in evs:
            if e["e"] == "R2":
                e["num"] += 1          # the 1e-4 value q still fits: only the exact numerator is wrong
                return True
        return False
    def bind(evs, corrupt, label, cfg="Trace_Stats.cfg"):
        plan.bind.append(lambda: trace.binding_selftest(ctx, "TraceStats", cfg, evs, corrupt, label))
    bind(sample, corrupt_auc, "binding_auc")
    bind(sample, corrupt_pr, "binding_pr")
    regs = [e for b in blk for e in b if any(x["e"] == "RegIn" for x in b)][:40]
    if regs:
        bind(regs, corrupt_sse, "binding_sse")
        bind(regs, corrupt_r2num, "binding_r2_numerator")
    for e in first:
        if e["e"] == "Roc" and e["n"] <= 12 and e["kind"] == "base":
            ctx.sample(e, 6)
            break


# classes the class-directed run must really have emitted (vacuity: a generator change that silently drops a class is an infrastructure failure)
REQUIRED_CLASSES = (
    ["K1:n=2", "K1:n=3", "K1:n=199", "K1:n=200", "K2:n=k*4", "K2:n=k*4+-r", "K2:n=32(k*32)", "K2:n=31(k*32+-1)", "K2:n=33(k*32+-1)", "K2:n=64(k*32)", "K2:n=63(k*32+-1)",
     "K2:n=65(k*32+-1)", "K2:n=128(k*32)", "K2:n=127(k*32+-1)", "K2:n=129(k*32+-1)",
     "K1:table-wide(n<ny*nlv)", "K1:table-ny=1,nlv=1", "K1:table-ny=1,nlv>1", "K1:table-ny>1,nlv=1", "K1:table-ny>1,nlv>1",
     "K3:offset-<1e6", "K3:offset-1e6..1e8", "K3:offset-1e8", "K3:offset-1e9", "K3:scores-offset-1e15", "K3:scores-offset-1e8-spacing-2^-10",
     "K4:scale-2^-30", "K4:scale-2^-20", "K4:scale-2^-7", "K4:scale-2^0", "K4:scale-2^9", "K4:scale-2^20", "K4:scale-2^30",
     "K4:scores-span-1e-300..1e300", "K4:scores-all-below-1e-297", "K4:scores-all-above-1e300", "K4:scores-denormal",
     "K5:scale-1e-9", "K5:scale-1e-6", "K5:scale-1e-3", "K5:scale-1e-1", "K5:scale-1e1", "K5:scale-1e3", "K5:scale-1e6", "K5:scale-1e9", "K5:scores-0.1*k", "K5:scores-k/3",
     "K7:outputs-fresh", "K7:outputs-presized-New(n)", "K7:outputs-other-size-with-data", "K7:outputs-from-previous-call-same-shape",
     "K7:outputs-from-previous-call-other-shape", "K7:inputs-reused-in-place", "K7:curve-output-presized-New(n)", "K7:curve-output-from-previous-call"]
    + ["K7:outputs-mask-%d" % m for m in range(1, 7)]
    + ["K8:scores-normal", "K8:scores-1ulp-apart", "K8:scores-1ulp-apart-negative", "K8:scores-1ulp-apart-at-1e300", "K8:scores-all-negative",
       "K8:all-but-one-negative", "K8:all-but-one-positive", "K8:truths-alternating", "K8:perfect-prediction",
       "K9:missing-first", "K9:missing-last", "K9:missing-first-and-last", "K9:missing-20pct", "K9:missing-other-row-per-response",
       "fam:PLSRegressionStatistics", "fam:MLRRegressionStatistics", "fam:PLSDiscriminantAnalysisStatistics", "fam:curve_area"])
REQUIRED_EVENTS = ("Roc", "Area", "Pr", "RegIn", "Mse", "Mae", "Rmse", "R2", "Bias", "Again", "TabIn", "TabOut", "DaIn", "DaOut", "DaSlices", "Poly")


def _hist_models(ctx):
    """StatsHist.tla: the reuse contracts over all call histories; the 'append' contract MUST violate TableIsLatest (the model distinguishes them)"""
    for cfg, want in (("MC_StatsHist_assign.cfg", None), ("MC_StatsHist_append.cfg", None), ("MC_StatsHist_append_neg.cfg", "TableIsLatest")):
        r = tlc.run("StatsHist", cfg, workers=1, timeout=600, coverage=(want is None), xmx="1g")
        ctx.add_tlc(r, "mc_" + cfg[3:-4].lower())
        if want is None:
            if not r.ok:
                raise InfraError("StatsHist.tla (%s): %s fails in the model itself:\n%s" % (cfg, r.violation, r.trace_text[:1200]))
            zero = r.zero_actions()
            if zero:
                raise InfraError("StatsHist.tla (%s): actions never taken: %s" % (cfg, zero))
        elif r.ok or r.violation != want:
            raise InfraError("StatsHist.tla: the 'append' contract must violate %s (it tells the contracts apart); TLC says ok=%s violation=%s" % (want, r.ok, r.violation))
    ctx.note("StatsHist: 'assign' keeps TableIsLatest over all histories, 'append' only TailIsLatest (counterexample produced), FreshBlind holds for both")


def _cls_direction(ctx, rd, level, nparts, plan, only_part=None):
    """class-directed validate direction: stratified blocks for K1..K9 (driver mode `cls`), every block validated by TLC"""
    exe = _exe()
    parts = range(nparts) if only_part is None else [only_part]
    jobs = [["cls", os.path.join(rd, "k%d.ndjson" % i), ctx.seed, level, i, nparts] for i in parts]
    res = hrun.run_many(exe, jobs, timeout=2400, workers=W)
    chunks = []
    for j, h in zip(jobs, res):
        ev = hrun.read_ndjson(j[1])
        if h.timed_out:
            _defer(ctx, "c15 class-directed harness timed out")
        elif h.rc == 2:
            raise InfraError("c15 class-directed harness: %s" % h.err[-600:])
        elif h.rc != 0:
            kind = ":".join((h.san or "crash:rc%d" % h.rc).split(":")[:2])
            fn = (h.san or "").split(":")[2] if h.san and h.san.count(":") >= 2 else "trace"
            last = next((e for e in reversed(ev) if e["e"] == "Reset"), {})
            ctx.violation("STATS:%s:%s" % (fn, kind), "class-directed run %s, after block %s: %s\n%s" % (j[2:], last.get("cls"), h.san or "rc=%d" % h.rc, _san_brief(h.err)),
                          dict(kind="cls", args=j[2:]))
        if not ev:
            _defer(ctx, "c15 class-directed harness produced no events")
            continue
        chunks.append((j, ev))
    seen = {}
    for _, ev in chunks:
        for e in ev:
            seen[e["e"]] = seen.get(e["e"], 0) + 1
    if only_part is None and not ctx.violations:
        missing = [k for k in REQUIRED_EVENTS if not seen.get(k)]
        if missing:
            _defer(ctx, "vacuous class-directed run: no event of kind %s" % missing)       # settled after the trace validation

    extra_poly, extra_da = [], []
    for i, (j, ev) in enumerate(chunks):
        # behaviour outside the statement (EXTRA) is validated apart so that its rejection never hides statement-level events of the same trace
        for b in tlc.split_blocks(ev):
            if any(x["e"] == "Poly" for x in b):
                extra_poly.append(b)
            elif any(x["e"] == "DaSlices" for x in b):
                extra_da.append(b)
        main = [e for e in ev if e["e"] not in EXTRA_EVENTS]
        rc = lambda block, j=j: dict(kind="cls", args=j[2:], block=[{k: v for k, v in b.items() if k not in ("rocs", "prs")} for b in block][:6])
        plan.tasks.append(lambda main=main, i=i, rc=rc: _validate_events(ctx, main, "trace_cls_%d" % i, rc, deep=True))
    # every polyline block, and a few of the used-tensor blocks (on the unchanged tree each of them is rejected: one TLC round per block)
    extra_all = [e for b in extra_poly + extra_da[:3] for e in b]
    if extra_all:
        plan.tasks.append(lambda: _validate_events(ctx, extra_all, "trace_cls_extra", lambda block: dict(kind="cls", args=chunks[0][0][2:])))
    got = {}
    for _, ev in chunks:
        for blk in tlc.split_blocks(ev):
            for t in blk[0].get("cls", []):
                got[t] = got.get(t, 0) + 1

    def account():
        for t, k in got.items():
            ctx.cls(t, k)
        for _, ev in chunks:
            for e in ev:
                if e["e"] == "Roc":
                    ctx.case(("K", e["kind"], e.get("sc"), tuple(e["y"]), tuple(e["ord"])), True)
                elif e["e"] == "RegIn":
                    ctx.case(("KR", tuple(e["yt"]), tuple(e["yp"]), e["exp"], e["off"], e["dx"]), True)
                elif e["e"] == "TabIn":
                    ctx.case(("KT", e["fam"], e["hist"], e["mask"], e["exp"], e["off"], str(e["mt"]), str(e["mp"])), True)
                elif e["e"] == "DaIn":
                    ctx.case(("KD", e["hist"], str(e["mt"]), str(e["ords"])), True)
                elif e["e"] == "Poly":
                    ctx.case(("KP", e["exp"], str(e["pts"])), True)
            ctx.traces(sum(1 for e in ev if e["e"] == "Reset"))
    plan.post.append(account)
    if only_part is not None:
        return
    lacking = [t for t in REQUIRED_CLASSES if not got.get(t)]
    if lacking and not ctx.violations:       # (a crashed driver run is already reported as a violation: its remaining blocks are missing for that reason)
        _defer(ctx, "class-directed run did not emit the classes %s" % lacking)
    # binding self-tests, one per new event kind: a corrupted recorded field must be rejected
    allev = [e for _, ev in chunks for e in ev]
    blocks = tlc.split_blocks(allev)

    def pick(pred):
        b = next((b for b in blocks if pred(b)), None)
        if b is None:
            _defer(ctx, "binding self-test: no block of the wanted kind was recorded")
        return b

    def bind(cfg, evs, corrupt, label):
        if evs is None:
            return              # (deferred above: the driver died before it recorded such a block)
        plan.bind.append(lambda: trace.binding_selftest(ctx, "TraceStats", cfg, evs, corrupt, label))

    def mut(kind, fn):
        def go(evs):
            for e in evs:
                if e["e"] == kind and fn(e):
                    return True
            return False
        return go

    def bump(path):
        def f(e):
            o = e
            for k in path[:-1]:
                o = o[k]
            o[path[-1]] += 1
            return True
        return f
    tabs = pick(lambda b: any(e["e"] == "TabIn" and e["fam"] == "PlsReg" and e["ny"] > 1 and e["nlv"] > 1 and e["mask"] == 7 for e in b))
    bind("Trace_Stats_prop.cfg", tabs, mut("TabOut", bump(["ent", 1, 4])), "binding_table_r2_entry")
    bind("Trace_Stats_prop.cfg", tabs, mut("TabOut", bump(["ent", 2, 1])), "binding_table_rmse_entry")
    bind("Trace_Stats_prop.cfg", tabs, mut("TabOut", bump(["dims", 0, 0])), "binding_table_dims")

    def swap_cols(e):                      # the LV-major layout: exchanging the entries of (lv 1, j 2) and (lv 2, j 1) must be noticed
        ny = len(tabs[1]["mt"][0])
        a, b = 1, ny
        if e["ent"][a] == e["ent"][b]:
            return False
        e["ent"][a], e["ent"][b] = e["ent"][b], e["ent"][a]
        return True
    bind("Trace_Stats_prop.cfg", tabs, mut("TabOut", swap_cols), "binding_table_layout")
    mlr = pick(lambda b: any(e["e"] == "TabIn" and e["fam"] == "Mlr" and e["hist"] == "presized" for e in b))

    def doubled(e):                        # what an appending MLRRegressionStatistics leaves in a pre-sized vector
        for d in e["dims"]:
            if d[1] > 0:
                d[1] *= 2
        return True
    bind("Trace_Stats_prop.cfg", mlr, mut("TabOut", doubled), "binding_table_reuse_count")
    da = pick(lambda b: any(e["e"] == "DaIn" and e["hist"] == "fresh" and e["ny"] > 1 and e["nlv"] > 1 for e in b))
    bind("Trace_Stats_prop.cfg", da, mut("DaOut", bump(["ent", 1, 0])), "binding_da_auc")
    bind("Trace_Stats_prop.cfg", da, mut("DaOut", bump(["rocs", 1, 2, 0])), "binding_da_slice")
    da2 = pick(lambda b: any(e["e"] == "DaIn" and e["hist"] == "second" for e in b))
    da2 = None if da2 is None else [e for e in da2 if e["e"] != "DaSlices"]
    bind("Trace_Stats.cfg", da2, mut("DaOut", bump(["dims", 0])), "binding_da_append_impl")
    ag = pick(lambda b: any(e["e"] == "Again" for e in b))
    bind("Trace_Stats.cfg", ag, mut("Again", bump(["rows"])), "binding_again_impl")
    po = pick(lambda b: any(e["e"] == "Poly" for e in b))
    bind("Trace_Stats_prop.cfg", po, mut("Poly", bump(["a2"])), "binding_poly")
    regoff = pick(lambda b: any(e["e"] == "RegIn" and e["off"] >= 10 ** 9 and e["n"] >= 30 for e in b))

    def res_over(e):                       # the residual field is bound: a result 2e-3 away from the exact fraction must be rejected whatever the offset allows
        e["res"] = 1999999999
        return True
    bind("Trace_Stats_prop.cfg", regoff, mut("R2", res_over), "binding_r2_offset_tolerance")
    for b in blocks:
        if any(e["e"] == "TabIn" and e["hist"] == "second" and e["n"] <= 9 for e in b):
            ctx.sample([{k: v for k, v in e.items()} for e in b], 8)
            break


def run(ctx):
    ctx.assumptions += [
        "TLC's integer/rational arithmetic and the Stats.tla definitions are the reference (AUC by trapezoids over 2PN, PR area by trapezoids from (recall 0, precision 1), R2 = 1 - SSE/SST, BIAS = |1 - slope|)",
        "scores are tie-free (the property's quantifier); truths are exactly 0/1 or the missing code; R2/BIAS are judged only when the present truths are not constant",
        "replay compares doubles with the exact rationals within 1e-12 (relative, floor 1 or the squared scale), and within 1e-8 when truths and predictions share an offset of 2^20..2^30 units (conditioning of a computation on deviations; justified by ThShiftInvariant); the validate direction logs integers over the known denominators plus the residual in 1e-12 units; R2/BIAS as round(result*D) over D = m*Syy - Sy^2 with the residual judged by Stats!FineTol = (1 + OffAllow(offset, length, D)) * (2 + |result|) units of 1e-12 (OffAllow = 0 without offset, <= 8 at offset 2^30 and 200 cells; the 1e-4 comparison of round 1 is kept alongside)",
        "regression inputs of the validate direction are integers in -5..5 fed as (v + offset) * 2^e (e in -30..30, exactly representable) or, without offset, v * 10^d (d in -9..9); no present truth lies within 1 of the missing code 99999999; at most 20 % of the truths are missing-coded (the trace specification itself rejects an input outside these bounds as an infrastructure failure)",
        "what a routine does with an output that is not empty on entry is judged only for the routines that resize and assign on the unchanged library (PLSRegressionStatistics, MLRRegressionStatistics: StatsOut!ContractOf = assign); for the appending routines (ROC, PrecisionRecall, PLSDiscriminantAnalysisStatistics) it is recorded in the implementation-shaped layer (SPEC-DRIFT) or reported as EXTRA-FINDING",
        "in the validate direction the rank order handed to TLC is computed by the harness from its own scores (qsort), and the monotone maps are checked to preserve it in double precision",
        "ASan/UBSan build: any sanitizer report is a violation",
    ]
    ctx._deferred = Deferred(ctx)
    r = _gen(ctx, "MC_Stats_quick.cfg" if ctx.quick else "MC_Stats_thorough.cfg", "mc_gen_stats")
    count = {}
    for e in r.emits:
        count[e["fam"]] = count.get(e["fam"], 0) + 1
    missing = [f for f in FAMS if not count.get(f)]
    if missing:
        raise InfraError("vacuous run: no case generated for families %s" % missing)
    if not any(e["fam"] == "Roc" and 2 in e["y"] for e in r.emits) or not any(e["fam"] == "Reg" and 99 in e["yt"] for e in r.emits):
        raise InfraError("vacuous run: no case with a missing-coded truth")
    if not any(e["fam"] in ("PlsReg", "PlsDa") and e["ny"] > 1 and e["nlv"] > 1 for e in r.emits):
        raise InfraError("vacuous run: no table case with several responses and latent variables")
    ctx.steps["mc_gen_stats"]["cases_per_family"] = count
    ctx.note("Stats: %d states, 19 theorems hold; %d cases printed %s (%.1fs)" % (r.distinct, len(r.emits), count, r.wall))
    _hist_models(ctx)
    rd = tlc.rundir()
    try:
        _replay_cases(ctx, r.emits, rd, FAMS)
        ctx.note("replay done")
        plan = _Plan()
        if ctx.quick:
            _trace_direction(ctx, rd, 4, 45, 200, plan)
            _cls_direction(ctx, rd, 1, 4, plan)
        else:
            _trace_direction(ctx, rd, 12, 250, 200, plan)
            _cls_direction(ctx, rd, 2, 12, plan)
        ctx.note("validate directions: %d recorded traces and %d binding self-tests go to TLC" % (len(plan.tasks), len(plan.bind)))
        plan.run(ctx)
        ctx.note("validate directions done")
    finally:
        shutil.rmtree(rd, ignore_errors=True)
    for e in r.emits:
        if e["fam"] == "Roc" and e["n"] == 5 and 2 in e["y"]:
            ctx.sample(e, 2)
            break
    for e in r.emits:
        if e["fam"] == "Reg" and e["n"] == 3 and 99 in e["yt"] and e["q"][2][1] > 0 and e["q"][0][0] > 0:
            ctx.sample(e, 3)
            break
    for e in r.emits:
        if e["fam"] == "PlsReg" and e["ny"] == 2 and e["nlv"] == 2:
            ctx.sample(e, 4)
            break
    ctx.cov["rule"] = ("TLC enumerates every (truth vector over {0,1,missing} with both classes, score order) for 2..%d objects and every pair of regression vectors over -2..2 "
                       "(+ one missing truth) up to length %d; each printed case is run through the real functions (4 score maps / 3 scales); table cases for ny 1..3 x nlv 1..3; "
                       "random recorded runs up to 200 objects are validated by TLC, and a class-directed run emits a stratified handful of blocks for every input / "
                       "history class of INPUT-CLASSES.md that lies inside the quantifier (coverage.classes counts the executed blocks per class tag; the run fails "
                       "as infrastructure if a required class was not emitted). A case is keyed by its input vectors (+ unit system, output history); regression cases "
                       "are non-trivial when the present truths are not constant, table cases when ny > 1 and nlv > 1" % ((5, 3) if ctx.quick else (6, 4)))
    ctx.cov["exhaustive"] = True
    ctx._deferred.settle()


def replay(ctx, body):
    case = body.get("case") or {}
    rd = tlc.rundir()
    try:
        if case.get("kind") == "case" and case.get("rec", {}).get("fam") in ("Roc", "Reg"):
            rec = case["rec"]
            p = os.path.join(rd, "one.txt")
            with open(p, "w") as f:
                f.write("\n".join(_case_lines(rec)) + "\n")
            out = os.path.join(rd, "one.ndjson")
            h = hrun.run(_exe(), ["one", p, out], timeout=600)
            ev = hrun.read_ndjson(out)
            if h.rc != 0:
                ctx.violation("STATS:%s:%s" % (rec["fam"], ":".join((h.san or "crash:rc%d" % h.rc).split(":")[:2])), _san_brief(h.err), case)
            if ev:
                _validate_events(ctx, ev, "replay_trace", lambda block: case)
                ctx.traces(sum(1 for e in ev if e["e"] == "Reset"))
            ctx.case(("replay", str(rec)))
            ctx.case(("replay2", str(rec)))
            ctx.sample(rec)
        elif case.get("kind") == "case" and case.get("rec", {}).get("fam") in ("PlsReg", "Mlr", "PlsDa"):
            fam = case["rec"]["fam"]
            cfg = tlc.write_cfg(os.path.join(rd, "replay.cfg"), spec="Spec", constants=dict(FamSet='{"%s"}' % fam, MaxN=2, MaxNMiss=0, RegN=1, RegEmitN=1, MaxNy=3, MaxNlv=3, DoEmit=True),
                                invariants=["ThLayout", "ThTablesDistinguish"], constraints=["EmitCase"], deadlock=False)
            g = _gen(ctx, cfg, "gen_replay")
            _replay_cases(ctx, g.emits, rd, [fam])
            ctx.sample(_inputs(g.emits[0]))
        elif case.get("kind") == "cls":
            a = case["args"]
            ctx.seed = int(a[0])
            plan = _Plan()
            _cls_direction(ctx, rd, int(a[1]), int(a[3]), plan, only_part=int(a[2]))
            plan.run(ctx)
            ctx.sample(case.get("block", [{}])[0])
        elif case.get("kind") == "trace":
            a = case["args"]
            out = os.path.join(rd, "t.ndjson")
            h = hrun.run(_exe(), ["trace", out] + list(a), timeout=1200)
            ev = hrun.read_ndjson(out)
            if h.rc != 0:
                ctx.violation("STATS:trace:%s" % ":".join((h.san or "crash:rc%d" % h.rc).split(":")[:2]), _san_brief(h.err), case)
            _validate_events(ctx, ev, "replay_trace", lambda block: case)
            ctx.traces(sum(1 for e in ev if e["e"] == "Reset"))
            for e in ev:
                if e["e"] == "Roc":
                    ctx.case(("T", e["kind"], tuple(e["y"]), tuple(e["ord"])), True)
            ctx.sample([e for e in ev if e["e"] == "Roc"][0])
        else:
            return run(ctx)
        ctx.cov["rule"] = "replay of one reported case"
    finally:
        shutil.rmtree(rd, ignore_errors=True)
