"""C04 - PLS regression is a correct least-squares family (OLS limit, coefficient form, monotone RSS / R2, affine equivariance).

Clause table of the statement (spec operator that decides it - event that carries it; all in spec/PlsLs.tla, which EXTENDS the shared
Pls.tla without changing it; events of the classes that existed before are decided by the very operators PRss / POls / PBeta / PAffine of
Pls.tla, theorem ThTolBase):
  S1  "with as many LVs as rank(X) the PLS fitted responses coincide with the OLS fitted responses (computed independently), one or many
       responses, any scaling of either block"   LOls: full = 1 => err <= TolOlsOf /\\ |rssPls - rssOls| <= TolRssFullOf      - Ols{j,rssPls,rssOls,err,full,bn}
  S2  "the training RSS never increases when an LV is added"   LRss: rss <= prev[j] + TolMonoOf (prev held by TLC); no model beats the
       least-squares optimum (floorRss)                                                                                         - Rss{a,j,rss,..}, Ols
  S3  "R2 is non-decreasing in the LV count"   LRss / R2Guard: the REPORTED R2 of PLSRegressionStatistics is linked to One - rss (centred
       response) and never falls below the previous reported value of that response (r2prev held by TLC); r2gap ties reported R2 / RMSE
       to their definitions                                                                                                      - Rss{..,r2gap,r2,dr}
  S4  "the coefficient form for a LVs predicts exactly what the score-based predictor predicts, training and unseen objects"
       LBeta: errTrain, errNew <= TolBetaOf for every a in 1..nlv (single response: the form the API returns)                   - Beta{a,errTrain,errNew}
  S5  "predictions of a single centred response are equivariant to y -> c*y + d"   LAffine (ny = 1, ysc >= 0, c # 0)             - Affine{c,d,off,errTrain,errNew}
  Q   quantifier: LFit = PFit of Pls.tla + full column rank shapes (n >= p; n = p only uncentred), p <= 10, ny <= 3, nlv <= rank; class
       tags (shape, block codes, history position / relation) re-derived by TLC                                                  - Fit{...}
       "all scaling pairs": LOls records the (x option, y option, one / several responses) of every accepted OLS limit, LCovered
       requires all 7 x 7 x 2 at the end of the stratified run                                                                   - Ols, Covered{count}
  not stated, modelled (a rejection is an EXTRA-FINDING, never a verdict): bias = |1 - slope| (LBias - Bias), per-column change of units
  (LXUnits - XUnits), exact fit from the Krylov count on (LExact - Exact), OLS coefficients applied to unseen objects = score-based
  predictions at nlv = rank (LOlsNew - OlsNew), change of units of the whole predictor block (LXScale - XScale: the statement's equivariance
  clause S5 is about the RESPONSE; a verdict until the follow-up of round 3, where a rejected XScale turned out to be the symptom of a stated
  defect - S4 / S2 on latent variables without covariance - which is now exercised on primary problems).  As before: statistics on unseen
  objects (LStat) and the predictor looped into one output (LReuse) are verdicts.

(M)  Pls.tla, least-squares scope (unchanged): the ledger's step guards imply InvR2Range / InvFloor.  PlsLs.tla: the extended ledger
     (tolerances that are functions of the logged offsets / objects / least-squares coefficient size, reported-R2 ledger, history ledger)
     is model-checked with every guard tried at its tolerance and one unit above, for offsets below / at / far above the thresholds:
     InvR2RangeK, InvFloorK, InvR2Link (reported R2 on the ledger = One - rss on the ledger), InvHist, PropR2Mono; the variant WITHOUT the
     direct guard on R2 shows PropR2Derived (S3 follows from S2 + the link); theorems ThTolBase (below 1000 spreads every tolerance IS the
     old one), ThTolMonotone, ThTolMeaningful are checked as assumptions (TLC found two 32-bit overflows in them while they were written).
(C)  c04_drv fits real PLS models.  mode base: the problems of the earlier rounds (X 6..40 x 1..10, n >= p+2, 1..3 responses, noise
     0..dominant, all scaling pairs, 1..rank LVs, 3..10 unseen objects, every eighth case one predictor in small units).  mode pairs: the
     quantifier "all scaling pairs, one or many responses" stratified - 7 x 7 option pairs x {ny = 1, ny > 1} at nlv = rank; the ledger keeps
     the set of strata on which the OLS limit was accepted and the trace ends with the event that requires all 98 (LCovered).  mode cls: the
     input / history classes of INPUT-CLASSES.md inside the quantifier - K1 n = p+1, n = p+2, square X used uncentred, single predictor,
     one / two unseen objects, more unseen than training objects, nlv = 1 with several responses; K2 n around 8 / 16 / 32 / 40, p and nlv around 4 and 8; K3 centred
     predictors / responses 1e2..1e8 spreads from the origin, affine maps with |d| up to 1e8 spreads; K4 whole blocks in units 1e-6..1e5,
     per-column unit systems 2^-8..2^15; K5 grids of 0.1, 1/3, 1e-3; K7 fit A, fit A' (same dimensions, other data), fit B (other
     dimensions), fit A again in ONE process, every one projected in full, output objects carried from fit to fit / already sized and
     holding other data / of another shape, model objects at the address a freed model had (measured per fit: End.addr; AddressSanitizer's
     quarantine is switched off in this mode so that addresses really are reused); K8 responses that are exact linear functions of X with an exact fit BEFORE nlv = rank
     (orthogonal predictor groups; two-level design with an exactly zero residual -> null latent variables; the same design in other units ->
     the residual is rounding residue; a response with an interaction that is not a predictor -> a large residual exactly orthogonal to X:
     no covariance left although nlv <= rank), duplicated / mirrored /
     dependent responses, duplicate objects.  Per model: RSS per (a, j), reported R2 / RMSE / bias, independent least squares (LAPACK
     dgels on the design centred in extended precision), coefficient form, statistics on unseen objects, paired models of c*y+d and X*s.
     TLC validates every event against TracePlsLs.tla, holding the previous rss / reported R2 per response and the history of the process.
"""
import copy, os, shutil
from concurrent.futures import ThreadPoolExecutor
from vf import build, tlc, trace, ledgerkit
from vf import run as hrun
from vf.core import InfraError

LEVEL = "exploration"
READY = True
TECHNIQUE = ("TLC model checking of the least-squares ledger (Pls.tla) and of its extension PlsLs.tla (tolerance functions of the logged offsets, reported-R2 "
             "ledger linked to the rss ledger, history ledger; theorems on the tolerance functions as checked assumptions; S3 derived from S2 + link) + TLC trace "
             "validation (TracePlsLs.tla) of residual sums of squares, reported R2, OLS-limit, coefficient-form and affine-equivariance residuals recorded "
             "from real PLS models of every input / history class inside the quantifier against LAPACK dgels")
LEVEL_TEXT = ("Sampled exploration: seeded random regression problems inside the property's quantifier - the base problems and the classes K1 (n = p+1, n = p+2, "
              "square uncentred, single predictor, one unseen object, more unseen than training objects), K2 (block-size boundaries of n, p, nlv), K3 (offsets up to 1e8 spreads on centred blocks, affine "
              "d up to 1e8 spreads), K4 (whole-block units 1e-6..1e5, per-column units 2^-8..2^15), K5 (tied grids), K7 (four fits per process, outputs holding other "
              "data, model addresses reused), K8 (exact fit before nlv = rank, null latent variables, dependent responses, duplicate objects) - are fitted by the real library; for every model "
              "the per-response residual sums of squares and reported R2 for a = 1..nlv, the independent least-squares optimum (LAPACK dgels), coefficient-form vs "
              "score-form predictions on training and unseen objects, reported R2/RMSE and paired affine / change-of-units runs are logged and TLC validates each step "
              "of the ledger, holding the previous rss and reported R2 of every response and the fit history of the process in the specification's state.")
LEVEL_NOTE = ("Trusts TLC, LAPACK dgels/dgesdd as independent oracles, the harness's double / extended precision residual evaluation and quantisation (binding self-tests "
              "corrupt one logged field per event kind). Sampled, not exhaustive. For scaling option -1 (no centring) the least-squares reference is the design the model "
              "then spans (no intercept column); a centred block is centred in extended precision before dgels. Classes left out because the quantifier / statement "
              "excludes them: wide X and square X with a centring option ('full-column-rank X': the preprocessed X then has rank n-1 < p; C03 covers those shapes), K6 "
              "(PLS, PLSBetasCoeff, PLSYPredictorAllLV, PLSRegressionStatistics reach no MT_* kernel and spawn no workers), K9 (the statement does not mention missing "
              "values; all values stay below 1e7, far from the MISSING code), K10 (no labels), constant predictors / responses (full column rank, non-constant Y), K3 "
              "offsets on a block used uncentred (option -1: the offset is signal, cond grows with it, no input-computable bound holds) and with level scaling (option 5: "
              "refused by the zero-scale admission), K4 tiny units on a SCALED block and per-column units below 2^-8 (the library's absolute zero-scale guard 1e-3 is "
              "C10's business; the small-unit class documents what it does), units above 1e5 (entries would pass 1e7), least-squares coefficient size above 50 on a "
              "K3 case (tolerance arithmetic). Outside the statement (EXTRA-FINDING only): bias statistic, change of units of the predictors (whole block and per column), OLS coefficients on unseen objects, exactness "
              "from the Krylov count on. A second PLS() into a used model object is C03's extra finding.")

TOL = 10000
TOLM = 10
ONE = 1000000000
SAT = 2000000000
BNCAP = 50000
DRCAP = 1000000
EXTRA_EVENTS = ("Bias", "XUnits", "Exact", "OlsNew", "XScale")
KINDS = ("base", "tall1", "tall2", "square", "block", "offx", "offy", "offxy", "magn", "units", "grid", "hist", "exact", "yrel", "edge", "affoff", "duprow")
EVENT_KINDS = ("Fit", "Rss", "Ols", "Beta", "Stat", "Affine", "XScale", "Reuse", "End", "Bias", "XUnits", "Exact", "OlsNew")
CTX_FIELDS = ("n", "p", "ny", "nlv", "xs", "ys", "noise", "rank", "offx", "offy", "kind", "tag", "reuse", "hist", "hrel", "exk", "shape")


# ---- mirror of the tolerance functions of PlsLs.tla: used ONLY to word a rejection and to drop same-signature duplicates (TLC decides)
def _repr(o):
    return o // 1000


def _mean(n, o):
    return n * (o // 4000)


def _tolmono(oy):
    return TOLM + (4 * _repr(oy)) // 1000 + (1 if oy >= 1000 else 0)


def _tolols(n, ox, oy, bn):
    mx = _mean(n, ox)
    return TOL + _repr(oy) + _mean(n, oy) + (mx // 1000) * bn + ((mx % 1000) * bn) // 1000


def _tolrssfull(n, ox, oy, bn):
    return _tolmono(oy) + (_tolols(n, ox, oy, bn) - TOL) // 500


def _tolbeta(oy):
    return TOL + _repr(oy)


def _tolaff(n, oy, o2):
    o = max(oy, o2)
    return TOL + 2 * _repr(o) + _mean(n, o)


def _r2slack(oy, dr):
    t = _tolmono(oy) + 2
    return t * (dr // 1000) + (t * (dr % 1000)) // 1000 + 2


_FIT_OF_CASE = {}


NOCOV_TAGS = ("K8:exact-then-rounding-residue", "K8:residual-orthogonal-to-X")


def _sig(ev):
    """label of a rejected event; in the classes where no covariance is left after the first latent variable every stated clause that fails is one symptom
    of one cause, so the signature says so"""
    sig, what = _sig0(ev)
    if ev.get("e") not in EXTRA_EVENTS and str(ev.get("cx", {}).get("tag", "")).startswith(NOCOV_TAGS) and sig.split(":")[1] in ("beta", "affine", "ols", "monotone", "r2"):
        sig = ":".join(sig.split(":")[:2]) + ":lv-without-covariance"
        what += (" (for the vector u the NIPALS pass starts from - the residual of the response after the first latent variable, or the response with the largest variance - X'u is at the "
                 "level of its own rounding error or exactly null although nlv <= rank: LVCalc either normalises that residue into a weight vector, so that the scores are at rounding level "
                 "and b = u't/t't is of any size, or declares a null latent variable although another response still covaries with X)")
    return sig, what


def _sig0(ev):
    e, cx = ev.get("e"), ev.get("cx", {})
    where = "case %s %s" % (ev.get("case"), cx)
    n, ox, oy = cx.get("n", 0), cx.get("offx", 0), cx.get("offy", 0)
    if e == "Rss":
        if ev.get("r2gap", 0) > TOL:
            return "PLS:r2", "%s: reported R2 / RMSE of LV %d response %d differ from 1 - RSS/TSS, sqrt(RSS/n) by %.3g" % (where, ev["a"], ev["j"], ev["r2gap"] * 1e-12)
        if ev["rss"] > ev.get("prev_", ONE) + _tolmono(oy):
            return "PLS:monotone", "%s: RSS/D of response %d rises from %.9f to %.9f when LV %d is added" % (where, ev["j"], ev.get("prev_", ONE) * 1e-9, ev["rss"] * 1e-9, ev["a"])
        if ev.get("r2", 0) > ONE + TOLM + 2 or (cx.get("ys", 0) >= 0 and abs(ev.get("r2", 0) - (ONE - ev["rss"])) > TOLM + 2):
            return "PLS:r2:reported", "%s: LV %d response %d: the reported R2 %.9f is not 1 - RSS/TSS = %.9f of the recalculated responses" % (
                where, ev["a"], ev["j"], ev.get("r2", 0) * 1e-9, (ONE - ev["rss"]) * 1e-9)
        if "r2prev_" in ev and ev.get("r2", 0) + _r2slack(oy, min(ev.get("dr", 1000), DRCAP)) < ev["r2prev_"]:
            return "PLS:r2:monotone", "%s: the reported R2 of response %d falls from %.9f to %.9f when LV %d is added" % (where, ev["j"], ev["r2prev_"] * 1e-9, ev.get("r2", 0) * 1e-9, ev["a"])
        return "PLS:monotone", "%s: rss ledger rejected %s" % (where, {k: v for k, v in ev.items() if k != "cx"})
    if e == "Ols":
        bnm = min(ev.get("bn", 0), BNCAP) if ox >= 4000 else 0
        if ev["rssPls"] < ev["rssOls"] - _tolrssfull(n, ox, oy, bnm) and not (ev["full"] == 1 and ev["err"] > _tolols(n, ox, oy, bnm)):
            return "PLS:ols:below-least-squares", "%s: response %d: RSS(PLS, a=%s)/D = %.9f is BELOW the least-squares optimum RSS(OLS)/D = %.9f by more than the tolerance of this input (%.3g): the model fits with something that is not in the span of its predictors" % (
                where, ev["j"], cx.get("nlv"), ev["rssPls"] * 1e-9, ev["rssOls"] * 1e-9, _tolrssfull(n, ox, oy, bnm) * 1e-9)
        return "PLS:ols", "%s: response %d: RSS(PLS, a=%s)/D = %.9f, RSS(OLS)/D = %.9f, |fitted PLS - fitted OLS| = %.3g (full rank: %d; tolerance of this input %.3g)" % (
            where, ev["j"], cx.get("nlv"), ev["rssPls"] * 1e-9, ev["rssOls"] * 1e-9, ev["err"] * 1e-12, ev["full"], _tolols(n, ox, oy, min(ev.get("bn", 0), BNCAP)) * 1e-12)
    if e == "Beta":
        null = " (the model holds a null latent variable: PLSBetasCoeff inverts a singular P'W)" if ev["errTrain"] >= SAT and cx.get("tag") == "K8:exact-zero-residual" else ""
        sig = "PLS:beta:null-lv" if null else "PLS:beta"

        amt = lambda v: "NaN / not finite" if v >= SAT else "%.3g" % (v * 1e-12)
        return sig, "%s: LV %d: coefficient form differs from score form by %s (training) / %s (unseen) of sd(y)%s" % (where, ev["a"], amt(ev["errTrain"]), amt(ev["errNew"]), null)
    if e == "Stat":
        return "PLS:r2", "%s: unseen objects, LV %d response %d: reported R2 / RMSE differ from their definitions by %.3g / %.3g" % (where, ev["a"], ev["j"], ev["r2gap"] * 1e-12, ev["rmsegap"] * 1e-12)
    if e == "Affine":
        return "PLS:affine", "%s: y -> c*y + d with c = %.3g (|c| ~ 1e%d), d = %.4g |c| sd (transformed response %.3g spreads from the origin): predictions do not map the same way: %.3g (training) / %.3g (unseen)" % (
            where, ev["c"] * 1e-3, ev.get("lg", 0), ev["d"] * 1e-3, float(ev.get("off", 0)), ev["errTrain"] * 1e-12, ev["errNew"] * 1e-12)
    if e == "XScale":
        return "PLS:xscale", "%s: X -> X * s with s ~ 1e%d (change of units): predictions change by %.3g (training) / %.3g (unseen) of sd(y)" % (where, ev["lg"], ev["errTrain"] * 1e-12, ev["errNew"] * 1e-12)
    if e == "Reuse":
        return "PLS:predict:reused-output", "%s: PLSYPredictor called for a = 1..%d into one output matrix differs from recalculated_y by %.3g of sd(y)" % (where, ev["calls"], ev["err"] * 1e-12)
    if e == "Bias":
        return "PLS:bias", "%s: LV %d response %d: reported bias differs from |1 - slope of predicted on observed| by %.3g (training) / %.3g (unseen)" % (where, ev["a"], ev["j"], ev["gap"] * 1e-12, ev["gapNew"] * 1e-12)
    if e == "XUnits":
        return "PLS:xunits", "%s: per-column change of units 2^k, |k| <= %d, under a per-column scaling option: predictions change by %.3g (training) / %.3g (unseen) of sd(y)" % (where, ev["kmax"], ev["errTrain"] * 1e-12, ev["errNew"] * 1e-12)
    if e == "OlsNew":
        return "PLS:ols:unseen", "%s: response %d, nlv = rank: the independent least-squares coefficients applied to the unseen objects differ from the score-based predictions by %.3g of sd(y)" % (where, ev["j"], ev["err"] * 1e-12)
    if e == "Exact":
        return "PLS:exact", "%s: by construction the fit is exact from %s latent variables on; RSS/D at LV %d of response %d is %.3g" % (where, cx.get("exk"), ev["a"], ev["j"], ev["rss"] * 1e-9)
    if e == "Abort":
        f = _FIT_OF_CASE.get(ev.get("case"), {})
        if ev.get("rc") == 97 and f.get("exk", 0) > 0 and f.get("ny", 1) > 1:
            return "PLS:fit:no-return:lv-on-rounding-residue", ("case %s %s: PLS() does not return (NIPALS iteration budget of 20000 passes exhausted in LVCalc): several responses that are "
                                                                "exact linear functions of X are fitted exactly after %d latent variables; the next latent variable is built on rounding residue and the "
                                                                "iterate alternates for ever (LVCalc has no ceiling on its passes: finding of C18, repair fixes/C18-pls-lvcalc-iteration-cap.diff)"
                                                                % (ev.get("case"), {k: f.get(k) for k in ("n", "p", "ny", "nlv", "xs", "ys", "tag")}, f.get("exk", 0)))
        return "PLS:fit:abort:rc%s" % ev.get("rc"), "case %s %s: the fit did not return (rc=%s: 97 iteration budget, 124 watchdog, 99/98 sanitizer, 1000+n signal)" % (
            ev.get("case"), {k: f.get(k) for k in ("n", "p", "ny", "nlv", "xs", "ys", "tag")}, ev.get("rc"))
    if e == "Shape":
        return "PLS:shape", "%s: model tables have unexpected shapes %s" % (where, ev)
    if e == "Fit":
        return "PLS:quantifier", "generated case outside the ledger's quantifier: %s" % ev
    return "PLS:trace:%s" % e, "unexpected event %s" % ev


def _would_fail(e):
    k, cx = e.get("e"), e.get("cx", {})
    n, ox, oy = cx.get("n", 0), cx.get("offx", 0), cx.get("offy", 0)
    if k == "Rss":
        return (e.get("r2gap", 0) > TOL or e["rss"] > e.get("prev_", ONE) + _tolmono(oy) or e.get("r2", 0) > ONE + TOLM + 2
                or (cx.get("ys", 0) >= 0 and abs(e.get("r2", 0) - (ONE - e["rss"])) > TOLM + 2)
                or ("r2prev_" in e and e.get("dr", 1000) <= DRCAP and e.get("r2", 0) + _r2slack(oy, e.get("dr", 1000)) < e["r2prev_"]))
    if k == "Ols":
        bn = min(e.get("bn", 0), BNCAP)
        return (e["full"] == 1 and (e["err"] > _tolols(n, ox, oy, bn) or abs(e["rssPls"] - e["rssOls"]) > _tolrssfull(n, ox, oy, bn))) or e["rssPls"] < e["rssOls"] - _tolrssfull(n, ox, oy, bn if ox >= 4000 else 0) or (e.get("bn", 0) > BNCAP and ox >= 4000)
    if k == "Beta":
        return e["errTrain"] > _tolbeta(oy) or e["errNew"] > _tolbeta(oy)
    if k == "Stat":
        return e["r2gap"] > TOL or e["rmsegap"] > TOL
    if k == "Affine":
        t = _tolaff(n, oy, e.get("off", 0))
        return e["errTrain"] > t or e["errNew"] > t
    if k in ("XScale", "XUnits"):
        return e["errTrain"] > _tolbeta(oy) or e["errNew"] > _tolbeta(oy)
    if k == "Reuse":
        return e["err"] > TOL
    if k == "Bias":
        return e["gap"] > TOL or e["gapNew"] > TOL
    if k == "OlsNew":
        return (e.get("bn", 0) > BNCAP and ox >= 4000) or (e.get("lev", 0) <= 10 and e["err"] > (TOL if max(ox, oy) < 1000 else _tolols(n, ox, oy, min(e.get("bn", 0), BNCAP) if ox >= 4000 else 0)))
    if k == "Exact":
        return e["rss"] > _tolmono(oy)
    if k in ("End", "Fit", "Reset", "Skip"):
        return False
    return True


def _with_prev(events):
    """labelling aid only: remember the rss / reported R2 logged before each Rss / Ols event of the same response"""
    prev, r2 = {}, {}
    for ev in events:
        e = ev["e"]
        if e in ("Reset", "Fit"):
            prev, r2 = {}, {}
        elif e == "Rss":
            ev["prev_"] = prev.get(ev["j"], ONE)
            prev[ev["j"]] = ev["rss"]
            if ev["j"] in r2:
                ev["r2prev_"] = r2[ev["j"]]
            r2[ev["j"]] = ev.get("r2", 0)
        elif e == "Ols":
            ev["prev_"] = prev.get(ev["j"], ONE)
    return events


def _strip(ev):
    return {k: v for k, v in ev.items() if k not in ("cx", "prev_", "r2prev_")}


def model_part(ctx):
    """five model-checking runs, side by side (each is small; a JVM start and the coverage profile dominate)"""
    acts = ("LReset", "MFitK", "MRssA", "MOlsA", "MOlsNewA", "MBetaA", "MAffineA", "MXScaleA", "MXUnitsA", "LReuse", "LBias", "LStat", "MExactA", "LEnd")
    runs = [
        ("Pls", "MC_Pls_ls.cfg", "mc_pls_ls", ("PFit", "PRss", "POls", "PBeta", "PStat", "PAffine", "PXScale", "PReuse", "PEnd"),
         "Pls.tla ledger (least-squares scope): %d states, invariants InvR2Range InvFloor hold, every action taken"),
        ("PlsLs", "MC_PlsLs_quick.cfg" if ctx.quick else "MC_PlsLs_thorough.cfg", "mc_plsls", acts,
         "PlsLs.tla extended ledger: %d states, InvR2RangeK InvFloorK InvR2Link InvHist InvExk PropR2Mono hold, every action taken; theorems ThTolBase ThTolMonotone ThTolMeaningful hold as assumptions"),
        ("PlsLs", "MC_PlsLs_derive.cfg" if ctx.quick else "MC_PlsLs_derive_thorough.cfg", "mc_plsls_derive", acts,
         "PlsLs.tla extended ledger WITHOUT the direct guard on the reported R2: %d states, PropR2Derived holds (S3 follows from S2 + the link to the rss ledger)"),
        ("PlsLs", "MC_PlsLs_hist.cfg", "mc_plsls_hist", ("LReset", "MFitK", "LEnd"),
         "PlsLs.tla history ledger: %d states (up to three fits per process), InvHist InvExk hold"),
    ]
    with ThreadPoolExecutor(max_workers=min(4, int(os.environ.get("VERIF_WORKERS", "4")))) as ex:
        futs = [(x, ex.submit(tlc.run, x[0], x[1], workers=2, timeout=1700)) for x in runs]
        for (module, cfg, label, expected, msg), fu in futs:
            r = fu.result()
            ctx.add_tlc(r, label)
            if not r.ok:
                raise InfraError("%s.tla (%s): %s fails:\n%s" % (module, cfg, r.violation, r.trace_text[:1500]))
            # pure checks leave the ledger state unchanged: "taken" = TLC generated successors through them
            z = ledgerkit.never_taken(r, expected)
            if z:
                raise InfraError("%s.tla (%s): actions never taken: %s" % (module, cfg, z))
            ctx.note(msg % r.distinct)


def _classes(ctx, f, block):
    """measured class counts (INPUT-CLASSES.md) of one executed case; shape / block codes / history relation were re-derived by TLC (TFit)"""
    n, p, nlv, rank = f["n"], f["p"], f["nlv"], f.get("rank", f["p"])
    ctx.cls("K1:" + f.get("shape", "tall"))
    if n == p + 2:
        ctx.cls("K1:n=p+2")
    ctx.cls("K1:ny=1" if f["ny"] == 1 else "K1:ny>1")
    ctx.cls("K1:nlv=rank" if nlv == rank else "K1:nlv=1" if nlv == 1 else "K1:1<nlv<rank")
    if nlv == 1 and rank == 1:
        ctx.cls("K1:nlv=1")
    if nlv == 1 and f["ny"] > 1:
        ctx.cls("K1:nlv=1,ny>1")
    if p == 1:
        ctx.cls("K1:single-predictor")
    if f.get("nnew", 3) <= 2:
        ctx.cls("K1:unseen<=2")
    if f.get("nnew", 3) > n:
        ctx.cls("K1:unseen>training")
    for nm, v in (("n", n), ("p", p), ("nlv", nlv)):
        if v >= 4:
            ctx.cls("K2:%s=4k" % nm if v % 4 == 0 else "K2:%s=4k+%d" % (nm, v % 4))
        if v >= 7 and v % 8 in (0, 1, 7):
            ctx.cls("K2:%s=8k" % nm if v % 8 == 0 else "K2:%s=8k+-1" % nm)
    if f["ny"] == 1 and p > 3 and p % 4:
        ctx.cls("K2:coefficient-form,unrolled-tail(p)")
    if f["ny"] == 1 and nlv > 3 and nlv % 4:
        ctx.cls("K2:coefficient-form,unrolled-tail(nlv)")
    for nm in ("offx", "offy"):
        o = f.get(nm, 0)
        if o >= 1000:
            ctx.cls("K3:%s>=%s" % (nm, "1e6" if o >= 1000000 else "1e3"))
    for nm in ("lgx", "lgy"):
        g = f.get(nm, 0)
        if g:
            ctx.cls("K4:%s-units=1e%+d" % (nm[2], g))
    t = f.get("tag", "-")
    if t == "pairs":
        ctx.cls("Q:scaling-pairs-stratified(7x7x{ny=1,ny>1})")
    if t.startswith(("K4", "K5", "K8")):
        ctx.cls(t)
    if f.get("small", -1) >= 0:
        ctx.cls("K4:one-predictor-below-zero-scale-guard")
    if f.get("hist", 0) >= 1:
        ctx.cls("K7:fit#%d-in-process,%s-dimensions" % (f["hist"] + 1, f.get("hrel")))
    ru = f.get("reuse", 0)
    if ru:
        ctx.cls("K7:outputs-%s" % {1: "sized,hold-other-data", 2: "other-shape,hold-other-data", 3: "left-by-previous-fit"}[ru])
    if f["noise"] == 0 and nlv == rank:
        ctx.cls("K8:exact-linear,nlv=rank")
    if any(e["e"] == "End" and e.get("addr", 0) == 1 for e in block):
        ctx.cls("K7:model-at-address-of-a-freed-model")
    for e in block:
        if e["e"] == "Affine":
            if abs(e.get("lg", 0)) >= 3:
                ctx.cls("K4:affine|c|=1e%+d" % (3 * (e["lg"] // 3)))
            if e.get("off", 0) >= 1000:
                ctx.cls("K3:affine-d>=%s" % ("1e6" if e["off"] >= 1000000 else "1e3"))
        elif e["e"] == "XScale" and abs(e.get("lg", 0)) >= 3:
            ctx.cls("K4:xscale=1e%+d" % (3 * (e["lg"] // 3)))
        elif e["e"] == "Rss" and e["rss"] <= TOLM and e["a"] < nlv:
            ctx.cls("K8:exact-before-last-lv")
            break


def _case_chunks(events, limit=40000):
    """split at the first Reset of a case (sub = 0): the fits of one process stay in one trace"""
    out, cur = [], []
    for b in tlc.split_blocks(events):
        first = b and b[0].get("e") == "Reset" and b[0].get("sub", 0) == 0
        if cur and first and len(cur) + len(b) > limit:
            out.append(cur)
            cur = []
        cur += b
    if cur:
        out.append(cur)
    return out


def _drive(exe, rd, prefix, seed, total, parts, mode, timeout=2400, workers=8):
    """ledgerkit.drive with an environment: in the class mode AddressSanitizer's quarantine is switched off, so that a model object of a later
    fit of a history really gets the address a freed one had (measured: End.addr); overflow / UB detection is unaffected"""
    env = dict(ASAN_OPTIONS=hrun.SAN_ENV["ASAN_OPTIONS"] + ":quarantine_size_mb=0:thread_local_quarantine_size_kb=0") if mode == "cls" else None
    per = (total + parts - 1) // parts
    jobs, lo, i = [], 0, 0
    while lo < total:
        cnt = min(per, total - lo)
        jobs.append([os.path.join(rd, "%s%d.ndjson" % (prefix, i)), seed, lo, cnt, mode])
        lo += cnt
        i += 1
    res = hrun.run_many(exe, jobs, timeout=timeout, env=env, workers=ledgerkit.par(workers))
    events, maxima = [], {}
    for j, h in zip(jobs, res):
        if h.timed_out:
            raise InfraError("%s timed out on cases %s..+%s" % (os.path.basename(exe), j[2], j[3]))
        ev = hrun.read_ndjson(j[0])
        if h.rc != 0 and not h.san:
            raise InfraError("%s failed rc=%d on cases %s..+%s: %s" % (os.path.basename(exe), h.rc, j[2], j[3], h.err[-600:]))
        for line in h.out.splitlines():
            if line.startswith("M "):
                for kv in line.split()[1:]:
                    k, _, v = kv.partition("=")
                    try:
                        maxima[k] = max(maxima.get(k, 0.0), float(v))
                    except ValueError:
                        pass
        events += ev
    return events, maxima, list(zip(jobs, res))


def conformance(ctx, total, parts, mode="base", only=None):
    lib = build.build_lib("san")
    exe = build.build_harness("c04", ["c04_drv.c", ], lib)
    rd = tlc.rundir()
    try:
        if only is not None:
            seed = only["seed"]
            mode = only.get("mode", "base")
            h = hrun.run(exe, [os.path.join(rd, "r.ndjson"), seed, only["idx"], only.get("count", 1), mode], timeout=600,
                         env=dict(ASAN_OPTIONS=hrun.SAN_ENV["ASAN_OPTIONS"] + ":quarantine_size_mb=0:thread_local_quarantine_size_kb=0") if mode == "cls" else None)
            events, maxima = hrun.read_ndjson(os.path.join(rd, "r.ndjson")), {}
            results = [([None, seed, only["idx"], only.get("count", 1), mode], h)]
        else:
            seed = ctx.seed
            events, maxima, results = _drive(exe, rd, "c04_%s_" % mode, seed, total, parts, mode, timeout=2400, workers=int(os.environ.get("VERIF_WORKERS", "8")))
        ledgerkit.sanitizer_reports(ctx, results, "PLS", lambda j: dict(kind="range", seed=j[1], first=j[2], count=j[3], mode=mode))
        ledgerkit.annotate(events, CTX_FIELDS)
        _with_prev(events)
        fits = [e for e in events if e["e"] == "Fit"]
        if not fits:
            raise InfraError("c04 harness produced no Fit events (mode %s)" % mode)
        blocks = tlc.split_blocks(events)
        for b in blocks:
            for e in b:
                if e["e"] == "Fit":
                    _FIT_OF_CASE[b[0].get("case")] = e
        kinds = {k: sum(1 for e in events if e["e"] == k) for k in ("Rss", "Ols", "Beta", "Stat", "Affine", "XScale", "Reuse")}
        if mode == "pairs":
            kinds["ols_full"] = sum(1 for e in events if e["e"] == "Ols" and e["full"] == 1)
        elif mode == "base":
            kinds["small_unit_cases"] = sum(1 for e in fits if e.get("small", -1) >= 0)
            kinds["affine_wide"] = sum(1 for e in events if e["e"] == "Affine" and abs(e.get("lg", 0)) >= 3)
            kinds["xscale_wide"] = sum(1 for e in events if e["e"] == "XScale" and abs(e.get("lg", 0)) >= 3)
        else:
            kinds.update({k: sum(1 for e in events if e["e"] == k) for k in EXTRA_EVENTS})
            kinds.update({"kind_" + k: sum(1 for f in fits if f["kind"] == k) for k in KINDS if k != "base"})
            kinds["affine_k3"] = sum(1 for e in events if e["e"] == "Affine" and e.get("off", 0) >= 1000000)
            kinds["ols_full_k3"] = sum(1 for e in events if e["e"] == "Ols" and e["full"] == 1 and max(e["cx"].get("offx", 0), e["cx"].get("offy", 0)) >= 1000000)
            kinds["hist_fits_2plus"] = sum(1 for f in fits if f.get("hist", 0) >= 1)
            kinds["outputs_presized"] = sum(1 for f in fits if f.get("reuse", 0) in (1, 2))
            kinds["model_address_reused"] = sum(1 for e in events if e["e"] == "End" and e.get("addr", 0) == 1)
        if only is None and min(kinds.values()) == 0:
            raise InfraError("c04 harness (mode %s) stopped logging some event kind / lost an input class: %s" % (mode, kinds))
        for b in blocks:
            f = [e for e in b if e["e"] == "Fit"]
            if not f:
                continue
            f = f[0]
            ctx.case((mode, f["kind"], f["n"] - f["p"] if f["n"] - f["p"] < 3 else 3, f["p"], f["ny"], f["nlv"], f["noise"], f["xs"], f["ys"], f.get("hist", 0)), True)
            _classes(ctx, f, b)
            if any(e["e"] in ("Abort", "Shape") for e in b):
                continue
            cnt = {k: sum(1 for e in b if e["e"] == k) for k in ("Rss", "Stat", "Ols", "Reuse", "End")}
            if cnt != dict(Rss=f["ny"] * f["nlv"], Stat=f["ny"] * f["nlv"], Ols=f["ny"], Reuse=1, End=1):
                raise InfraError("c04 harness logged an incomplete block for case %s: %s" % (b[0].get("case"), cnt))
            if f["ny"] == 1 and sum(1 for e in b if e["e"] == "Beta") != f["nlv"]:
                raise InfraError("c04 harness logged no coefficient-form event for some LV of case %s" % b[0].get("case"))
        for b in blocks:
            f = next((e for e in b if e["e"] == "Fit"), {})
            if len(b) < 34 and any(e["e"] == "Affine" for e in b) and (mode == "base" or f.get("offy", 0) >= 1000000 or f.get("exk", 0) > 0):
                ctx.sample(dict(case=b[0].get("case"), seed=seed, mode=mode, events=[_strip(e) for e in b[:16]]), 3 if mode == "base" else 6)
        pairs = ctx.cov.setdefault("scaling_pairs_seen", [])
        for f in fits:
            if [f["xs"], f["ys"]] not in pairs:
                pairs.append([f["xs"], f["ys"]])
        ctx.cov.setdefault("observed_max", {}).update({("%s.%s" % (mode, k)): v for k, v in maxima.items()})
        ctx.cov.setdefault("events", {})[mode] = kinds
        ctx.cov["skipped_draws_" + mode] = sum(1 for e in events if e["e"] == "Skip")

        if mode == "pairs" and only is None:
            # the ledger keeps the set of (x option, y option, one / several responses) on which the OLS limit was accepted; it must be all 98
            events.append(dict(e="Covered", count=98, case=-1))

        def on_reject(ev, idx, block):
            sig, what = _sig(ev)
            if ev.get("e") == "Covered":
                if ctx.violations:
                    ctx.note("scaling-pair coverage not complete on a trace that carries violations (rejected events were dropped)")
                    return None
                raise InfraError("the stratified run did not get the OLS limit decided on all 98 (x option, y option, one / several responses) combinations: %d cases skipped" % sum(1 for e in events if e["e"] == "Skip"))
            if ev.get("e") in ("Fit", "Reset"):
                raise InfraError("c04 generator / class tags / history bookkeeping left the ledger's quantifier (machinery, not a verdict): %s" % _strip(ev))
            ctx.cov.setdefault("rejected_event_kinds", [])
            if ev.get("e") not in ctx.cov["rejected_event_kinds"]:
                ctx.cov["rejected_event_kinds"].append(ev.get("e"))
            if ev.get("e") in EXTRA_EVENTS:
                ctx.extra(sig, what)
            else:
                ctx.violation(sig, what, dict(kind="case", seed=seed, idx=ev.get("case"), mode=mode, event=_strip(ev)))
            return lambda e: e.get("e") == ev.get("e") and _sig(e)[0] == sig and _would_fail(e)
        for i, ch in enumerate(_case_chunks(events, 200000 if mode == "pairs" else 40000)):
            trace.check_trace(ctx, "TracePlsLs", "Trace_PlsLs.cfg", "Trace_PlsLs.cfg", ch, on_reject, drop="event", label="trace_plsls_%s_%d" % (mode, i), xmx="4g")
        ctx.traces(len(fits))
        return events
    finally:
        shutil.rmtree(rd, ignore_errors=True)


def selftests(ctx, base, cls, pairs):
    """binding: one corrupted field per event kind / per new guard must be rejected by TLC"""
    def good(events, n, want=lambda b: True):
        """the first n cases (all fits of a process together) that carry nothing TLC would reject"""
        cases, order = {}, []
        for b in tlc.split_blocks(events):
            c = b[0].get("case")
            if c not in cases:
                cases[c] = []
                order.append(c)
            cases[c].append(b)
        out = []
        for c in order:
            bs = cases[c]
            if any(e["e"] in ("Abort", "Shape", "Skip") or (e["e"] in EVENT_KINDS[1:] and _would_fail(e)) for b in bs for e in b):
                continue
            if bs[0][0].get("e") != "Reset" or not want(bs[0]):
                continue
            out += [e for b in bs for e in b]
            n -= 1
            if n <= 0:
                break
        return out
    fit_of = lambda b: next((e for e in b if e["e"] == "Fit"), {})
    evb = good(base, 14 if ctx.quick else 40)
    evk3 = good(cls, 12 if ctx.quick else 40, lambda b: fit_of(b).get("kind") in ("offx", "offy", "offxy")) + \
        good(cls, 4 if ctx.quick else 8, lambda b: fit_of(b).get("kind") == "affoff" and any(e["e"] == "Affine" and e["off"] >= 1000000 for e in b))
    evh = good(cls, 3 if ctx.quick else 8, lambda b: fit_of(b).get("kind") == "hist")
    evx = good(cls, 20 if ctx.quick else 60, lambda b: fit_of(b).get("kind") in ("units", "exact", "yrel", "edge"))

    def bump(kind, field, cond=lambda e: True, factor=1000000):
        def f(evs):
            for e in evs:
                if e["e"] == kind and cond(e):
                    e[field] = min(SAT, max(1, e[field]) * factor)
                    return True
            return False
        return kind, f

    def setv(kind, field, fn, cond=lambda e: True):
        def f(evs):
            for e in evs:
                if e["e"] == kind and cond(e):
                    e[field] = fn(e)
                    return True
            return False
        return kind, f

    def corrupt_rss(evs):
        last = {}
        for e in evs:
            if e["e"] in ("Reset", "Fit"):
                last = {}
            if e["e"] == "Rss":
                if e["j"] in last and last[e["j"]] + 1000 < 1900000000:
                    e["rss"] = last[e["j"]] + 1000
                    e["r2"] = ONE - e["rss"]          # keep the link intact: the rss guard itself must reject
                    return True
                last[e["j"]] = e["rss"]
        return False

    def corrupt_r2_mono(evs):
        # uncentred response (no link): the reported R2 falls although the rss ledger is untouched
        seen = set()
        for e in evs:
            if e["e"] in ("Reset", "Fit"):
                seen = set()
            if e["e"] == "Rss":
                if e["j"] in seen and e["cx"].get("ys", 0) < 0 and e.get("dr", 1000) <= DRCAP and e.get("r2prev_", -SAT) > -SAT // 2:
                    e["r2"] = e["r2prev_"] - 2 * _r2slack(0, e["dr"]) - 10
                    return True
                seen.add(e["j"])
        return False
    def corrupt_pairs(evs):
        # one stratum loses its only case (its y option is logged as another centred one): the coverage event at the end must be rejected
        for e in evs:
            if e["e"] == "Fit" and e["ys"] == 1 and e["ny"] == 1 and e["xs"] == 0:
                e["ys"] = 3
                return True
        return False
    evp = [e for e in pairs[:pairs.index(next(e for e in pairs if e["e"] == "Reset" and e["case"] == 98))] if e["e"] != "Covered"] + [dict(e="Covered", count=98, case=-1)] \
        if any(e["e"] == "Reset" and e["case"] == 98 for e in pairs) else list(pairs)
    def corrupt_aff_off(evs):
        # an error just above the base tolerance is accepted only because the transformed response is logged far from the origin: understate that offset
        for e in evs:
            if e["e"] == "Affine" and e["off"] >= 1000000 and e["cx"]["offy"] < 1000:
                e["errTrain"] = TOL + 5
                e["off"] = 0
                return True
        return False
    k3 = lambda e: max(e.get("cx", {}).get("offx", 0), e.get("cx", {}).get("offy", 0)) >= 1000000
    tests = [
        (evb, "binding_olsErr_x1e6", bump("Ols", "err", lambda e: e["full"] == 1)),
        (evb, "binding_rss_not_monotone", ("Rss", corrupt_rss)),
        (evb, "binding_betaNew_x1e6", bump("Beta", "errNew")),
        (evb, "binding_reported_r2_off_link", setv("Rss", "r2", lambda e: e["r2"] - 1000, lambda e: e["cx"].get("ys", 0) >= 0)),
        (evb, "binding_reported_r2_falls_uncentred", ("Rss", corrupt_r2_mono)),
        (evb, "binding_stat_unseen_x1e6", bump("Stat", "rmsegap")),
        (evb, "binding_affine_x1e6", bump("Affine", "errNew")),
        (evb, "binding_xscale_x1e6", bump("XScale", "errTrain")),
        (evb, "binding_reuse_x1e6", bump("Reuse", "err")),
        (evb, "binding_fit_blockcode", setv("Fit", "pb", lambda e: (e["pb"] + 1) % 8)),
        (evb, "binding_fit_rank_tag", setv("Fit", "rank", lambda e: e["p"] - 1, lambda e: e.get("small", -1) < 0 and e["p"] > e["nlv"])),
        (evk3, "binding_k3_olsErr_above_input_tolerance", setv("Ols", "err", lambda e: 2 * _tolols(e["cx"]["n"], e["cx"]["offx"], e["cx"]["offy"], min(e["bn"], BNCAP)) + 1, lambda e: e["full"] == 1 and k3(e))),
        (evk3, "binding_k3_rss_above_input_tolerance", ("Rss", corrupt_rss)),
        (evk3, "binding_k3_affine_above_input_tolerance", setv("Affine", "errTrain", lambda e: 2 * _tolaff(e["cx"]["n"], e["cx"]["offy"], e["off"]) + 1, lambda e: e["off"] >= 1000000)),
        (evk3, "binding_k3_affine_offset_understated", ("Affine", corrupt_aff_off)),
        (evk3, "binding_k3_ols_bn_above_cap", setv("Ols", "bn", lambda e: BNCAP + 1, lambda e: e["cx"].get("offx", 0) >= 1000000)),
        (evk3, "binding_k3_beta_above_input_tolerance", setv("Beta", "errTrain", lambda e: 2 * _tolbeta(e["cx"]["offy"]) + 1, lambda e: e["cx"]["offy"] >= 1000000)),
        (evh, "binding_hist_position", setv("Fit", "hist", lambda e: e["hist"] + 1, lambda e: e["hist"] >= 1)),
        (evh, "binding_hist_relation", setv("Fit", "hrel", lambda e: "other" if e["hrel"] == "same" else "same", lambda e: e["hist"] >= 1)),
        (evh, "binding_hist_reset_sub", setv("Reset", "sub", lambda e: e["sub"] + 1, lambda e: e.get("sub", 0) >= 1)),
        (evh, "binding_hist_later_fit_olsErr_x1e6", bump("Ols", "err", lambda e: e["full"] == 1 and e["cx"].get("hist", 0) >= 2)),
        (evp, "binding_scaling_pair_stratum_missing", ("Covered", corrupt_pairs)),
        (evx, "binding_bias_x1e6", bump("Bias", "gap")),
        (evb, "binding_olsnew_x1e6", setv("OlsNew", "err", lambda e: 1000000000, lambda e: e["lev"] <= 10)),
        (evx, "binding_xunits_x1e6", bump("XUnits", "errNew")),
        (evx, "binding_exact_rss", setv("Exact", "rss", lambda e: 5000)),
        (evx, "binding_exact_before_exk", setv("Exact", "a", lambda e: e["cx"]["exk"] - 1, lambda e: e["cx"].get("exk", 0) >= 2)),
    ]
    rejected = set(ctx.cov.get("rejected_event_kinds", []))
    todo = []
    for ev, label, (kind, corrupt) in tests:
        if not corrupt(copy.deepcopy(ev)):
            if kind in rejected:
                ctx.note("%s: every recorded %s event of the sample was rejected by TLC in this run; nothing left to corrupt" % (label, kind))
                continue
            if label in ("binding_exact_before_exk", "binding_hist_later_fit_olsErr_x1e6", "binding_reported_r2_falls_uncentred") and ctx.quick:
                ctx.note("%s: no suitable event in the quick sample" % label)
                continue
            raise InfraError("binding self-test could not find a field to corrupt (%s)" % label)
        todo.append((ev, label, corrupt))
    with ThreadPoolExecutor(max_workers=min(4, int(os.environ.get("VERIF_WORKERS", "4")))) as ex:      # one JVM start each: run a few side by side
        for f in [ex.submit(trace.binding_selftest, ctx, "TracePlsLs", "Trace_PlsLs.cfg", [_strip(e) for e in ev], corrupt_of(corrupt), label) for ev, label, corrupt in todo]:
            f.result()
    ctx.note("binding self-tests: %d corrupted traces, all rejected by TLC" % len(todo))


def corrupt_of(corrupt):
    """the corrupting functions read the case context (cx): apply them to annotated copies, hand TLC the stripped events"""
    def f(evs):
        ledgerkit.annotate(evs, CTX_FIELDS)
        _with_prev(evs)
        ok = corrupt(evs)
        for e in evs:
            for k in ("cx", "prev_", "r2prev_"):
                e.pop(k, None)
        return ok
    return f


def run(ctx):
    ctx.assumptions += [
        "residual sums of squares, fitted-value differences and statistics gaps are evaluated by the harness in double / extended precision and logged as integers (1e-9 of the response's sum of squares; 1e-12 relative), saturating; TLC decides every comparison and holds the previous rss and reported R2 per response and the fit history of the process",
        "the least-squares reference is LAPACK dgels called directly by the harness on the design the model spans: a centred block is centred in extended precision (same least-squares problem as an intercept column), for scaling option -1 the block is used as it is (no intercept column)",
        "sampled inputs (seeded); TolAlg = 1e-8 relative, monotonicity slack 1e-8 of the total sum of squares; for a centred block at least 1000 spreads from the origin the tolerances of PlsLs.tla add the representability of the logged offset (2 roundings per entry, n/2 roundings per column mean, the latter times the logged size of the least-squares coefficients); below 1000 spreads they are the old ones (theorem ThTolBase); worst values observed on this run are under coverage.observed_max",
        "inputs admitted inside the quantifier only: objects >= variables (square only when used uncentred), cond(preprocessed X) <= 1e3 (dgesdd), non-constant responses, scale factors >= 0.05 on scaled blocks, |values| <= 1e7, nlv <= rank; each case in a child with one processor, iteration budget and watchdog",
        "ASan/UBSan build: any sanitizer report during a fit is a violation",
    ]
    model_part(ctx)
    base = conformance(ctx, 400 if ctx.quick else 40000, 8 if ctx.quick else 16, "base")
    pairs = conformance(ctx, 98 if ctx.quick else 98 * 8, 4 if ctx.quick else 8, "pairs")
    cls = conformance(ctx, 480 if ctx.quick else 24000, 8 if ctx.quick else 16, "cls")
    ctx.cov["rule"] = ("mode base: seeded random regression problems: n 6..40, p 1..min(10,n-2), ny 1 (even cases) or 2..3, noise class 0 (exact linear) / 5% / 70% / 600% cycling, "
                       "all 49 scaling pairs -1..5 x -1..5 drawn at random, nlv = rank for half of the cases else 1..rank, 3..10 unseen objects; "
                       "every eighth case has one predictor in small units (spread 1e-4, below the zero-scale guard: rank p-1, nlv <= p-1). "
                       "mode pairs: the same problems with the pair of scaling options and one / several responses fixed by the case index (7 x 7 x 2 strata) and nlv = rank; "
                       "TLC keeps the set of strata on which the OLS limit was accepted and the trace ends with the event that requires all 98. "
                       "mode cls: class by case index % 16: n = p+1; n = p+2; square X (6..10) used uncentred; block boundaries n in {7,8,9,15,16,17,31,32,33,39,40,12,24}, p, nlv in "
                       "{3,4,5,7,8,9}; centred X / Y / both 1e2..1e8 spreads from the origin; whole blocks in units 1e-6..1e-3 / 1e3..1e5; per-column units 2^-8..2^15 under options "
                       "1,2,4,5; grids of 0.1, 1/3, 1e-3; histories fit A, A', B, A in one process with the outputs carried along; exact linear responses on orthogonal predictor groups "
                       "(1..3 distinct eigenvalues), on a two-level design in units of 1 (exactly zero residual after one LV), in other units (rounding residue after one LV) and with an "
                       "interaction that is not a predictor (large residual exactly orthogonal to X); duplicated / mirrored / dependent responses; single predictor, "
                       "one or two unseen objects, ten unseen against 6..9 training objects, nlv = 1 with several responses; affine maps with |d| 1e2..1e8 spreads; duplicate objects; in this mode every output object is fresh / "
                       "already sized and holding other data / of another shape (drawn per case). A case = one fitted model plus paired models: c*y+d for single centred responses "
                       "(|c| 1e-8..1e8 when centring only), X*s (s 1e-8..1e6 without a scaling factor, a power of two for predictors far from the origin), the same predictors in "
                       "their original units (per-column class), and the score predictor looped into one output matrix; distinct key = (mode, class, min(n-p,3), p, ny, nlv, noise, "
                       "xscaling, yscaling, position in the process); every case is non-trivial")
    ctx.cov["tolerance"] = dict(TolAlg=1e-8, TolMono="1e-8 of the response's total sum of squares",
                                K3="with Repr(o) = floor(o/1000) and MeanOf(n, o) = n*floor(o/4000) in 1e-12 of a spread (o = offset in spreads): TolMonoOf = TolMono + floor(4 Repr(offy)/1000) + 1 (1e-9 of D), "
                                   "TolOlsOf = TolAlg + Repr(offy) + MeanOf(n, offy) + MeanOf(n, offx)*bn, TolAffOf = TolAlg + 2 Repr(o) + MeanOf(n, o) with o = max(offy, offset of c*y+d), "
                                   "TolBetaOf = TolAlg + Repr(offy); every one equals the base tolerance below 1000 spreads (theorem ThTolBase)")
    try:
        selftests(ctx, base, cls, pairs)
    except InfraError as e:
        if not ctx.violations:
            raise
        ctx.note("binding self-test not conclusive on a trace that already carries violations: %s" % e)


def replay(ctx, body):
    case = body.get("case") or {}
    if case.get("kind") == "case" and case.get("idx") is not None:
        conformance(ctx, 1, 1, only=dict(seed=case.get("seed", body.get("seed", ctx.seed)), idx=case["idx"], mode=case.get("mode", "base")))
        ctx.case(("replay", case["idx"]))
        ctx.case(("replay2", case["idx"]))
    elif case.get("kind") == "range":
        conformance(ctx, 1, 1, only=dict(seed=case["seed"], idx=case["first"], count=case.get("count", 1), mode=case.get("mode", "base")))
        ctx.case(("replay", case["first"]))
        ctx.case(("replay2", case["first"]))
    else:
        run(ctx)
