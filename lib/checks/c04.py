"""C04 - PLS regression is a correct least-squares family (OLS limit, coefficient form, monotone RSS, affine equivariance).

(M)  Pls.tla, least-squares scope: the ledger's step guards (rss never above the previous value of the same response, never
     below the least-squares optimum, equal to it at a = rank) imply the ledger invariants (R2 range, floor) on a small
     alphabet of magnitudes.  The model check of this ledger found a real inconsistency while it was written (an Ols event
     followed by a later Rss below the optimum was accepted) - the guard that closes it is part of PRss.
(C)  c04_drv fits real PLS models (X 6..40 x 1..10 full column rank, 1..3 responses, noise 0..dominant, all scaling pairs,
     1..rank LVs, 3..10 unseen objects), computes per (a, j) the residual sum of squares of recalculated_y, the independent
     least-squares fit by LAPACK dgels, coefficient-form predictions from PLSBetasCoeff, statistics on unseen objects, paired
     models of c*y+d (|c| down to 1e-8 / up to 1e8) and of X*s (change of units), the score predictor looped into one output matrix,
     and a class of cases with one predictor in small units; TLC validates every event against TracePls.tla and keeps the previous rss per response itself.
"""
import os, shutil
from vf import build, tlc, trace, ledgerkit
from vf import run as hrun
from vf.core import InfraError

LEVEL = "exploration"
READY = True
TECHNIQUE = ("TLC model checking of the monotone least-squares ledger of Pls.tla + TLC trace validation (TracePls.tla) of residual sums of squares, "
             "OLS-limit, coefficient-form and affine-equivariance residuals recorded from real PLS models against LAPACK dgels")
LEVEL_TEXT = ("Sampled exploration: seeded random regression problems inside the property's quantifier are fitted by the real library; for every model "
              "the per-response residual sums of squares for a = 1..nlv, the independent least-squares optimum (LAPACK dgels), coefficient-form vs "
              "score-form predictions on training and unseen objects, reported R2/RMSE and a paired affine run are logged and TLC validates each "
              "step of the ledger, holding the previous rss of every response in the specification's state.")
LEVEL_NOTE = ("Trusts TLC, LAPACK dgels/dgesdd as independent oracles, the harness's double-precision residual evaluation and quantisation (binding "
              "self-test corrupts one logged residual). Sampled, not exhaustive. For scaling option -1 (no centring) the least-squares reference is the "
              "design the model then spans (no intercept column); with both blocks centred it is dgels on [1 X].")

TOL = 10000
TOLM = 10
ONE = 1000000000


def _sig(ev):
    e, cx = ev.get("e"), ev.get("cx", {})
    where = "case %s %s" % (ev.get("case"), cx)
    if e == "Rss":
        if ev.get("r2gap", 0) > TOL:
            return "PLS:r2", "%s: reported R2 / RMSE of LV %d response %d differ from 1 - RSS/TSS, sqrt(RSS/n) by %.3g" % (where, ev["a"], ev["j"], ev["r2gap"] * 1e-12)
        if ev["rss"] > ev.get("prev_", ONE) + TOLM:
            return "PLS:monotone", "%s: RSS/D of response %d rises from %.9f to %.9f when LV %d is added" % (where, ev["j"], ev.get("prev_", ONE) * 1e-9, ev["rss"] * 1e-9, ev["a"])
        return "PLS:monotone", "%s: rss ledger rejected %s" % (where, ev)
    if e == "Ols":
        return "PLS:ols", "%s: response %d: RSS(PLS, a=%s)/D = %.9f, RSS(OLS)/D = %.9f, |fitted PLS - fitted OLS| = %.3g (full rank: %d)" % (
            where, ev["j"], cx.get("nlv"), ev["rssPls"] * 1e-9, ev["rssOls"] * 1e-9, ev["err"] * 1e-12, ev["full"])
    if e == "Beta":
        return "PLS:beta", "%s: LV %d: coefficient form differs from score form by %.3g (training) / %.3g (unseen)" % (where, ev["a"], ev["errTrain"] * 1e-12, ev["errNew"] * 1e-12)
    if e == "Stat":
        return "PLS:r2", "%s: unseen objects, LV %d response %d: reported R2 / RMSE differ from their definitions by %.3g / %.3g" % (where, ev["a"], ev["j"], ev["r2gap"] * 1e-12, ev["rmsegap"] * 1e-12)
    if e == "Affine":
        return "PLS:affine", "%s: y -> c*y + d with c = %.3g (|c| ~ 1e%d), d = %.3f |c| sd: predictions do not map the same way: %.3g (training) / %.3g (unseen)" % (
            where, ev["c"] * 1e-3, ev.get("lg", 0), ev["d"] * 1e-3, ev["errTrain"] * 1e-12, ev["errNew"] * 1e-12)
    if e == "XScale":
        return "PLS:xscale", "%s: X -> X * s with s ~ 1e%d (change of units): predictions change by %.3g (training) / %.3g (unseen) of sd(y)" % (where, ev["lg"], ev["errTrain"] * 1e-12, ev["errNew"] * 1e-12)
    if e == "Reuse":
        return "PLS:predict:reused-output", "%s: PLSYPredictor called for a = 1..%d into one output matrix differs from recalculated_y by %.3g of sd(y)" % (where, ev["calls"], ev["err"] * 1e-12)
    if e == "Abort":
        return "PLS:fit:abort:rc%s" % ev.get("rc"), "case %s: the fit did not return (rc=%s)" % (ev.get("case"), ev.get("rc"))
    if e == "Shape":
        return "PLS:shape", "%s: model tables have unexpected shapes %s" % (where, ev)
    if e == "Fit":
        return "PLS:quantifier", "generated case outside the ledger's quantifier: %s" % ev
    return "PLS:trace:%s" % e, "unexpected event %s" % ev


def _would_fail(e):
    k = e.get("e")
    if k == "Rss":
        return e.get("r2gap", 0) > TOL or e["rss"] > e.get("prev_", ONE) + TOLM
    if k == "Ols":
        return (e["full"] == 1 and (e["err"] > TOL or abs(e["rssPls"] - e["rssOls"]) > TOLM)) or e["rssPls"] < e["rssOls"] - TOLM
    if k == "Beta":
        return e["errTrain"] > TOL or e["errNew"] > TOL
    if k == "Stat":
        return e["r2gap"] > TOL or e["rmsegap"] > TOL
    if k in ("Affine", "XScale"):
        return e["errTrain"] > TOL or e["errNew"] > TOL
    if k == "Reuse":
        return e["err"] > TOL
    return True


def _with_prev(events):
    """labelling aid only: remember the rss logged before each Rss / Ols event of the same response"""
    prev = {}
    for ev in events:
        e = ev["e"]
        if e in ("Reset", "Fit"):
            prev = {}
        elif e == "Rss":
            ev["prev_"] = prev.get(ev["j"], ONE)
            prev[ev["j"]] = ev["rss"]
        elif e == "Ols":
            ev["prev_"] = prev.get(ev["j"], ONE)
    return events


def model_part(ctx):
    r = tlc.run("Pls", "MC_Pls_ls.cfg", workers=4, timeout=600)
    ctx.add_tlc(r, "mc_pls_ls")
    if not r.ok:
        raise InfraError("Pls.tla (least-squares scope): ledger invariant %s fails:\n%s" % (r.violation, r.trace_text[:1500]))
    # PBeta / PStat / PAffine are pure checks (ledger state unchanged): "taken" = TLC generated successors through them
    z = ledgerkit.never_taken(r, ("PFit", "PRss", "POls", "PBeta", "PStat", "PAffine", "PXScale", "PReuse", "PEnd"))
    if z:
        raise InfraError("Pls.tla (least-squares scope): actions never taken: %s" % z)
    ctx.note("Pls.tla ledger (least-squares scope): %d states, invariants InvR2Range InvFloor hold, every action taken" % r.distinct)


def conformance(ctx, total, parts, only=None):
    lib = build.build_lib("san")
    exe = build.build_harness("c04", ["c04_drv.c"], lib)
    rd = tlc.rundir()
    try:
        if only is not None:
            seed = only["seed"]
            h = hrun.run(exe, [os.path.join(rd, "r.ndjson"), seed, only["idx"], only.get("count", 1)], timeout=600)
            events, maxima = hrun.read_ndjson(os.path.join(rd, "r.ndjson")), {}
            results = [([None, seed, only["idx"], only.get("count", 1)], h)]
        else:
            seed = ctx.seed
            events, maxima, results = ledgerkit.drive(ctx, exe, rd, "c04_", seed, total, parts, timeout=2400)
        ledgerkit.sanitizer_reports(ctx, results, "PLS", lambda j: dict(kind="range", seed=j[1], first=j[2], count=j[3]))
        ledgerkit.annotate(events)
        _with_prev(events)
        fits = [e for e in events if e["e"] == "Fit"]
        if not fits:
            raise InfraError("c04 harness produced no Fit events")
        kinds = {k: sum(1 for e in events if e["e"] == k) for k in ("Rss", "Ols", "Beta", "Stat", "Affine", "XScale", "Reuse")}
        kinds["small_unit_cases"] = sum(1 for e in events if e["e"] == "Fit" and e.get("small", -1) >= 0)
        kinds["affine_wide"] = sum(1 for e in events if e["e"] == "Affine" and abs(e.get("lg", 0)) >= 3)
        kinds["xscale_wide"] = sum(1 for e in events if e["e"] == "XScale" and abs(e.get("lg", 0)) >= 3)
        if only is None and min(kinds.values()) == 0:
            raise InfraError("c04 harness stopped logging some event kind: %s" % kinds)
        for f in fits:
            ctx.case((f["p"], f["ny"], f["nlv"], f["noise"], f["xs"], f["ys"]), True)
        blocks = tlc.split_blocks(events)
        for b in blocks:
            f = [e for e in b if e["e"] == "Fit"]
            if not f or any(e["e"] in ("Abort", "Shape") for e in b):
                continue
            f = f[0]
            cnt = {k: sum(1 for e in b if e["e"] == k) for k in ("Rss", "Stat", "Ols", "Reuse", "End")}
            if cnt != dict(Rss=f["ny"] * f["nlv"], Stat=f["ny"] * f["nlv"], Ols=f["ny"], Reuse=1, End=1):
                raise InfraError("c04 harness logged an incomplete block for case %s: %s" % (b[0].get("case"), cnt))
        for b in blocks:
            if len(b) < 30 and any(e["e"] == "Affine" for e in b):
                ctx.sample(dict(case=b[0].get("case"), seed=seed, events=[{k: v for k, v in e.items() if k not in ("cx", "prev_")} for e in b[:16]]), 3)
        ctx.cov["rule"] = ("seeded random regression problems: n 6..40, p 1..min(10,n-2), ny 1 (even cases) or 2..3, noise class 0 (exact linear) / 5% / 70% / 600% cycling, "
                           "all 49 scaling pairs -1..5 x -1..5 drawn at random, nlv = rank for half of the cases else 1..rank, 3..10 unseen objects; "
                           "every eighth case has one predictor in small units (spread 1e-4, below the zero-scale guard: rank p-1, nlv <= p-1); "
                           "a case = one fitted model plus paired models: c*y+d for single centred responses (|c| 1e-8..1e8 when centring only), X*s (s 1e-8..1e6 without a scaling "
                           "factor, else as far as the scale factors stay admissible), and the score predictor looped into one output matrix; distinct key = (p, ny, nlv, noise class, xscaling, yscaling); every case is non-trivial")
        ctx.cov["observed_max"] = dict(maxima)
        ctx.cov["tolerance"] = dict(TolAlg=1e-8, TolMono="1e-8 of the response's total sum of squares")
        ctx.cov["events"] = kinds

        def on_reject(ev, idx, block):
            sig, what = _sig(ev)
            ctx.violation(sig, what, dict(kind="case", seed=seed, idx=ev.get("case"), event={k: v for k, v in ev.items() if k != "cx"}))
            return lambda e: e.get("e") == ev.get("e") and _sig(e)[0] == sig and _would_fail(e)
        ledgerkit.check(ctx, "TracePls", "Trace_Pls.cfg", "Trace_Pls_prop.cfg", events, on_reject, "trace_pls_ls")
        ctx.traces(len(fits))
        return events
    finally:
        shutil.rmtree(rd, ignore_errors=True)


def selftests(ctx, events):
    blocks = [b for b in tlc.split_blocks(events) if not any(e["e"] in ("Abort", "Shape") for e in b)]
    ev = [e for b in blocks[:40] for e in b]
    ev = [e for e in ev if not (e["e"] in ("Rss", "Ols", "Beta", "Stat", "Affine", "XScale", "Reuse") and _would_fail(e))]

    def corrupt_ols(evs):
        for e in evs:
            if e["e"] == "Ols" and e["full"] == 1:
                e["err"] = min(2000000000, max(1, e["err"]) * 1000000)
                return True
        return False

    def corrupt_rss(evs):
        # cross-step logic: raise one rss above its predecessor
        last = {}
        for e in evs:
            if e["e"] in ("Reset", "Fit"):
                last = {}
            if e["e"] == "Rss":
                if e["j"] in last and last[e["j"]] + 1000 < 1900000000:
                    e["rss"] = last[e["j"]] + 1000
                    return True
                last[e["j"]] = e["rss"]
        return False

    def corrupt_beta(evs):
        for e in evs:
            if e["e"] == "Beta":
                e["errNew"] = min(2000000000, max(1, e["errNew"]) * 1000000)
                return True
        return False
    trace.binding_selftest(ctx, "TracePls", "Trace_Pls_prop.cfg", ev, corrupt_ols, "binding_olsErr_x1e6")
    trace.binding_selftest(ctx, "TracePls", "Trace_Pls_prop.cfg", ev, corrupt_rss, "binding_rss_not_monotone")
    trace.binding_selftest(ctx, "TracePls", "Trace_Pls_prop.cfg", ev, corrupt_beta, "binding_betaNew_x1e6")


def run(ctx):
    ctx.assumptions += [
        "residual sums of squares, fitted-value differences and statistics gaps are evaluated by the harness in double precision and logged as integers (1e-9 of the response's sum of squares; 1e-12 relative), saturating; TLC decides every comparison and holds the previous rss per response",
        "the least-squares reference is LAPACK dgels called directly by the harness: on [1 X] when both blocks are centred; for scaling option -1 on the design the model then spans (no intercept column)",
        "sampled inputs (seeded); TolAlg = 1e-8 relative, monotonicity slack 1e-8 of the total sum of squares; worst values observed on this run are under coverage.observed_max",
        "inputs admitted inside the quantifier only: cond(preprocessed X) <= 1e3 (dgesdd), non-constant responses, scale factors >= 0.05, nlv <= rank; each fit in a child with one processor, iteration budget and watchdog",
        "ASan/UBSan build: any sanitizer report during a fit is a violation",
    ]
    model_part(ctx)
    events = conformance(ctx, 400 if ctx.quick else 40000, 8 if ctx.quick else 16)
    try:
        selftests(ctx, events)
    except InfraError as e:
        if not ctx.violations:
            raise
        ctx.note("binding self-test not conclusive on a trace that already carries violations: %s" % e)


def replay(ctx, body):
    case = body.get("case") or {}
    if case.get("kind") == "case" and case.get("idx") is not None:
        conformance(ctx, 1, 1, only=dict(seed=case.get("seed", body.get("seed", ctx.seed)), idx=case["idx"]))
        ctx.case(("replay", case["idx"]))
        ctx.case(("replay2", case["idx"]))
    elif case.get("kind") == "range":
        conformance(ctx, 1, 1, only=dict(seed=case["seed"], idx=case["first"], count=case.get("count", 1)))
        ctx.case(("replay", case["first"]))
        ctx.case(("replay2", case["first"]))
    else:
        run(ctx)
