"""Helper of the C06 check: ThreadSanitizer build of the library, parsing of its reports, attribution of every reported data race to a state
class of spec/RngState.tla.  The attribution is plumbing; the judgement (is a race on that class compatible with the model?) is TLC's
(TraceRng.tla TRace / RngState.tla RaceCompatible)."""
import os, re
from vf import build
from vf import run as hrun
from vf.core import InfraError

build.CONFIGS.setdefault("tsan", ("clang", ["-fsanitize=thread", "-fno-omit-frame-pointer", "-g", "-O1"], ["-fsanitize=thread"]))
TSAN_ENV = {"TSAN_OPTIONS": "halt_on_error=0:exitcode=0:report_signal_unsafe=0:history_size=4:report_thread_leaks=0:report_destroy_locked=0",
            "UBSAN_OPTIONS": "exitcode=0", "ASAN_OPTIONS": ""}     # (the sanitizer runtimes share the exitcode flag: vf.run's UBSan setting would turn every report into exit 98)

RNG_FUNCS = {"srand_", "rand_", "randInt", "randDouble"}
WORKER_ENTRIES = {"PLSRandomGroupCVModel", "MLRRandomGroupCVModel", "LDARandomGroupCVModel", "EPLSRandomGroupCVModel",
                  "PLSLOOModel_", "MLRLOOModel_", "LDALOOModel_", "EPLSLOOModel_"}
ORCHESTRATORS = {"BootstrapRandomGroupsCV", "LeaveOneOut", "KFoldCV", "YScrambling", "PLSRegressionYScramblingPipeline",
                 "PLSDiscriminantAnalysisYScramblingPipeline", "MLRYScramblingPipeline", "LDAYScramblingPipeline", "PermutedObservetCorrelation"}
CV_HELPERS = {"random_kfold_group_generator", "kfold_group_train_test_split", "train_test_split"}
CV_FUNCS = WORKER_ENTRIES | ORCHESTRATORS | CV_HELPERS


def build_tsan():
    lib = build.build_lib("tsan")
    exe = build.build_harness("c06tsan", ["c06_tsan.c"], lib)
    return exe


def _frames(lines):
    out = []
    for ln in lines:
        m = re.match(r"\s+#\d+ (\S+) ", ln)
        if m:
            out.append(m.group(1))
    return out


def parse_reports(err):
    """-> list of dict(kind, acc=[(how, thread, frames)], loc_kind, loc_name, alloc_thread, alloc_frames)"""
    reps = []
    for chunk in err.split("=================="):
        m = re.search(r"WARNING: ThreadSanitizer: ([^\(\n]+)", chunk)
        if not m:
            continue
        rep = dict(kind=m.group(1).strip(), acc=[], loc_kind="unknown", loc_name="", alloc_thread="", alloc_frames=[])
        sec, how, cur = None, None, []
        secs = []
        for ln in chunk.splitlines():
            if re.match(r"\s+#\d+ ", ln):
                cur.append(ln)
                continue
            if sec is not None:
                secs.append((sec, how, cur))
            sec, how, cur = None, None, []
            a = re.match(r"\s+(Previous )?(atomic )?([Rr]ead|[Ww]rite) of size \d+ at \S+ by (main thread|thread T\d+)", ln)
            if a:
                sec, how = "acc", (a.group(3).lower(), a.group(4))
                continue
            g = re.match(r"\s+Location is global '([^']+)'", ln)
            if g:
                rep["loc_kind"], rep["loc_name"] = "global", g.group(1)
                continue
            hp = re.match(r"\s+Location is heap block of size \d+ at \S+ allocated by (main thread|thread T\d+)", ln)
            if hp:
                rep["loc_kind"], rep["alloc_thread"] = "heap", hp.group(1)
                sec, how = "alloc", None
                continue
            o = re.match(r"\s+Location is (stack|TLS) of (main thread|thread T\d+)", ln)
            if o:
                rep["loc_kind"], rep["loc_name"] = o.group(1).lower(), o.group(2)
        if sec is not None:
            secs.append((sec, how, cur))
        for sec, how, cur in secs:
            if sec == "acc":
                rep["acc"].append((how[0], how[1], _frames(cur)))
            elif sec == "alloc":
                rep["alloc_frames"] = _frames(cur)
        reps.append(rep)
    return reps


def attribute(rep):
    """-> Race event (state class of RngState.tla + a few identifying strings)"""
    stacks = [set(f) for _, _, f in rep["acc"]]
    allf = set().union(*stacks) if stacks else set()
    tops = [f[0] if f else "?" for _, _, f in rep["acc"]]
    in_rng = bool(allf & RNG_FUNCS) or rep["loc_name"] == "XOR128_SEED"
    in_cv = bool(allf & CV_FUNCS)
    if rep["kind"] != "data race":
        var = "other"
    elif in_rng:
        var = "XOR128_SEED"
    elif not in_cv:
        var = "other"          # neither access is in the validation code or the generator (kernels of other properties, harness)
    elif rep["loc_kind"] == "heap":
        af = set(rep["alloc_frames"])
        if af & WORKER_ENTRIES:
            var = "worker-local"
        elif af & ORCHESTRATORS:
            var = "caller-accumulator" if any(t == "main thread" for _, t, _ in rep["acc"]) else "worker-slot"
        else:
            var = "input"
    else:
        var = "worker-local"   # a global / static / stack cell that validation workers share
    return dict(e="Race", var=var, kind=rep["kind"].replace(" ", "-"), loc=rep["loc_kind"], name=rep["loc_name"][:60], f1=tops[0] if tops else "?",
                f2=tops[1] if len(tops) > 1 else "?", t1=rep["acc"][0][1] if rep["acc"] else "?", t2=rep["acc"][1][1] if len(rep["acc"]) > 1 else "?",
                alloc=next((f for f in rep["alloc_frames"] if f in CV_FUNCS), ""))


def run_cases(exe, rd, cases, timeout=300, workers=4):
    """cases: list of (kind, idx, seed).  -> list of event blocks (Race events inserted between Seq and Result), number of raw reports"""
    jobs = [[os.path.join(rd, "ts_%s_%d.ndjson" % (k, i)), k, i, s] for k, i, s in cases]
    res = hrun.run_many(exe, jobs, timeout=timeout, env=TSAN_ENV, workers=workers)
    blocks, nrep = [], 0
    for j, h in zip(jobs, res):
        ev = hrun.read_ndjson(j[0])
        if h.rc != 0 or not any(e.get("e") == "End" for e in ev):
            ev = [e for e in ev if e.get("e") in ("Reset", "Run")] or [dict(e="Reset")]
            ev.append(dict(e="Crash", rc=h.rc, mode="tsan", algo="%s:%s" % (j[1], j[2]), n=0))
            blocks.append(ev)
            continue
        if "ThreadSanitizer" in h.err and "WARNING: ThreadSanitizer" not in h.err:
            raise InfraError("ThreadSanitizer runtime trouble in %s: %s" % (j[1:], h.err[-600:]))
        reps = parse_reports(h.err)
        nrep += len(reps)
        races, seen = [], set()
        for r in reps:
            e = attribute(r)
            key = (e["var"], e["name"], e["f1"], e["f2"])
            if key not in seen:
                seen.add(key)
                races.append(e)
        out = []
        for e in ev:
            if e["e"] == "Result" and races:
                out += races
                races = []
            out.append(e)
        blocks.append(out)
    return blocks, nrep
