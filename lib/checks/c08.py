"""C08 - LDA predicts the arg-max discriminant and is invariant to affine re-coding.

(M)  Lda.tla: exact model of the label <-> row bookkeeping of LDA()/LDAPrediction() and of priors / class means as exact
     rationals, model-checked over all label vectors of length <= 6 (quick) / <= 7 (thorough) over <= 3 classes, both
     numberings, balanced and unbalanced.  The model is also run with the pinned tree's mapping (LabelMap = "plus_pos"):
     TLC shows a predicted label outside the training labels and a negative table index for every 1-based label vector.
(C)  replay: every label vector TLC enumerated comes with small integer feature data (InQuantifier: total and pooled
     within-class covariance non-singular); c08_drv fits and predicts each one in a child process and records what the
     library stored and returned; TLC validates the recording against TraceLda.tla (priors and means against the exact
     rationals, prediction = a training label whose row maximises the STORED score row, ROC of perfect predictions).
     validate (ledger): seeded Gaussian classes (2..5 classes, 2..6 features, 4..40 objects per class, balanced/unbalanced,
     labels from 0/1, centres >= 8 sigma apart): zero errors, score = documented discriminant, invariance of score
     differences under affine maps with cond <= 100 and under row permutations, AUC = 1 for perfect predictions.
(V)  the label mapping the code implements is inferred from the recording and reported with the real witness.
"""
import json, os, shutil
from vf import build, tlc, trace
from vf import run as hrun
from vf.core import InfraError

LEVEL = "exploration"
READY = True
TECHNIQUE = ("TLC model checking of Lda.tla (label/row bookkeeping, exact rational priors and class means over all small label vectors) "
             "+ replay of every TLC-enumerated case and of seeded separable data sets into the real LDA/LDAPrediction/LDAMulticlassStatistics "
             "(each fit in a child process), the recording validated by TLC against TraceLda.tla")
LEVEL_TEXT = ("The label bookkeeping and the exact priors/means are model-checked and replayed exhaustively for all label vectors within the stated bounds; "
              "the discriminant, separability and invariance parts are sampled (seeded data sets) and each recorded model is trace-validated by TLC, "
              "so the claim as a whole is exploration.")
LEVEL_NOTE = ("Trusts TLC, the harness's double-precision evaluation of residuals (score vs documented discriminant, score-difference deviations, "
              "class averages of real-valued data), its order-preserving encoding of the stored scores, ASan/UBSan as memory monitor. "
              "Invariance bound: 1e-7 relative, relaxed to 1e-8 per unit Frobenius condition number of the covariance LDA() inverts; "
              "cases with condition number > 1e5 are dropped and counted.")

KFMAX = 100000
SEP = 16.0          # lattice spacing of the class centres in sigma; after jitter the centres are >= 12 sigma apart
WORKERS = int(os.environ.get("VERIF_WORKERS", "6"))


def _ctxmap(events):
    """id(event) -> (start, label set, case event) of the enclosing block"""
    m, cur = {}, (0, frozenset(), None)
    for e in events:
        if e["e"] == "Case":
            cur = (e["start"], frozenset(e["lab"]), e)
        m[id(e)] = cur
    return m


def _sig(e, cm):
    """(signature, what) of a rejected event; the verdict is TLC's, this only names it"""
    start, labs, case = cm.get(id(e), (0, frozenset(), None))
    s = "start%d" % start
    k = e["e"]
    cid = "case %s (%s, K=%s d=%s n=%s)" % (case.get("id"), case.get("mode"), case.get("K"), case.get("d"), len(case.get("lab", []))) if case else "?"
    if k == "Crash":
        if e.get("stage") == "predict":
            return "LDA:labelmap:%s" % s, "%s: LDAPrediction died (rc=%s) - out-of-range table index for the predicted label" % (cid, e.get("rc"))
        return "LDA:crash-%s:%s" % (e.get("stage"), s), "%s: library call '%s' died (rc=%s)" % (cid, e.get("stage"), e.get("rc"))
    if k == "Labels":
        return "LDA:labelmap:%s" % s, "%s: stored class_start/nclass/class sizes %s do not describe the training labels" % (cid, e)
    if k in ("Prior", "PriorSum"):
        return "LDA:prior:%s" % s, "%s: stored prior %s is not the class frequency / priors do not sum to 1" % (cid, e)
    if k in ("Mu", "MuL"):
        return "LDA:mean:%s" % s, "%s: stored class mean %s is not the per-class average" % (cid, e)
    if k == "Pred":
        lab, am = e["label"], e["am"]
        if lab not in labs or (start == 1 and lab == am - 1 and lab != am + start):
            return "LDA:labelmap:%s" % s, ("%s: object %d predicted as label %s while score row %d (label %d) is the maximum; training labels are %s"
                                          % (cid, e["i"], lab, am, am + start, sorted(labs)))
        return "LDA:argmax:%s" % s, "%s: object %d predicted as label %s which does not maximise the stored score row (arg-max row %d, finite=%s)" % (cid, e["i"], lab, am, e["fin"])
    if k == "Disc":
        return "LDA:argmax:%s" % s, "%s: stored score differs from mu'Cx - mu'Cmu/2 + ln(prior) of the stored model by %.3g relative" % (cid, e["err"] * 1e-12)
    if k == "EndPred":
        if e.get("rows") != e.get("n"):
            return "LDA:argmax:%s" % s, "%s: %s objects submitted, prediction has %s rows" % (cid, e.get("n"), e.get("rows"))
        return "LDA:separable:%s" % s, "%s: well separated classes (centres >= 8 sigma apart) are not classified without error" % cid
    if k == "Reuse":
        return "LDA:argmax:%s" % s, ("%s: a second LDAPrediction call into already sized, non-zero output matrices differs from a call with fresh outputs "
                                     "(scores by %s relative, labels identical: %s, rows %s/%s)" % (cid, ">= 0.002" if e["err"] >= 2000000000 else "%.3g" % (e["err"] * 1e-12), e["same"], e["rows"], e["n"]))
    if k == "Pair":
        return "LDA:%s:%s" % (e["kind"], s), ("%s: score differences change by %s relative under %s%s (cond %.1f, scale %.3g, covariance condition %s), predictions identical: %s"
                                             % (cid, ">= 0.002" if e["err"] >= 2000000000 else "%.3g" % (e["err"] * 1e-12), e["kind"], " (%s map)" % e["map"] if "map" in e else "", e.get("cond", 0) / 1000.0, e.get("scale", 0) / 1000.0, e.get("kf"), e["same"]))
    if k in ("Auc", "AucEnd"):
        return "LDA:auc:%s" % s, "%s: LDAMulticlassStatistics on perfect predictions: %s (AUC must be 1 for every class)" % (cid, e)
    return "LDA:trace:%s" % k, "unexpected event %s" % e


def _block_of(events, ev):
    """the Reset-delimited block containing ev (for the replay artefact)"""
    idx = next(i for i, e in enumerate(events) if e is ev)
    lo = idx
    while lo > 0 and events[lo]["e"] != "Reset":
        lo -= 1
    hi = idx + 1
    while hi < len(events) and events[hi]["e"] != "Reset":
        hi += 1
    return events[lo:hi]


def _case_line(i, c):
    return "%d %d %d %s %s\n" % (i, len(c["lab"]), len(c["X"][0]), " ".join(map(str, c["lab"])), " ".join(str(v) for row in c["X"] for v in row))


def _run_harness(exe, jobs, what):
    # no stack traces for UBSan reports: on the pinned tree every 1-based case dies in a child, and symbolising thousands of
    # reports dominates the run time; file:line of the report is kept
    res = hrun.run_many(exe, jobs, timeout=1500, workers=WORKERS, env={"UBSAN_OPTIONS": "print_stacktrace=0:halt_on_error=1:exitcode=98"})
    events, errs = [], []
    for j, h in zip(jobs, res):
        ev = hrun.read_ndjson(j[0])
        if h.timed_out:
            raise InfraError("c08 harness timed out (%s)" % what)
        if h.rc != 0:
            # the parent only generates data and forks; the library runs in children
            raise InfraError("c08 harness parent failed rc=%d (%s): %s" % (h.rc, what, h.err[-1500:]))
        events += ev
        errs.append(h.err)
    return events, "\n".join(errs)


def _validate(ctx, events, san_text, label, replay_of):
    """account, drop out-of-quantifier pairs, TLC-validate with the alarm discipline"""
    if not events:
        raise InfraError("c08 harness produced no events (%s)" % label)
    cm = _ctxmap(events)
    nblocks = sum(1 for e in events if e["e"] == "Reset")
    dropped = [e for e in events if e["e"] == "Pair" and e.get("kf", 0) > KFMAX]
    if dropped:
        ctx.note("%s: %d of %d invariance pairs have a numerically singular covariance (condition > %d): outside the quantifier, dropped"
                 % (label, len(dropped), sum(1 for e in events if e["e"] == "Pair"), KFMAX))
        ctx.steps.setdefault("dropped_pairs", 0)
        ctx.steps["dropped_pairs"] += len(dropped)
    dset = set(id(e) for e in dropped)
    ev = [e for e in events if id(e) not in dset]
    sanlines = [l for l in san_text.splitlines() if "SUMMARY:" in l or "runtime error:" in l]

    def on_reject(e, idx, block):
        if e["e"] == "Case":
            raise InfraError("harness generated a case outside the quantifier: %s" % json.dumps(e)[:300])
        sig, what = _sig(e, cm)
        if e["e"] == "Crash" and sanlines:
            what += " [" + sanlines[0].strip()[:200] + "]"
        case = cm[id(e)][2]
        ctx.violation(sig, what, replay_of(case, e))
        return lambda x: x["e"] != "Case" and x["e"] != "Reset" and _sig(x, cm)[0] == sig and _bad_like(x, e, cm)
    rej = trace.check_trace(ctx, "TraceLda", "Trace_Lda.cfg", "Trace_Lda_prop.cfg", ev, on_reject, drop="event", label=label, max_rounds=16)
    ctx.traces(nblocks)
    return rej


def _bad_like(x, e, cm):
    """events that would be rejected for the same reason as e (dropped together so that the rest of the trace is examined)"""
    if x["e"] != e["e"] and not (x["e"] in ("Auc", "AucEnd") and e["e"] in ("Auc", "AucEnd")):
        return False
    k = x["e"]
    if k == "Pred":
        start, labs, _ = cm[id(x)]
        return x["label"] not in labs or x["label"] - start != x["am"] or x["fin"] != 1
    if k == "EndPred":
        return (x.get("rows") != x.get("n")) == (e.get("rows") != e.get("n"))
    if k == "Pair":
        return x["kind"] == e["kind"]
    return True


def run(ctx):
    ctx.assumptions += [
        "TLC enumerates label vectors only up to the stated length/class bounds; feature data of the exact cases are the integer patterns of Lda.tla",
        "floating-point residuals (score vs documented discriminant, score-difference deviations, class averages of real-valued data) are computed by the harness in double/long double and logged as integers in units of 1e-12; TLC checks the bounds and the cross-event logic",
        "stored scores are logged through an order-preserving 3-limb code of the IEEE bits; TLC itself decides the arg-max set",
        "invariance bound: 1e-7 relative, relaxed to 1e-8 per unit Frobenius condition number of the covariance LDA() inverts; pairs with condition number > 1e5 are outside 'non-singular' and are dropped and counted",
        "every fit/prediction runs in a child process under ASan/UBSan; a sanitizer report or signal is attributed to that case",
    ]
    q = ctx.quick
    # ---- (M) the model, with the mapping the property needs
    cfg = "MC_Lda_quick.cfg" if q else "MC_Lda_thorough.cfg"
    r = tlc.run("Lda", cfg, workers=WORKERS, timeout=1500)
    ctx.add_tlc(r, "mc_lda")
    if not r.ok:
        raise InfraError("Lda.tla: invariant %s fails in the model itself:\n%s" % (r.violation, r.trace_text[:1500]))
    cases = sorted(r.emits, key=lambda c: (len(c["lab"]), c["lab"], json.dumps(c["X"])))      # TLC's print order depends on worker scheduling
    if not cases or r.distinct != len(cases):
        raise InfraError("Lda.tla GEN: %d states but %d emitted cases" % (r.distinct, len(cases)))
    ctx.note("model: %d label vectors x feature patterns; bookkeeping, prior and mean invariants hold for LabelMap = plus_start" % r.distinct)
    # ---- (M') the mapping of the pinned tree: the model must exhibit the defect
    r2 = tlc.run("Lda", "MC_Lda_pluspos.cfg", workers=2, timeout=600)
    ctx.add_tlc(r2, "mc_lda_pluspos")
    if r2.ok:
        raise InfraError("Lda.tla with LabelMap = plus_pos no longer violates PredictionIsALabel: the model lost its bite")
    ctx.steps["mc_lda_pluspos"]["violated"] = r2.violation
    r3 = tlc.run("Lda", "MC_Lda_pluspos_every.cfg", workers=WORKERS, timeout=900)
    ctx.add_tlc(r3, "mc_lda_pluspos_every")
    if not r3.ok:
        raise InfraError("Lda.tla: %s fails: the plus_pos mapping is not wrong for every 1-based label vector / not right for every 0-based one\n%s" % (r3.violation, r3.trace_text[:1200]))
    # ---- (C) replay of every enumerated case
    lib = build.build_lib("san")
    exe = build.build_harness("c08", ["c08_drv.c"], lib)
    rd = tlc.rundir()
    try:
        P = WORKERS
        jobs = []
        for p in range(P):
            fn = os.path.join(rd, "cases%d.txt" % p)
            with open(fn, "w") as f:
                for i, c in enumerate(cases):
                    if i % P == p:
                        f.write(_case_line(i, c))
            jobs.append([os.path.join(rd, "exact%d.ndjson" % p), "exact", fn])
        ev_exact, san1 = _run_harness(exe, jobs, "exact")
        nex = sum(1 for e in ev_exact if e["e"] == "Case")
        if nex != len(cases):
            raise InfraError("replay: %d cases sent, %d reported" % (len(cases), nex))
        # ---- (C) validate: seeded separable data sets
        ncase = 48 if q else 960
        per = (ncase + P - 1) // P
        jobs = [[os.path.join(rd, "ledger%d.ndjson" % p), "ledger", ctx.seed, p * per, min(per, ncase - p * per), SEP] for p in range(P) if p * per < ncase]
        ev_led, san2 = _run_harness(exe, jobs, "ledger")
        # ---- accounting
        for e in ev_exact:
            if e["e"] == "Case":
                ctx.case(("exact", tuple(e["lab"]), e["d"]), e["start"] == 1 or not e["balanced"])
        for e in ev_led:
            if e["e"] == "Case" and not e["sub"]:
                cnt = {}
                for v in e["lab"]:
                    cnt[v] = cnt.get(v, 0) + 1
                ctx.case(("ledger", e["K"], e["d"], e["start"], e["balanced"], tuple(sorted(cnt.items()))), True)
        for c in cases[:1] + cases[len(cases) // 2:len(cases) // 2 + 1]:
            ctx.sample(dict(c, what="exact case emitted by TLC"))
        for e in ev_led:
            if e["e"] == "Pair":
                ctx.sample(dict(e, what="ledger invariance pair"), 5)
        ctx.cov["rule"] = ("exact: every label vector of length <= %d over <= 3 classes (both numberings, every class occupied) x integer feature pattern with non-singular total "
                           "and within-class covariance, enumerated by TLC and replayed; non-trivial = 1-based or unbalanced.  ledger: seeded data sets keyed by "
                           "(classes, features, numbering, balanced, class sizes); all non-trivial" % (6 if q else 7))
        ctx.cov["exhaustive"] = False
        ctx.steps["ledger_cases"] = sum(1 for e in ev_led if e["e"] == "Case" and not e["sub"])
        ctx.steps["exact_cases"] = nex
        crashes = [e for e in ev_exact + ev_led if e["e"] == "Crash"]
        ctx.steps["child_crashes"] = len(crashes)
        # (V) which mapping does the code implement?
        cm_all = _ctxmap(ev_exact + ev_led)
        pluspos = any(e["e"] == "Crash" and e.get("stage") == "predict" and e.get("start") == 1 for e in crashes) or \
            any(e["e"] == "Pred" and cm_all[id(e)][0] == 1 and e["label"] == e["am"] - 1 for e in ev_exact + ev_led)
        ctx.steps["implemented_label_map"] = "plus_pos" if pluspos else "plus_start"
        ctx.note("conformance: %d exact + %d ledger cases, %d child crashes; implemented label map: %s" % (nex, ctx.steps["ledger_cases"], len(crashes), ctx.steps["implemented_label_map"]))

        def replay_exact(case, e):
            return dict(kind="exact", lab=case["lab"], X=case["X"], event=e)

        def replay_ledger(case, e):
            return dict(kind="ledger", seed=ctx.seed, idx=case["id"], sep=SEP, event=e)
        _validate(ctx, ev_exact, san1, "trace_exact", replay_exact)
        _validate(ctx, ev_led, san2, "trace_ledger", replay_ledger)
        # vacuity: the parts of the property that need events must have produced them
        kinds = set(e["e"] for e in ev_exact + ev_led)
        need = {"Labels", "Prior", "PriorSum", "Mu", "MuL"}
        if not need <= kinds:
            raise InfraError("harness stopped emitting %s" % sorted(need - kinds))
        # binding self-test: corrupt one stored mean / one predicted label -> must be rejected
        blk = next((b for b in tlc.split_blocks(ev_exact) if any(e["e"] == "Pred" for e in b) and any(e["e"] == "Mu" for e in b)), None)
        if blk is not None:
            def corrupt_mu(ev):
                for e in ev:
                    if e["e"] == "Mu":
                        e["num"] += 1
                        return True
                return False
            trace.binding_selftest(ctx, "TraceLda", "Trace_Lda_prop.cfg", blk, corrupt_mu, "binding_mu")

            def corrupt_pred(ev):
                labs = sorted(set(ev[1]["lab"]))
                for e in ev:
                    if e["e"] == "Pred" and len(set(tuple(s) for s in e["sc"])) == len(e["sc"]):
                        e["label"] = labs[0] if e["label"] != labs[0] else labs[1]
                        return True
                return False
            trace.binding_selftest(ctx, "TraceLda", "Trace_Lda_prop.cfg", blk, corrupt_pred, "binding_pred")
    finally:
        shutil.rmtree(rd, ignore_errors=True)


def replay(ctx, body):
    case = body.get("case") or {}
    lib = build.build_lib("san")
    exe = build.build_harness("c08", ["c08_drv.c"], lib)
    rd = tlc.rundir()
    try:
        if case.get("kind") == "exact":
            fn = os.path.join(rd, "case.txt")
            open(fn, "w").write(_case_line(0, case))
            jobs = [[os.path.join(rd, "r.ndjson"), "exact", fn]]
        elif case.get("kind") == "ledger":
            jobs = [[os.path.join(rd, "r.ndjson"), "ledger", case["seed"], case["idx"], 1, case.get("sep", SEP)]]
        else:
            return run(ctx)
        ev, san = _run_harness(exe, jobs, "replay")
        for e in ev:
            if e["e"] == "Case":
                ctx.case(("replay", e["id"], e["sub"]))
                ctx.case(("replay-n", len(e["lab"]), e["sub"]))
                ctx.sample(e)
        ctx.cov["rule"] = "replay of one recorded case"
        _validate(ctx, ev, san, "replay", lambda c, e: case)
    finally:
        shutil.rmtree(rd, ignore_errors=True)
