"""C08 - LDA predicts the arg-max discriminant and is invariant to affine re-coding.

(M)  Lda.tla: exact model of the label <-> row bookkeeping of LDA()/LDAPrediction() and of priors / class means as exact
     rationals, model-checked over all label vectors of length <= 6 (quick) / <= 7 (thorough) over <= 3 classes, both
     numberings, balanced and unbalanced, plus mirror-symmetric data sets (exact score ties).  The model is also run with
     the pinned tree's mapping (LabelMap = "plus_pos"): TLC shows a predicted label outside the training labels and a
     negative table index for every 1-based label vector.
     Round 3: the discriminant itself is modelled exactly for one / two features (integer sign Sgn of f_k - f_l for equally
     large classes, rows no equally large class beats = AdmRows) and the invariance clauses of the statement are THEOREMS
     TLC checks in exact arithmetic on every enumerated case: Sgn is multiplied by det(A)^2 under x -> Ax + b on training
     and test data alike (12 integer maps: shear, swap, reflection, scales 2 and 3, shifts), unchanged under reordering of
     the training objects and under renumbering of the classes; differences are antisymmetric and additive, some row is
     never beaten, mirror data tie exactly at the centre; confusion counts (LDAError) partition the objects.
(C)  replay: every label vector TLC enumerated comes with small integer feature data (InQuantifier: total and pooled
     within-class covariance non-singular) and two extra test points; c08_drv fits and predicts each one in a child process
     and records what the library stored and returned; TLC validates the recording against TraceLda.tla (priors and means
     against the exact rationals, prediction = a training label whose row maximises the STORED score row AND is a row no
     equally large class beats in exact arithmetic).  A stratified part of the cases is replayed once more under the
     RECODING TLC assigned to it (offsets 1e3..1e6, units 2^-20..2^20, grids 1/10 and 1/3: classes K3, K4, K5) while TLC
     keeps judging on the integer coordinates - licensed by the theorems above.
     validate (ledger): seeded Gaussian classes (2..5 classes, 2..6 features, 4..40 objects per class, balanced/unbalanced,
     labels from 0/1, centres >= 8 sigma apart): zero errors, score = documented discriminant, invariance of score
     differences under affine maps with cond <= 100 and under row permutations, AUC = 1 for perfect predictions - for the
     base generator and for the stratified families of INPUT-CLASSES.md inside the quantifier (see CLASS AUDIT below).
(V)  the label mapping the code implements is inferred from the recording and reported with the real witness.

CLAUSE AUDIT (statement of C08 -> what decides it -> event that carries it)
  "every labelled data set with a non-singular pooled covariance"   TCase: WellFormed, ExactCaseOk (NonSingular, rc in RecodeSet) /
                                                                     LedgerCaseOk (2..5 classes, 2..6 features, 4..40 per class,
                                                                     offset <= 1e6 spreads, unit 2^-20..2^20); Pair.kf <= KfMax     Case, Pair
  "numbered from 0 or from 1"                                       TLabels (class_start, nclass, class sizes); model: StartSgn,
                                                                     RowLabelBijection, PredictionIsALabel, TableIndexInRange       Labels
  "stores class priors equal to the class frequencies"              TPrior: REq(num/den, Count/Len) recomputed by TLC                Prior
  "(summing to 1)"                                                  TPriorSum (and the length of pprob); model: PriorsSumToOne       PriorSum
  "class means equal to the per-class averages"                     TMu: REq with Mu(lab, X) recomputed by TLC (exact; tolerance
                                                                     TolMuExact(rc) grows with the offset); TMuL (ledger, TolAlg,
                                                                     relative to the data's unit); model: MeansGiveGrandMean,
                                                                     MeanEquivariant                                                 Mu, MuL
  "prediction returns, for each object"                             TEndPred: rows = n = number of Pred events = nt                  Pred, EndPred
  "a label that occurs in the training labels"                      PropPred: label in Range(lab)                                    Pred
  "and maximises the stored discriminant score"                     PropPred: row in ArgmaxSet(stored codes) (ties: any maximiser;
                                                                     first maximiser = Impl layer); PropPredExact: row in AdmRowsG
                                                                     (exact discriminant, margin RecodeMargin(rc)); TDisc: stored
                                                                     score = mu'Cx - mu'Cmu/2 + ln prior of the stored model;
                                                                     TReuse: whatever the outputs held / however they were sized    Pred, Disc, Reuse
  "well-separated classes are classified without error"             TEndPred: sep = 1 => errs = 0 (errs counted by TLC)              Pred, EndPred
  "score differences ... unchanged by any invertible affine map"    TPair kind affine (maps dense / diag / recentre): err <= TolPair
                                                                     or PairPerKf * kf; blocks with an offset: TPairRow, every class
                                                                     pair of every object against PairRel9(kf) * max(1,|D|) +
                                                                     ShiftAbs9(d, shift); model: AffineSgn                           Pair, PairRow
  "and hence predictions"                                           TPair: same = 1                                                  Pair
  "and by any reordering of the training objects"                   TPair kind perm (+ TPairRow); THist (the identity reordering:
                                                                     the same data fitted again later in the same process); model:
                                                                     PermSgn                                                         Pair, PairRow, Hist
  "per-class ROC summaries ... (numbered from 0)"                   TAucEnd: ClassStart = 0, one summary per class (K >= 3: count =
                                                                     K; K = 2: 1 or 2)                                               AucEnd
  "give AUC = 1 for perfect predictions"                            TAuc: |AUC - 1| <= TolExact, for src "labels" (training labels
                                                                     twice) and src "pred" (truth vs what LDAPrediction returned,
                                                                     premise errs = 0 counted by TLC)                                Auc
  outside the statement, modelled all the same (EXTRA-FINDING):     TPFeat (projected features), TFTab (feature tables fmean / fsdev:
                                                                     row k = class of label k + start), TMnPdf (density output read
                                                                     at the table row of the predicted label), TErr / TErrEnd
                                                                     (LDAError against Confusion() of Lda.tla), TRefit (LDA() into a
                                                                     used model)                                                     PFeat, FTab, MnPdf, Err, ErrEnd, Refit
  Impl layer (SPEC-DRIFT only):                                     ImplPred (first maximiser wins), ImplDisc (the stored inverse
                                                                     inverts the n_k/n-weighted pooled within-class covariance),
                                                                     TAucEnd (two classes: one curve; one ROC table / PR area each)  Pred, Disc, AucEnd

CLASS AUDIT (INPUT-CLASSES.md; measured in coverage.classes)         before round 3                    now
  K1 shapes      n_k = d+1, n-K = d, single test object             by chance / never                 families k1-*
  K2 blocks      class sizes 4k, 4k+-1, 32, 32+-1, n = 64, 64+-1     by chance, untagged               family k2-block
  K3 offsets     common offset 1e3..1e6 spreads                     never (<= 30 spreads)             k3-offset + exact recodings
  K4 magnitude   units 2^-20 .. 2^20                                only in pair runs (1e-3..1e4)     k4-unit + exact recodings
  K5 grids       values k/10, k/3                                   never                             k5-grid + exact recodings
  K6 nproc       2, 3, 5, 16                                        never (forced 1)                  k6-nproc (no MT kernel is reached on this tree)
  K7 histories   outputs of other size, model reused, A,B,A',A      same-size reuse only              Reuse var 0..3, k7-hist (two passes in one process)
  K8 degenerate  exact score ties, duplicate rows                   never                             mirror cases of Lda.tla, k8-dup
  K9 MISSING     -                                                  -                                 excluded: the statement does not mention missing values
  K10 labels     1-based, unsorted, first object in last class,     all label vectors <= 7 (exact);   k10-* (non-increasing, first-in-last,
                 non-increasing, 4 vs 40, 5 x 6                     shuffled (ledger)                  4 vs 40, 5 x 6), tagged
"""
import json, os, shutil
from concurrent.futures import ThreadPoolExecutor
from vf import build, tlc, trace
from vf import run as hrun
from vf.core import InfraError

LEVEL = "exploration"
READY = True
TECHNIQUE = ("TLC model checking of Lda.tla (label/row bookkeeping, exact rational priors and class means, the exact discriminant of one / two "
             "features with the affine / permutation / renumbering invariance clauses as theorems over all small label vectors and mirror-symmetric "
             "tie cases) + replay of every TLC-enumerated case (also under the offset / unit / grid recoding TLC assigns) and of seeded separable data "
             "sets of every input class inside the quantifier into the real LDA/LDAPrediction/LDAMulticlassStatistics/LDAError (each fit in a child "
             "process, histories of several fits in one process), the recording validated by TLC against TraceLda.tla")
LEVEL_TEXT = ("The label bookkeeping, the exact priors/means and the exact arg-max rows are model-checked and replayed exhaustively for all label vectors "
              "within the stated bounds; the floating-point discriminant, separability and invariance parts are sampled (seeded data sets, stratified over "
              "the input classes K1-K8 and K10) and each recorded model is trace-validated by TLC, so the claim as a whole is exploration.")
LEVEL_NOTE = ("Trusts TLC, the harness's double-precision evaluation of residuals (score vs documented discriminant, score-difference deviations, "
              "class averages of real-valued data), its order-preserving encoding of the stored scores, ASan/UBSan as memory monitor. "
              "Invariance bound: 1e-7 relative, relaxed to 1e-8 per unit Frobenius condition number of the covariance LDA() inverts; "
              "cases with condition number > 1e5 are dropped and counted. Blocks with a common offset of r >= 1000 spreads are judged pair by pair "
              "against that bound times max(1,|D|) plus ShiftC * u * d * r^2 (u = 1.1e-16, ShiftC = 32; worst observed 6.5), the rounding error of a "
              "difference of two scores whose terms are r^2 large; their dense random maps are kept nearly isotropic (condition <= 2) because a map of "
              "condition kappa turns the offset into r * kappa spreads of the narrowest direction. Recoded exact cases accept any row that no equally "
              "large class beats by one discriminant unit (RecodeMargin). Classes left out because the quantifier / statement excludes them: K9 (the "
              "statement does not mention missing values; cells within 1 of the MISSING code 99999999 are never generated), wide shapes (n - K < d makes "
              "the pooled covariance singular), constant / duplicate columns (singular), non-contiguous labels and empty classes (numbering starts at 0 "
              "or 1 and every class occurs), per-feature unit systems 2^-20..2^20 inside ONE map (condition > 100; per-feature units up to condition 100 "
              "are there), imperfect predictions for the ROC clause (the tie order of equal scores is implementation-defined). K6 is emitted although "
              "LDA / LDAPrediction / LDAMulticlassStatistics reach no MT_* kernel on this tree. Projected features, feature tables, the density output, LDAError and "
              "LDA() into a used model object are outside the statement: EXTRA-FINDING only (candidate repairs: fixes/C08-lda-refit-used-model.diff, "
              "fixes/C08-ldaprediction-pfeatures-reset.diff).")

KFMAX = 100000
SEP = 16.0          # lattice spacing of the class centres in sigma; after jitter the centres are >= 12 sigma apart
WORKERS = int(os.environ.get("VERIF_WORKERS", "6"))
EXTRA_KINDS = ("PFeat", "Err", "ErrEnd", "Refit", "FTab", "MnPdf")
EXTRA_STAGES = ("refit", "lderr")


def _ctxmap(events):
    """id(event) -> (start, label set, case event) of the enclosing block"""
    m, cur = {}, (0, frozenset(), None)
    for e in events:
        if e["e"] == "Case":
            cur = (e["start"], frozenset(e["lab"]), e)
        m[id(e)] = cur
    return m


def _is_extra(e):
    return e["e"] in EXTRA_KINDS or (e["e"] == "Crash" and e.get("stage") in EXTRA_STAGES)


def _sig(e, cm):
    """(signature, what) of a rejected event; the verdict is TLC's, this only names it"""
    start, labs, case = cm.get(id(e), (0, frozenset(), None))
    s = "start%d" % start
    k = e["e"]
    cid = "case %s (%s/%s, K=%s d=%s n=%s)" % (case.get("id"), case.get("mode"), case.get("fam"), case.get("K"), case.get("d"), len(case.get("lab", []))) if case else "?"
    if case and case.get("mode") == "exact" and case.get("rc", {}) != {"off": 0, "mul": 1, "den": 1}:
        cid += " recoded %s" % json.dumps(case["rc"])
    if case and (case.get("shift") or case.get("unit")):
        cid += " offset %s spreads, unit 2^%s" % (case.get("shift"), case.get("unit"))
    if k == "Crash":
        if e.get("stage") == "refit":
            return "LDA:history:refit-into-used-model", "%s: LDA() into the LDAMODEL that already holds a fit dies (rc=%s)" % (cid, e.get("rc"))
        if e.get("stage") == "lderr":
            return "LDA:lderror:crash", "%s: LDAError dies (rc=%s)" % (cid, e.get("rc"))
        if e.get("stage") == "predict":
            return "LDA:labelmap:%s" % s, "%s: LDAPrediction died (rc=%s) - out-of-range table index for the predicted label" % (cid, e.get("rc"))
        return "LDA:crash-%s:%s" % (e.get("stage"), s), "%s: library call '%s' died (rc=%s)" % (cid, e.get("stage"), e.get("rc"))
    if k == "Labels":
        return "LDA:labelmap:%s" % s, "%s: stored class_start/nclass/class sizes %s do not describe the training labels" % (cid, e)
    if k in ("Prior", "PriorSum"):
        return "LDA:prior:%s" % s, "%s: stored prior %s is not the class frequency / priors do not sum to 1" % (cid, e)
    if k in ("Mu", "MuL"):
        return "LDA:mean:%s" % s, "%s: stored class mean %s is not the per-class average" % (cid, e)
    if k == "Pred":
        lab, am = e["label"], e["am"]
        if lab not in labs or (start == 1 and lab == am - 1 and lab != am + start):
            return "LDA:labelmap:%s" % s, ("%s: object %d predicted as label %s while score row %d (label %d) is the maximum; training labels are %s"
                                          % (cid, e["i"], lab, am, am + start, sorted(labs)))
        if case and len(e["sc"]) != case.get("K"):
            return "LDA:argmax:%s" % s, "%s: object %d: the stored score row has %d entries for %s classes" % (cid, e["i"], len(e["sc"]), case.get("K"))
        if e["fin"] == 1 and lab - start == am and case and case.get("mode") == "exact":
            return "LDA:argmax:%s" % s, ("%s: object %d predicted as label %s, which does maximise the stored score row, but in exact arithmetic an equally large class has a "
                                         "larger discriminant there: the stored scores are not the LDA discriminant of this data" % (cid, e["i"], lab))
        return "LDA:argmax:%s" % s, "%s: object %d predicted as label %s which does not maximise the stored score row (arg-max row %d, finite=%s)" % (cid, e["i"], lab, am, e["fin"])
    if k == "Disc":
        return "LDA:argmax:%s" % s, "%s: stored score differs from mu'Cx - mu'Cmu/2 + ln(prior) of the stored model by %.3g relative" % (cid, e["err"] * 1e-12)
    if k == "EndPred":
        if e.get("rows") != e.get("n"):
            return "LDA:argmax:%s" % s, "%s: %s objects submitted, prediction has %s rows" % (cid, e.get("n"), e.get("rows"))
        return "LDA:separable:%s" % s, "%s: well separated classes (centres >= 8 sigma apart) are not classified without error" % cid
    if k == "Reuse":
        how = {0: "already sized, non-zero", 1: "larger, non-zero", 2: "smaller (1 x 1)", 3: "already sized, after another test set was predicted into them"}.get(e.get("var"), "?")
        return "LDA:argmax:%s" % s, ("%s: another LDAPrediction call of the same model into output matrices that are %s differs from the call with fresh outputs "
                                     "(scores by %s relative, labels identical: %s, rows %s/%s)" % (cid, how, ">= 0.002" if e["err"] >= 2000000000 else "%.3g" % (e["err"] * 1e-12), e["same"], e["rows"], e["n"]))
    if k == "Pair":
        return "LDA:%s:%s" % (e["kind"], s), ("%s: score differences change by %s relative under %s%s (cond %.1f, scale %.3g, covariance condition %s), predictions identical: %s"
                                             % (cid, ">= 0.002" if e["err"] >= 2000000000 else "%.3g" % (e["err"] * 1e-12), e["kind"], " (%s map)" % e["map"] if "map" in e else "", e.get("cond", 0) / 1000.0, e.get("scale", 0) / 1000.0, e.get("kf"), e["same"]))
    if k == "PairRow":
        if not e["e9"] or len(e["e9"]) != len(e["m"]):
            return "LDA:%s:%s" % (e["kind"], s), "%s: object %d: %d score differences recorded for %s classes" % (cid, e["i"], len(e["e9"]), case.get("K") if case else "?")
        w = max(range(len(e["e9"])), key=lambda p: e["e9"][p] / float(max(1, e["m"][p])))
        return "LDA:%s:%s" % (e["kind"], s), ("%s: object %d: a score difference of size ~%d changes by %.3g under %s (%s map), beyond the bound for an offset of %s spreads"
                                             % (cid, e["i"], e["m"][w], e["e9"][w] * 1e-9, e["kind"], e["map"], case.get("shift") if case else "?"))
    if k == "Hist":
        return "LDA:perm:%s" % s, ("%s: the same data fitted and predicted once more after other models were fitted, used and freed in the same process gives other "
                                   "scores (by %s relative; labels identical: %s, rows %s/%s) - the identity reordering of the training objects"
                                   % (cid, ">= 0.002" if e["err"] >= 2000000000 else "%.3g" % (e["err"] * 1e-12), e["same"], e["rows"], e["n"]))
    if k in ("Auc", "AucEnd"):
        return "LDA:auc:%s" % s, "%s: LDAMulticlassStatistics on perfect predictions: %s (one summary per class, AUC must be 1 for every class)" % (cid, e)
    if k == "PFeat":
        return "LDA:pfeatures", ("%s: LDAPrediction's projected features are %s x %s for %s objects and %s eigenvectors (deviation from objects x eigenvectors %s)%s"
                                 % (cid, e["rows"], e["cols"], e["n"], e["d"], ">= 0.002" if e["err"] >= 2000000000 else "%.3g" % (e["err"] * 1e-12),
                                    " - the output was not empty: columns are appended to what it held" if e.get("var") else ""))
    if k in ("Err", "ErrEnd"):
        return "LDA:lderror", "%s: LDAError %s does not agree with the confusion counts of the recorded predictions" % (cid, e)
    if k == "FTab":
        return "LDA:featuretable", "%s: row %s of the stored feature tables (fmean / fsdev, %s x %s for %s eigenvectors) is not the mean / sdev of the projected training objects of that class: %s" % (cid, e["k"], e["rows"], e["cols"], e["ne"], e)
    if k == "MnPdf":
        return "LDA:mnpdf", "%s: the density output (%s x %s for %s objects, %s eigenvectors) is not the normal density under the table row of the predicted label (deviation %s)" % (
            cid, e["rows"], e["cols"], e["n"], e["ne"], ">= 0.002" if e["err"] >= 2000000000 else "%.3g" % (e["err"] * 1e-12))
    if k == "Refit":
        return "LDA:history:refit-into-used-model", ("%s: LDA() into the LDAMODEL that already holds a fit: pprob has %s entries and mu %s rows for %s classes, predictions equal to a "
                                                    "fresh model's: %s" % (cid, e["psize"], e["murows"], e["K"], e["same"]))
    return "LDA:trace:%s" % k, "unexpected event %s" % e


def _exact_line(i, c, rc):
    T = c.get("T", [])
    return "%d %d %d %d %d %d %d %s %s %s\n" % (i, len(c["lab"]), len(c["X"][0]), len(T), rc["off"], rc["mul"], rc["den"], " ".join(map(str, c["lab"])),
                                               " ".join(str(v) for row in c["X"] for v in row), " ".join(str(v) for row in T for v in row))


def _run_harness(exe, jobs, what, asan_extra=""):
    # no stack traces for UBSan reports: on the pinned tree every 1-based case dies in a child, and symbolising thousands of
    # reports dominates the run time; file:line of the report is kept
    env = {"UBSAN_OPTIONS": "print_stacktrace=0:halt_on_error=1:exitcode=98"}
    if asan_extra:
        env["ASAN_OPTIONS"] = hrun.SAN_ENV["ASAN_OPTIONS"] + ":" + asan_extra
    res = hrun.run_many(exe, jobs, timeout=1500, workers=WORKERS, env=env)
    events, errs = [], []
    for j, h in zip(jobs, res):
        ev = hrun.read_ndjson(j[0])
        if h.timed_out:
            raise InfraError("c08 harness timed out (%s)" % what)
        if h.rc != 0:
            # the parent only generates data and forks; the library runs in children
            raise InfraError("c08 harness parent failed rc=%d (%s): %s" % (h.rc, what, h.err[-1500:]))
        events += ev
        errs.append(h.err)
    return events, "\n".join(errs)


def _validate(ctx, events, san_text, label, replay_of, chunks=1):
    """account, drop out-of-quantifier pairs, TLC-validate with the alarm discipline.
    The recording is split in two streams: the MAIN one (everything the statement of C08 covers; rejections are violations, the Impl layer
    applies) and the EXTRA one (projected features, LDAError, refit - with the Case / Pred events they refer to; rejections are
    EXTRA-FINDINGs).  Blocks are independent (each starts from Reset), so the main stream is validated in `chunks` parts side by side."""
    if not events:
        raise InfraError("c08 harness produced no events (%s)" % label)
    cm = _ctxmap(events)
    nblocks = sum(1 for e in events if e["e"] == "Reset")
    dropped = [e for e in events if e["e"] in ("Pair", "PairRow") and e.get("kf", 0) > KFMAX]
    npairs = sum(1 for e in dropped if e["e"] == "Pair")
    if npairs:
        ctx.note("%s: %d of %d invariance pairs have a numerically singular covariance (condition > %d): outside the quantifier, dropped"
                 % (label, npairs, sum(1 for e in events if e["e"] == "Pair"), KFMAX))
        ctx.steps.setdefault("dropped_pairs", 0)
        ctx.steps["dropped_pairs"] += npairs
    dset = set(id(e) for e in dropped)
    ev = [e for e in events if id(e) not in dset]
    sanlines = [l for l in san_text.splitlines() if "SUMMARY:" in l or "runtime error:" in l]
    main = [e for e in ev if not _is_extra(e)]
    extra = []
    for blk in tlc.split_blocks(ev):
        if any(_is_extra(e) for e in blk):
            extra += [e for e in blk if e["e"] in ("Reset", "Case", "Pred") or _is_extra(e)]

    def on_reject(e, idx, block):
        if e["e"] == "Case":
            raise InfraError("harness generated a case outside the quantifier: %s" % json.dumps(e)[:300])
        sig, what = _sig(e, cm)
        if e["e"] == "Crash" and sanlines:
            what += " [" + sanlines[0].strip()[:200] + "]"
        case = cm[id(e)][2]
        ctx.violation(sig, what, replay_of(case, e))
        return lambda x: x["e"] != "Case" and x["e"] != "Reset" and _sig(x, cm)[0] == sig and _bad_like(x, e, cm)

    def on_reject_extra(e, idx, block):
        if not _is_extra(e):
            return lambda x: x is e             # judged in the main stream
        sig, what = _sig(e, cm)
        if e["e"] == "Crash" and sanlines:
            what += " [" + sanlines[0].strip()[:200] + "]"
        # routines / behaviour the statement of C08 does not cover: reported, never a verdict
        ctx.extra(sig, what)
        return lambda x: _is_extra(x) and _sig(x, cm)[0] == sig and _bad_like(x, e, cm)
    blocks = tlc.split_blocks(main)
    chunks = max(1, min(chunks, len(blocks)))
    per = (len(blocks) + chunks - 1) // chunks
    parts = [[e for b in blocks[i:i + per] for e in b] for i in range(0, len(blocks), per)]
    jobs = [(part, on_reject, "%s%s" % (label, "" if len(parts) == 1 else "_%d" % i), "Trace_Lda.cfg") for i, part in enumerate(parts)]
    if extra:
        jobs.append((extra, on_reject_extra, label + "_extra", "Trace_Lda_prop.cfg"))
    with ThreadPoolExecutor(len(jobs)) as ex:
        rej = list(ex.map(lambda j: trace.check_trace(ctx, "TraceLda", j[3], "Trace_Lda_prop.cfg", j[0], j[1], drop="event", label=j[2], max_rounds=16), jobs))
    ctx.traces(nblocks)
    return sum(rej)


def _bad_like(x, e, cm):
    """events that would be rejected for the same reason as e (dropped together so that the rest of the trace is examined)"""
    grp = lambda k: "Auc" if k in ("Auc", "AucEnd") else "Err" if k in ("Err", "ErrEnd") else "Pair" if k in ("Pair", "PairRow") else k
    if grp(x["e"]) != grp(e["e"]):       # a Pair goes with its PairRows (TLC counts them), AucEnd with its Auc, ErrEnd with its Err
        return False
    k = x["e"]
    if k == "Pred":
        start, labs, _ = cm[id(x)]
        if e["fin"] == 1 and e["label"] - cm[id(e)][0] == e["am"] and e["label"] in cm[id(e)][1]:
            return cm[id(x)][2].get("mode") == "exact"        # rejected by the exact oracle only: the other exact blocks may be too
        return x["label"] not in labs or x["label"] - start != x["am"] or x["fin"] != 1
    if k == "EndPred":
        return (x.get("rows") != x.get("n")) == (e.get("rows") != e.get("n"))
    if k in ("Pair", "PairRow"):
        return x["kind"] == e["kind"]
    if k == "Reuse":
        return x.get("var") == e.get("var")
    if k == "PFeat":
        return bool(x.get("var")) == bool(e.get("var"))
    return True


# ---------------------------------------------------------------- the stratified plan of round 3 (input classes inside the quantifier)
def _plan(seed, rounds):
    """plan lines 'id seed fam K d start order ntmode shiftexp unitexp grid nproc hist sep dup refit n_1..n_K' (see harness/c08_drv.c)"""
    import random
    rng = random.Random(seed * 7 + 3)
    out, pid = [], [1000]

    def add(fam, K, d, start, cnt, order=0, ntmode=0, shiftexp=0, unitexp=0, grid=0, nproc=1, hist=0, sep=1, dup=0, refit=0, sd=None, fixed=False):
        assert len(cnt) == K and 2 <= K <= 5 and 2 <= d <= 6 and all(4 <= c <= 40 for c in cnt) and sum(cnt) - K >= d
        # "well separated => no error" is promised for FRESH objects only when the pooled covariance is estimated with some margin:
        # with n - K close to d its smallest eigenvalue is far below the true variance and a fresh object's noise along that direction
        # is amplified beyond the class distance (not a defect of the code).  Families that need n - K < 4d predict their training
        # objects only (ntmode 2: there |score noise| <= M sqrt(n) < M^2/2 for centres >= 12 sigma apart); the others get >= 4d.
        if sep and ntmode != 2:
            cnt = list(cnt)
            while sum(cnt) - K < 4 * d:
                if fixed and d > 2:
                    d -= 1
                else:                       # also for a fixed block-size family once d is at its minimum (e.g. random sizes [4, 4]): grow the smallest class
                    cnt[cnt.index(min(cnt))] += 1
            assert d >= 2
        out.append("%d %d %s %d %d %d %d %d %d %d %d %d %d %d %d %d %s" % (pid[0], sd if sd is not None else seed + pid[0], fam, K, d, start, order, ntmode, shiftexp, unitexp, grid,
                                                                          nproc, hist, sep, dup, refit, " ".join(map(str, cnt))))
        pid[0] += 1
    for rnd in range(rounds):
        v = rnd > 0      # later rounds (thorough tier) vary shapes at random inside each family

        def Kd(K, d):
            return (rng.randint(2, 5), rng.randint(2, 6)) if v else (K, d)

        def sizes(K, lo=4, hi=40):
            return [rng.randint(lo, hi) for _ in range(K)]
        # K1 shape relations
        for K, d in ((3, 3), (2, 6), (5, 5), (3, 4)):
            K, d = Kd(K, d)
            d = max(d, 3)
            add("k1-nk=d+1", K, d, rng.randint(0, 1), [d + 1] * K, ntmode=2)
        for K, d in ((2, 6), (2, 5), (3, 6)):
            add("k1-barely", K, d, rng.randint(0, 1), [4] * K if not v else [max(4, (d + K - 1) // K + 1)] * K, ntmode=2)
        for K, d, st in ((2, 2, 0), (4, 5, 0), (3, 3, 1)):
            K, d = Kd(K, d)
            add("k1-single-test", K, d, st, sizes(K, 8, 20), ntmode=1)
        # K2 block-size boundaries of the unrolled products (4) and n around 64
        for cnt in ([32, 32], [31, 32], [32, 33], [8, 8, 16, 32], [4, 5, 7, 9], [16, 16, 16, 16], [33, 31, 4], [12, 13, 15, 24]):
            if v:
                cnt = [rng.choice([4, 5, 7, 8, 9, 12, 15, 16, 17, 31, 32, 33, 36, 40]) for _ in range(rng.randint(2, 5))]
            add("k2-block", len(cnt), rng.randint(2, 6), rng.randint(0, 1), cnt, fixed=True)
        # K3 common offsets, K4 units, and both
        for se, K, d, st in ((3, 2, 2, 0), (3, 4, 5, 1), (5, 3, 3, 0), (5, 2, 6, 1), (6, 3, 4, 1), (6, 5, 2, 0)):
            K, d = Kd(K, d)
            add("k3-offset", K, d, st, sizes(K, 5, 16), shiftexp=se)
        for ue, K, d, st in ((-20, 2, 5, 1), (-10, 3, 3, 0), (10, 4, 2, 1), (20, 3, 3, 0)):
            K, d = Kd(K, d)
            add("k4-unit", K, d, st, sizes(K, 5, 24), unitexp=ue)
        for se, ue, K, d, st in ((5, -20, 3, 3, 0), (6, 10, 2, 4, 1)):
            K, d = Kd(K, d)
            add("k3k4-offset-unit", K, d, st, sizes(K, 5, 16), shiftexp=se, unitexp=ue)
        # K5 non-representable grids
        for g, K, d, st in ((10, 3, 3, 0), (10, 2, 6, 1), (3, 4, 2, 1)):
            K, d = Kd(K, d)
            add("k5-grid", K, d, st, sizes(K, 6, 30), grid=g)
        # K6 processor counts
        for np_, K, d, st in ((2, 3, 3, 0), (3, 2, 4, 1), (5, 4, 3, 0), (16, 5, 2, 1)):
            K, d = Kd(K, d)
            add("k6-nproc", K, d, st, sizes(K, 6, 20), nproc=np_)
        # K7 histories in one process
        for K, d, st in ((3, 3, 0), (2, 5, 1), (5, 2, 1), (4, 4, 0)):
            K, d = Kd(K, d)
            add("k7-hist", K, d, st, sizes(K, 6, 16), hist=1)
        # K8 duplicate rows
        for K, d, st in ((2, 3, 0), (3, 2, 1)):
            K, d = Kd(K, d)
            add("k8-dup", K, d, st, sizes(K, 16, 30), dup=1)
        # K10 label order / balance alphabets
        add("k10-desc", 3, 3, 0, sizes(3, 6, 20), order=1)
        add("k10-desc", 4, 2, 1, sizes(4, 6, 20), order=1)
        add("k10-first-in-last", 3, 4, 0, sizes(3, 6, 20), order=2)
        add("k10-first-in-last", 5, 3, 1, sizes(5, 6, 20), order=2)
        add("k10-4v40", 2, rng.randint(2, 6) if v else 3, 1, [4, 40], order=2, fixed=True)
        add("k10-4v40", 2, rng.randint(2, 6) if v else 2, 0, [40, 4], order=1, fixed=True)
        add("k10-5x6", 5, 6, 1, [4, 40, 4, 40, 12] if not v else sizes(5), order=2)
        add("k10-5x6", 5, 6, 0, sizes(5, 8, 16), order=3)
        # overlapping classes (arg-max, label, prior, mean clauses on objects that are NOT all classified correctly; LDAError with errors)
        for K, d, st in ((2, 2, 0), (3, 3, 1), (4, 4, 0), (5, 6, 1)):
            K, d = Kd(K, d)
            add("overlap", K, d, st, sizes(K, 10, 30), sep=0)
        # LDA() into a used model object (outside the statement)
        for K, d, st in ((2, 2, 0), (3, 3, 1)):
            add("refit", K, d, st, sizes(K, 6, 16), refit=1)
    return out


def _classes(e, preds_tie):
    """input-class tags of one executed case, measured on its Case event (INPUT-CLASSES.md)"""
    t = []
    lab, d, K = e["lab"], e["d"], e["K"]
    cnt = {}
    for v in lab:
        cnt[v] = cnt.get(v, 0) + 1
    sz = sorted(cnt.values())
    n = len(lab)
    exact = e["mode"] == "exact"
    rc = e.get("rc", {})
    if exact:
        t.append("K1:exact n<=7 (classes of 1..5 objects)")
        if rc.get("off"):
            t.append("K3:exact case at offset %g" % rc["off"])
        if rc.get("mul", 1) > 1:
            t.append("K4:exact case in units 2^%d" % (rc["mul"].bit_length() - 1))
        if rc.get("den", 1) in (1024, 1048576):
            t.append("K4:exact case in units 2^-%d" % (rc["den"].bit_length() - 1))
        if rc.get("den", 1) in (3, 10):
            t.append("K5:exact case on the grid 1/%d" % rc["den"])
        if preds_tie:
            t.append("K8:exact score tie between two classes (stored scores bitwise equal)")
    else:
        if sz[0] == d + 1:
            t.append("K1:nk=d+1")
        if n - K == d:
            t.append("K1:n-K=d (pooled covariance barely non-singular)")
        elif sz[0] <= d:
            t.append("K1:nk<=d<n-K (a class alone is singular)")
        if e["nt"] == 1:
            t.append("K1:single test object")
        if sz[0] > d + 1:
            t.append("K1:tall")
        if any(c % 4 == 0 for c in sz):
            t.append("K2:nk=4k")
        if any(c % 4 in (1, 3) for c in sz):
            t.append("K2:nk=4k+-1")
        if 32 in sz:
            t.append("K2:nk=32")
        if 31 in sz or 33 in sz:
            t.append("K2:nk=32+-1")
        if n == 64:
            t.append("K2:n=64")
        if n in (63, 65):
            t.append("K2:n=64+-1")
        if e["shift"] >= 1000:
            t.append("K3:offset>=1e%d spreads" % (len(str(e["shift"])) - 1))
        if e["unit"]:
            t.append("K4:unit=2^%d" % e["unit"])
        if e["fam"].startswith("k5"):
            t.append("K5:grid")
        if e["nproc"] > 1:
            t.append("K6:nproc=%d (no MT kernel reached on this tree)" % e["nproc"])
        if e["hist"]:
            t.append("K7:history fit-A,fit-B(other shape),fit-A'(other data),free,fit-A into B's outputs")
        t.append("K7:outputs reused (same size / larger / 1x1 / other test set in between)")
        if e["fam"].startswith("k8"):
            t.append("K8:duplicate rows")
        if e["sep"] == 0:
            t.append("overlapping classes (predictions with errors)")
        if sz[0] <= 4 and sz[-1] >= 40:
            t.append("K10:unbalanced 4 vs 40")
        if K == 5 and d == 6:
            t.append("K10:5 classes x 6 features")
    t.append("K10:1-based" if e["start"] == 1 else "K10:0-based")
    if lab[0] == max(lab):
        t.append("K10:first object in the last class")
    if all(lab[i] >= lab[i + 1] for i in range(n - 1)):
        t.append("K10:labels non-increasing")
    elif any(lab[i] > lab[i + 1] for i in range(n - 1)):
        t.append("K10:labels unsorted")
    return t


def _account(ctx, events, what):
    """ctx.case / ctx.cls for every executed case of a recording"""
    tie_blocks = set()
    cur = None
    for e in events:
        if e["e"] == "Case":
            cur = e
        elif e["e"] == "Pred" and cur is not None and e["fin"] == 1:
            if not e["sc"]:
                continue
            top = max(tuple(s) for s in e["sc"])
            if sum(1 for s in e["sc"] if tuple(s) == top) > 1:
                tie_blocks.add(id(cur))
    areuse = 0
    for e in events:
        if e["e"] == "Hist" and e.get("areuse"):
            areuse += 1
        if e["e"] != "Case" or e["sub"]:
            continue
        rc = e.get("rc", {})
        if e["mode"] == "exact":
            ident = rc == {"off": 0, "mul": 1, "den": 1}
            ctx.case(("exact", tuple(e["lab"]), e["d"], tuple(map(tuple, e["X"][:2])), rc.get("off"), rc.get("mul"), rc.get("den")), e["start"] == 1 or not e["balanced"] or not ident)
        else:
            cnt = {}
            for v in e["lab"]:
                cnt[v] = cnt.get(v, 0) + 1
            ctx.case((what, e["fam"], e["K"], e["d"], e["start"], e["balanced"], tuple(sorted(cnt.items())), e["shift"], e["unit"], e["nproc"], e["nt"]), True)
        for t in _classes(e, id(e) in tie_blocks):
            ctx.cls(t)
    if areuse:
        ctx.cls("K7:model allocated at the address of a freed one", areuse)


def _selftests(ctx, ev_exact, ev_plan):
    """binding self-tests: corrupt one recorded field -> TLC must reject (one per event kind the judgement rests on)"""
    blk = next((b for b in tlc.split_blocks(ev_exact) if any(e["e"] == "Pred" for e in b) and any(e["e"] == "Mu" for e in b)
                and b[1].get("rc") == {"off": 0, "mul": 1, "den": 1}), None)
    if blk is None:
        raise InfraError("no exact block for the binding self-tests")

    def corrupt_mu(ev):
        for e in ev:
            if e["e"] == "Mu":
                e["num"] += 1
                return True
        return False
    trace.binding_selftest(ctx, "TraceLda", "Trace_Lda_prop.cfg", blk, corrupt_mu, "binding_mu")

    def corrupt_pred(ev):
        labs = sorted(set(ev[1]["lab"]))
        for e in ev:
            if e["e"] == "Pred" and len(set(tuple(s) for s in e["sc"])) == len(e["sc"]):
                e["label"] = labs[0] if e["label"] != labs[0] else labs[1]
                return True
        return False
    trace.binding_selftest(ctx, "TraceLda", "Trace_Lda_prop.cfg", blk, corrupt_pred, "binding_pred")

    # the exact oracle: swap the stored codes of the two best rows of a decisive object together with the label - the stored
    # arg-max still agrees with the label, only TLC's exact discriminant can object
    def corrupt_oracle(ev):
        start = ev[1]["start"]
        labs = sorted(set(ev[1]["lab"]))
        sizes = {v: ev[1]["lab"].count(v) for v in labs}
        for e in ev:
            if e["e"] != "Pred" or len(set(tuple(s) for s in e["sc"])) != len(e["sc"]):
                continue
            order = sorted(range(len(e["sc"])), key=lambda k: tuple(e["sc"][k]), reverse=True)
            a, b = order[0], order[1]
            if sizes.get(a + start) != sizes.get(b + start):
                continue
            e["sc"][a], e["sc"][b] = e["sc"][b], e["sc"][a]
            e["label"], e["am"] = b + start, b
            return True
        return False
    oblk = next((b for b in tlc.split_blocks(ev_exact) if b[1].get("balanced") == 1 and b[1].get("rc") == {"off": 0, "mul": 1, "den": 1}
                 and b[1].get("d") == 2 and any(e["e"] == "Pred" for e in b)), None)
    if oblk is None:
        raise InfraError("no balanced exact block for the oracle self-test")
    trace.binding_selftest(ctx, "TraceLda", "Trace_Lda_prop.cfg", oblk, corrupt_oracle, "binding_exact_oracle")

    # one clean block per new event kind: the appended-columns finding (PFeat into a non-empty output) and crashed probes must not
    # mask the corruption, and the uncorrupted blocks must be accepted as they are
    def first_block(kind):
        for b in tlc.split_blocks(ev_plan):
            if any(e["e"] == kind for e in b) and all(e.get("kf", 0) <= KFMAX for e in b) and not any(e["e"] == "Crash" for e in b):
                return [e for e in b if not (e["e"] == "PFeat" and e.get("var"))]
        raise InfraError("no recorded block with a %s event for the binding self-test" % kind)

    def bump(kind, field, val):
        def f(ev):
            for e in ev:
                if e["e"] == kind:
                    if isinstance(e[field], list):
                        e[field][0] = val
                    else:
                        e[field] = val
                    return True
            return False
        return f
    tests = [("PairRow", "e9", 1500000000, "binding_pairrow"), ("Hist", "err", 5000, "binding_hist"), ("Reuse", "same", 0, "binding_reuse"),
             ("Auc", "err", 5000, "binding_auc"), ("Err", "acc", 123456, "binding_lderror"), ("PFeat", "cols", 1, "binding_pfeat"),
             ("FTab", "merr", 50000, "binding_ftab"), ("MnPdf", "err", 50000, "binding_mnpdf")]
    blocks = {k: first_block(k) for k, _, _, _ in tests}
    clean = []
    for k in ("PairRow", "Hist", "Err"):
        clean += blocks[k]
    ok, n, r = tlc.validate_trace("TraceLda", "Trace_Lda_prop.cfg", clean)
    if not ok:
        if ctx.violations or ctx.extras.keys() - {"LDA:pfeatures", "LDA:history:refit-into-used-model"}:
            ctx.note("binding self-tests of the round-3 event kinds skipped: the recording itself is rejected (see the findings above)")
            return
        raise InfraError("binding self-test: the uncorrupted blocks are not accepted (stopped at event %d %s)" % (n, json.dumps(clean[n])[:200] if n < len(clean) else ""))
    with ThreadPoolExecutor(4) as ex:
        list(ex.map(lambda t: trace.binding_selftest(ctx, "TraceLda", "Trace_Lda_prop.cfg", blocks[t[0]], bump(t[0], t[1], t[2]), t[3]), tests))


def run(ctx):
    ctx.assumptions += [
        "TLC enumerates label vectors only up to the stated length/class bounds; feature data of the exact cases are the integer patterns of Lda.tla (and their mirror-symmetric tie cases)",
        "the exact discriminant oracle compares classes of EQUAL size only (the logarithms of the priors cancel); recoded exact cases are judged on the integer coordinates, which the model's theorems AffineSgn / MeanEquivariant license, with a margin of one discriminant unit where offsets or the pseudo-inverse branch are involved",
        "floating-point residuals (score vs documented discriminant, score-difference deviations, class averages of real-valued data) are computed by the harness in double/long double and logged as integers in units of 1e-12 (1e-9 per class pair in offset blocks); TLC checks the bounds and the cross-event logic",
        "stored scores are logged through an order-preserving 3-limb code of the IEEE bits; TLC itself decides the arg-max set",
        "invariance bound: 1e-7 relative, relaxed to 1e-8 per unit Frobenius condition number of the covariance LDA() inverts; pairs with condition number > 1e5 are outside 'non-singular' and are dropped and counted; offset blocks add 32 u d r^2 absolute per score difference",
        "every fit/prediction runs in a child process under ASan/UBSan; a sanitizer report or signal is attributed to that case",
    ]
    q = ctx.quick
    # ---- (M) the model with the mapping the property needs, (M') the mapping of the pinned tree (the model must exhibit the defect), and the
    #      round-3 theorems; every run is dominated by single-threaded initial-state enumeration, so they run side by side
    runs = [("mc_lda", "MC_Lda_quick.cfg" if q else "MC_Lda_thorough.cfg", 2400),
            ("mc_lda_pluspos", "MC_Lda_pluspos.cfg", 900),
            ("mc_lda_pluspos_every", "MC_Lda_pluspos_every_quick.cfg" if q else "MC_Lda_pluspos_every.cfg", 900),
            ("mc_lda_affine", "MC_Lda_affine_quick.cfg" if q else "MC_Lda_affine_thorough.cfg", 2400)]
    if q:
        runs.append(("mc_lda_disc", "MC_Lda_disc_quick.cfg", 900))
    else:
        runs.append(("mc_lda_k4", "MC_Lda_k4_thorough.cfg", 2400))       # second scope: four classes, length <= 6
    with ThreadPoolExecutor(min(len(runs), max(2, WORKERS))) as ex:
        res = list(ex.map(lambda a: tlc.run("Lda", a[1], workers=1, timeout=a[2]), runs))
    R = {}
    for (label, cfg, _), r in zip(runs, res):
        ctx.add_tlc(r, label)
        R[label] = r
    r = R["mc_lda"]
    if not r.ok:
        raise InfraError("Lda.tla: invariant %s fails in the model itself:\n%s" % (r.violation, r.trace_text[:1500]))
    for label in ("mc_lda_affine", "mc_lda_disc"):
        if label in R and not R[label].ok:
            raise InfraError("Lda.tla (%s): theorem %s fails in the model itself:\n%s" % (label, R[label].violation, R[label].trace_text[:1500]))
        if label in R and R[label].distinct < 100:
            raise InfraError("Lda.tla (%s): only %d states" % (label, R[label].distinct))
    cases = sorted(r.emits, key=lambda c: (len(c["lab"]), c["lab"], json.dumps(c["X"])))      # TLC's print order depends on worker scheduling
    if not cases or r.distinct != len(cases):
        raise InfraError("Lda.tla GEN: %d states but %d emitted cases" % (r.distinct, len(cases)))
    if "mc_lda_k4" in R:
        r4 = R["mc_lda_k4"]
        if not r4.ok:
            raise InfraError("Lda.tla (four classes): invariant %s fails in the model itself:\n%s" % (r4.violation, r4.trace_text[:1500]))
        if r4.distinct != len(r4.emits):
            raise InfraError("Lda.tla GEN (four classes): %d states but %d emitted cases" % (r4.distinct, len(r4.emits)))
        k4 = sorted((c for c in r4.emits if c["K"] == 4), key=lambda c: (len(c["lab"]), c["lab"], json.dumps(c["X"])))
        if not k4:
            raise InfraError("Lda.tla GEN (four classes) emitted no four-class case")
        ctx.note("model, second scope: %d states, %d of them with four classes (replayed too)" % (r4.distinct, len(k4)))
        cases += k4
    nmirror = sum(1 for c in cases if c.get("mirror"))
    if nmirror == 0:
        raise InfraError("Lda.tla GEN emitted no mirror-symmetric (tie) case")
    ctx.note("model: %d cases = label vectors x feature patterns (%d mirror-symmetric); bookkeeping, prior, mean invariants hold for LabelMap = plus_start; "
             "discriminant theorems on %d, affine / permutation theorems on %d states" % (len(cases), nmirror, R.get("mc_lda_disc", r).distinct, R["mc_lda_affine"].distinct))
    r2, r3 = R["mc_lda_pluspos"], R["mc_lda_pluspos_every"]
    if r2.ok:
        raise InfraError("Lda.tla with LabelMap = plus_pos no longer violates PredictionIsALabel: the model lost its bite")
    ctx.steps["mc_lda_pluspos"]["violated"] = r2.violation
    if not r3.ok:
        raise InfraError("Lda.tla: %s fails: the plus_pos mapping is not wrong for every 1-based label vector / not right for every 0-based one\n%s" % (r3.violation, r3.trace_text[:1200]))
    # ---- (C) replay of every enumerated case (identity), and of a stratified part under the recoding TLC assigned
    lib = build.build_lib("san")
    exe = build.build_harness("c08", ["c08_drv.c"], lib)
    rd = tlc.rundir()
    ident = {"off": 0, "mul": 1, "den": 1}
    try:
        P = WORKERS
        lines = [(i, c, ident) for i, c in enumerate(cases)]
        stride = 5 if q else 1
        lines += [(len(cases) + i, c, c["rc"]) for i, c in enumerate(cases) if c.get("mirror") or i % stride == 0]
        by_id = {i: (c, rc) for i, c, rc in lines}
        jobs = []
        for p in range(P):
            fn = os.path.join(rd, "cases%d.txt" % p)
            with open(fn, "w") as f:
                for k, (i, c, rc) in enumerate(lines):
                    if k % P == p:
                        f.write(_exact_line(i, c, rc))
            jobs.append([os.path.join(rd, "exact%d.ndjson" % p), "exact", fn])
        ev_exact, san1 = _run_harness(exe, jobs, "exact")
        nex = sum(1 for e in ev_exact if e["e"] == "Case")
        if nex != len(lines):
            raise InfraError("replay: %d cases sent, %d reported" % (len(lines), nex))
        # ---- (C) validate: seeded separable data sets (base generator) and the stratified families
        ncase = 48 if q else 960
        per = (ncase + P - 1) // P
        jobs = [[os.path.join(rd, "ledger%d.ndjson" % p), "ledger", ctx.seed, p * per, min(per, ncase - p * per), SEP] for p in range(P) if p * per < ncase]
        ev_led, san2 = _run_harness(exe, jobs, "ledger")
        plan = _plan(ctx.seed, 1 if q else 16)
        jobs = []
        for p in range(P):
            fn = os.path.join(rd, "plan%d.txt" % p)
            open(fn, "w").write("".join(l + "\n" for k, l in enumerate(plan) if k % P == p))
            jobs.append([os.path.join(rd, "plan%d.ndjson" % p), "plan", fn])
        # no quarantine: a model allocated after a free may get the freed one's address (K7); measured, not assumed
        ev_plan, san3 = _run_harness(exe, jobs, "plan", asan_extra="quarantine_size_mb=0:thread_local_quarantine_size_kb=0")
        plan_by_id = {int(l.split()[0]): l for l in plan}
        nplan = sum(1 for e in ev_plan if e["e"] == "Case" and not e["sub"])
        if nplan != len(plan):
            raise InfraError("plan: %d cases sent, %d reported" % (len(plan), nplan))
        # ---- accounting
        _account(ctx, ev_exact, "exact")
        _account(ctx, ev_led, "ledger")
        _account(ctx, ev_plan, "plan")
        for c in cases[:1] + cases[len(cases) // 2:len(cases) // 2 + 1]:
            ctx.sample(dict(c, what="exact case emitted by TLC"))
        for e in ev_led + ev_plan:
            if e["e"] == "Pair":
                ctx.sample(dict(e, what="ledger invariance pair"), 5)
        ctx.cov["rule"] = ("exact: every label vector of length <= %d over <= 3 classes (both numberings, every class occupied) x integer feature pattern with non-singular total "
                           "and within-class covariance, plus mirror-symmetric tie cases, enumerated by TLC and replayed as they are and (every %s case) under the recoding TLC "
                           "assigned; non-trivial = 1-based or unbalanced or recoded.  ledger / plan: seeded data sets keyed by (family, classes, features, numbering, balanced, "
                           "class sizes, offset, unit, nproc, test-set size); all non-trivial" % (6 if q else 7, "5th" if q else ""))
        ctx.cov["exhaustive"] = False
        ctx.steps["ledger_cases"] = sum(1 for e in ev_led if e["e"] == "Case" and not e["sub"])
        ctx.steps["plan_cases"] = nplan
        ctx.steps["exact_cases"] = nex
        allev = ev_exact + ev_led + ev_plan
        crashes = [e for e in allev if e["e"] == "Crash"]
        ctx.steps["child_crashes"] = len(crashes)
        ctx.steps["score_tie_objects"] = sum(1 for e in ev_exact if e["e"] == "Pred" and e["fin"] == 1 and len(e["sc"]) >= 2 and sorted(map(tuple, e["sc"]))[-1] == sorted(map(tuple, e["sc"]))[-2])
        ctx.steps["pinv_branch_models"] = sum(1 for e in allev if e["e"] == "Disc" and e.get("pinv"))
        # (V) which mapping does the code implement?
        cm_all = _ctxmap(allev)
        pluspos = any(e["e"] == "Crash" and e.get("stage") == "predict" and e.get("start") == 1 for e in crashes) or \
            any(e["e"] == "Pred" and cm_all[id(e)][0] == 1 and e["label"] == e["am"] - 1 for e in allev)
        ctx.steps["implemented_label_map"] = "plus_pos" if pluspos else "plus_start"
        ctx.note("conformance: %d exact (%d recoded) + %d ledger + %d plan cases, %d child crashes; implemented label map: %s" % (
            nex, nex - len(cases), ctx.steps["ledger_cases"], nplan, len(crashes), ctx.steps["implemented_label_map"]))

        def replay_exact(case, e):
            c, rc = by_id[case["id"]]
            return dict(kind="exact", lab=c["lab"], X=c["X"], T=c.get("T", []), rc=rc, event=e)

        def replay_ledger(case, e):
            return dict(kind="ledger", seed=ctx.seed, idx=case["id"], sep=SEP, event=e)

        def replay_plan(case, e):
            return dict(kind="plan", line=plan_by_id[case["id"]], event=e)
        # the recordings are validated side by side (each TLC run is single-threaded; blocks are independent)
        with ThreadPoolExecutor(3) as ex:
            futs = [ex.submit(_validate, ctx, ev_exact, san1, "trace_exact", replay_exact, 2 if q else 4),
                    ex.submit(_validate, ctx, ev_led, san2, "trace_ledger", replay_ledger, 1 if q else 2),
                    ex.submit(_validate, ctx, ev_plan, san3, "trace_plan", replay_plan, 1 if q else 2)]
            for f in futs:
                f.result()
        # vacuity: the parts of the property that need events must have produced them, every new harness path really emitted
        # (when the library already failed the property, missing events are a consequence of children that died, not an infrastructure problem)
        if ctx.violations:
            ctx.note("vacuity checks and binding self-tests skipped: violations were recorded, children may have died before emitting")
            return
        kinds = set(e["e"] for e in allev)
        need = {"Labels", "Prior", "PriorSum", "Mu", "MuL", "Pred", "Disc", "EndPred", "Reuse", "Pair", "PairRow", "Auc", "AucEnd", "Hist", "PFeat", "Err", "ErrEnd", "FTab", "MnPdf"}
        if not need <= kinds:
            raise InfraError("harness stopped emitting %s" % sorted(need - kinds))
        if not any(e["e"] == "Refit" or (e["e"] == "Crash" and e.get("stage") == "refit") for e in ev_plan):
            raise InfraError("the refit-into-used-model probe produced neither a Refit event nor a crash")
        if not any(e["e"] == "Auc" and e.get("src") == "pred" for e in allev):
            raise InfraError("no ROC summary was computed from real predictions")
        if set(e["var"] for e in allev if e["e"] == "Reuse") != {0, 1, 2, 3}:
            raise InfraError("not every reuse variant was exercised")
        if ctx.steps["score_tie_objects"] == 0:
            raise InfraError("the mirror-symmetric cases produced no exact score tie in the library's stored scores")
        for t in ("K1:nk=d+1", "K1:single test object", "K2:nk=32", "K2:n=64", "K3:offset>=1e6 spreads", "K4:unit=2^20", "K4:unit=2^-20", "K5:grid", "K8:duplicate rows",
                  "K10:labels non-increasing", "K10:unbalanced 4 vs 40", "K10:5 classes x 6 features", "K10:first object in the last class"):
            if not ctx.classes.get(t):
                raise InfraError("input class %s was not emitted" % t)
        _selftests(ctx, ev_exact, ev_plan)
    finally:
        shutil.rmtree(rd, ignore_errors=True)


def replay(ctx, body):
    case = body.get("case") or {}
    lib = build.build_lib("san")
    exe = build.build_harness("c08", ["c08_drv.c"], lib)
    rd = tlc.rundir()
    try:
        asan = ""
        if case.get("kind") == "exact":
            fn = os.path.join(rd, "case.txt")
            open(fn, "w").write(_exact_line(0, case, case.get("rc") or {"off": 0, "mul": 1, "den": 1}))
            jobs = [[os.path.join(rd, "r.ndjson"), "exact", fn]]
        elif case.get("kind") == "ledger":
            jobs = [[os.path.join(rd, "r.ndjson"), "ledger", case["seed"], case["idx"], 1, case.get("sep", SEP)]]
        elif case.get("kind") == "plan":
            fn = os.path.join(rd, "plan.txt")
            open(fn, "w").write(case["line"] + "\n")
            jobs = [[os.path.join(rd, "r.ndjson"), "plan", fn]]
            asan = "quarantine_size_mb=0:thread_local_quarantine_size_kb=0"
        else:
            return run(ctx)
        ev, san = _run_harness(exe, jobs, "replay", asan_extra=asan)
        for e in ev:
            if e["e"] == "Case":
                ctx.case(("replay", e["id"], e["sub"]))
                ctx.case(("replay-n", len(e["lab"]), e["sub"]))
                ctx.sample(e)
        ctx.cov["rule"] = "replay of one recorded case"
        _validate(ctx, ev, san, "replay", lambda c, e: case)
    finally:
        shutil.rmtree(rd, ignore_errors=True)
