"""C18 - model fitting terminates with finite leading components on degenerate data.

(M)  Nipals.tla: control skeleton of the while(1) NIPALS loops of PCA / PLS(LVCalc) / CPCA over the value classes {Zero, Fin, NaN}
     (class transfer transcribed from the C code) and of the counter-bounded loops (k-means, Nelder-Mead, leave-one-out).  Liveness
     `Terminates` under FairSpec and invariant `BeyondRankZero` hold for Guarded = TRUE; for Guarded = FALSE (the pinned tree) TLC returns
     the lasso Start(Zero) -> IterNull* for each of the three sites, and the NaN block variance of CPCA on a constant block.
     NipalsMT.tla (kernel layer): the transfer function assumes that matrix*vector products drop non-finite terms; that is a property of TWO
     kernels (serial / multi-thread worker) and the processor count decides which one a fit reaches.  With both filters the result is
     independent of nproc in {1,2,3,16} ({1,2,3,5,16,24} thorough); with the worker's filter removed the model still holds at nproc = 1 and
     TLC refutes BeyondRankZero at nproc = 2 (CPCA, constant block: 0/0 block loading -> NaN block score -> null component within the rank).
     Second layer there: a PLS latent variable beyond the rank, built on rounding residue, may alternate between t and -t (no pass contracts);
     without a ceiling on the passes (Capped = FALSE) TLC returns the lasso through MCycle, with it Terminates holds.  The residue iteration
     can also run through a 2-cycle whose convergence value alternates between two numbers (IterCycle2): a ceiling that counts only the passes
     without progress (CapRule = "stall") is refilled by every second pass - TLC returns the lasso through MCycle2; CapRule = "passes" holds.
(GEN) NipalsGen.tla: every matrix <= 3x3 over {-1,0,1} (quick: all <= 4 cells + a deterministic sample), dyadic perturbations, every
     two-valued / constant response, each with its exact rank (ExactRank.tla, rational Gauss elimination) computed by TLC; larger shapes
     (tall / wide / rows around 4, 8, 16, 32, 64 +- 1) as low-rank integer products with duplicated or pairwise distinct rows, exact rank through
     the row differences; flags for duplicate rows / columns / constant columns decided by TLC on the exact data; kind "multi": rank-deficient
     X = A B over {-1,0,1} (4x3, 5x3, 6x4) with a pseudo-random integer response block of 2..3 columns driven by the check's seed, fitted with more
     latent variables than columns: 3.5 - 4 % of these fits end at the pass ceiling of LVCalc with an alternating convergence value.  After the
     verdicts TLC certifies from the logged convergence values (cq / cqp of the Iter lines, action TCertify) that this class was reached on the tree
     under test whenever a fit ends at the ceiling at all (since the relative null-LV guard of afff38a no residue iteration starts, the class is
     then recorded as unreachable on the tree; fits at the ceiling without an alternating value would end the run as an infrastructure failure).
(VAR) per stratum (site, kind, shape, degeneracy flags) the same input is run again as: forced processor count 2 / 3 / 16 (5 / 24) through hook H2
     (PCA, PLS, CPCA; `nthreads` of KMeans and LeaveOneOut), whole input times 2^+-20, columns on offsets 2^20..2^30 (2^36), cells / responses divided
     by 3, 10, 1000 (non-representable constants), after two other fits of the same routine in the same process, response block [y, constant].
     Class tags K1..K8 of INPUT-CLASSES.md are counted per executed case (coverage.classes).
(C)  c18_drv runs each case in a child process with hooks H2 / H4 / H6 and an iteration budget; TLC validates the recorded Start/Iter/Null/Warm/Done/
     Returned events against TraceNipals.tla (Guarded model, both kernels filtering).  Diverge / Hang match no action -> violation with the input as
     replay.  The verdict on every returned component (pos / zero / nan) is taken by TLC from the logged explained variance with thresholds that are
     functions of the logged offset, scale and row count; k-means iterations (H6) and Nelder-Mead evaluations are checked against caps defined in the spec.
(V)  the variant the code implements (guarded or not) is read off the recorded iteration classes and reported next to the model verdicts.
(X)  outside the statement (EXTRA-FINDING, never a verdict): PCAScorePredictor / PLSScorePredictor / CPCAScorePredictor applied to the training data
     of the first fitted model of every (site, kind, variant): shape, finiteness in every component, agreement with the model's own scores over the
     defined components (action TPred of TraceNipals.tla, validated in a trace of its own); a response block constant at a non-representable value.
"""
import json, os, shutil
from concurrent.futures import ThreadPoolExecutor
from vf import build, tlc, trace, tlclive
from vf import run as hrun
from vf.core import InfraError
from checks.deferred import Deferred

LEVEL = "model_checking"
READY = True
TECHNIQUE = ("TLC liveness model checking of Nipals.tla (termination of the NIPALS while(1) loops over an abstract numeric domain, guarded vs "
             "unguarded variant) and of its kernel layer NipalsMT.tla (which matrix*vector kernel a fit reaches under a forced processor count, with / without "
             "the non-finite-product filter) + TLC-enumerated degenerate inputs with exact rank (NipalsGen/ExactRank: all small matrices, low-rank integer "
             "products of larger shapes) run through the real PCA/PLS/CPCA/MLR-LOO/k-means/Nelder-Mead under hooks H2 (processor counts 1, 2, 3, 16), H4 "
             "(iteration budget, logged convergence values) and H6 (k-means iterations), each also as scaled / offset / non-representable / in-process-history variant + TLC trace validation "
             "of the recorded iteration events and returned models against the guarded, filtered model (TraceNipals.tla; classification of every component and "
             "all tolerances evaluated by TLC as functions of the logged offset, scale and size)")
LEVEL_TEXT = ("Termination, zero-variance-beyond-rank and independence of the processor count are model-checked (liveness under weak fairness) for every rank "
              "0..3(4), component request 1..5(6), processor count {1,2,3,16}({1,2,3,5,16,24}) and every site; the real library is then driven through every "
              "TLC-enumerated degenerate input of the tier (all matrices up to 3x3 over {-1,0,1} in the thorough tier, 20 (38) larger shapes up to 33x2 (65x4, 8x8)) "
              "and through a stratified set of variants of them (input classes K1-K8: processor counts, magnitude 2^+-20, location 2^20..2^30(36), non-representable "
              "constants, in-process histories, duplicate rows / columns, constant columns / blocks / response columns, seeded multi-response fits that end at the "
              "pass ceiling with an alternating convergence value - certified by TLC per run); every recorded execution is accepted or rejected by TLC against the guarded model.")
LEVEL_NOTE = ("Trusts TLC, the placement of hooks H2/H4/H6, the harness's double-precision ledger residuals and its non-finite flags; exhaustive only within the stated "
              "small scopes; the iteration budget decides non-termination (1e5 passes quick, 1e6 thorough, three orders above what a converging fit on such data needs). "
              "nproc > 1 runs use the plain (non-sanitizer) build. Input classes left out on purpose: K9 (missing-value code) and K10 (label alphabets) - the statement "
              "speaks of finite inputs and has no labels; per-column unit systems (K4) - the fits are equivariant under a common scale only; a matrix or block that is constant AS A WHOLE at a non-representable value (rank 0 with cells 0.1) is not "
              "generated, and a response block constant as a whole at such a value is run but reported as EXTRA-FINDING only: the exact cancellation the quantifier asks "
              "for is gone and explained variance would be judged against the input's own rounding residue; magnitude / location / non-representable variants run on "
              "centred data only (scaling 0): autoscaling has absolute zero-scale thresholds that belong to C10; fits into an already used model object are not "
              "driven (PCA/PLS/CPCA append to their outputs by design: K7 is covered as other fits first in the same process).")

PAR = int(os.environ.get("VERIF_PAR") or os.environ.get("VERIF_WORKERS") or "12")
UNGUARDED = ["PCA", "PLS", "CPCA"]


# ---------------------------------------------------------------- (M)
def model_check(ctx):
    q = ctx.quick
    jobs = [("Nipals", "MC_Nipals_quick.cfg" if q else "MC_Nipals_thorough.cfg", "mc_nipals_guarded", 4)]
    jobs += [("Nipals", "MC_Nipals_unguarded_%s.cfg" % s, "mc_nipals_unguarded_%s" % s, 2) for s in UNGUARDED]
    jobs += [("Nipals", "MC_Nipals_unguarded_var.cfg", "mc_nipals_unguarded_var", 2), ("Nipals", "MC_Nipals_unguarded_counters.cfg", "mc_nipals_counters", 2),
             ("NipalsMT", "MC_NipalsMT_quick.cfg" if q else "MC_NipalsMT_thorough.cfg", "mc_nipalsmt_filtered", 2),
             ("NipalsMT", "MC_NipalsMT_blind.cfg", "mc_nipalsmt_blind_nproc1", 2), ("NipalsMT", "MC_NipalsMT_nofilter.cfg", "mc_nipalsmt_nofilter", 2),
             ("NipalsMT", "MC_NipalsMT_nocap.cfg", "mc_nipalsmt_nocap", 2), ("NipalsMT", "MC_NipalsMT_stall.cfg", "mc_nipalsmt_stall", 2)]
    with ThreadPoolExecutor(max(1, min(3, PAR // 2))) as ex:
        res = list(ex.map(lambda j: tlclive.run_live(j[0], j[1], workers=j[3], timeout=900), jobs))
    R = {}
    for j, r in zip(jobs, res):
        ctx.add_tlc(r, j[2])
        R[j[2]] = r
    r = R["mc_nipals_guarded"]
    if not r.ok:
        raise InfraError("Nipals.tla (Guarded = TRUE): %s fails in the model itself:\n%s" % (r.violation, r.trace_text[:1500]))
    z = r.zero_actions(ignore=("IterNull",))          # IterNull is the unguarded pass: disabled by construction when Guarded
    if z:
        raise InfraError("Nipals.tla: actions never taken (vacuous model check): %s" % z)
    ctx.note("model (Guarded): Terminates, CounterVariant, BeyondRankZero hold; %d distinct states" % r.distinct)
    lassos = {}
    for s in UNGUARDED:
        r = R["mc_nipals_unguarded_%s" % s]
        if r.ok or not str(r.violation).startswith("temporal"):
            raise InfraError("Nipals.tla (Guarded = FALSE, %s): expected the non-termination lasso, got %s" % (s, r.violation))
        path = ["%s%s" % (a, "(%s)" % arg if arg else "") for a, arg, _ in r.lasso]
        lassos[s] = dict(path=path, back_to=r.back_to, distinct=r.distinct, wall_s=round(r.wall, 2))
        ctx.note("model (unguarded %s): Terminates violated, lasso %s, back to state %s" % (s, " -> ".join(path), r.back_to))
    r = R["mc_nipals_unguarded_var"]
    if r.violation != "BeyondRankZero":
        raise InfraError("Nipals.tla (Guarded = FALSE, CPCA constant block): expected BeyondRankZero to fail, got %s" % r.violation)
    r = R["mc_nipals_counters"]
    if not r.ok:
        raise InfraError("Nipals.tla counter loops: %s" % r.violation)
    # kernel layer (NipalsMT.tla): with both non-finite-product filters the result does not depend on the processor count; without the
    # filter of the multi-thread worker the model still holds at nproc = 1 (the blind spot of a one-processor check) and fails at nproc > 1
    r = R["mc_nipalsmt_filtered"]
    if not r.ok:
        raise InfraError("NipalsMT.tla (both filters): %s fails in the model itself:\n%s" % (r.violation, r.trace_text[:1500]))
    if r.coverage.get("MRegular", (0, 0))[0] == 0 or r.coverage.get("MPoison", (1, 1))[0] != 0 or \
            r.coverage.get("MCycle", (0, 0))[1] == 0 or r.coverage.get("MCycle2", (0, 0))[1] == 0 or r.coverage.get("MCapExit", (0, 0))[1] == 0:     # [1]: times taken (their successors are states other actions reach too)
        raise InfraError("NipalsMT.tla (both filters, ceiling): unexpected action coverage %s" % r.coverage)
    r = R["mc_nipalsmt_blind_nproc1"]
    if not r.ok:
        raise InfraError("NipalsMT.tla (FilterMT = FALSE, nproc = 1): expected to hold (the serial kernel is the one reached), got %s" % r.violation)
    r = R["mc_nipalsmt_nofilter"]
    if r.violation != "BeyondRankZero" or "nproc = 2" not in r.trace_text or 'tcls = "NaN"' not in r.trace_text:
        raise InfraError("NipalsMT.tla (FilterMT = FALSE, nproc in {1, 2}): expected BeyondRankZero to fail through IterPoison at nproc = 2, got %s" % r.violation)
    if r.coverage and r.coverage.get("MPoison", (0, 0))[0] == 0:
        raise InfraError("NipalsMT.tla: IterPoison never taken in the refutation run (vacuous)")
    ctx.note("model (kernel layer): result independent of nproc in %s with both filters (%d states); FilterMT = FALSE holds at nproc = 1, "
             "refuted at nproc = 2 (CPCA, constant block: a component within the rank is stored as a null component)"
             % ("{1,2,3,16}" if q else "{1,2,3,5,16,24}", R["mc_nipalsmt_filtered"].distinct))
    # pass-ceiling layer: without a ceiling on the passes of one PLS latent variable a fair behaviour cycles for ever beyond the rank
    r = R["mc_nipalsmt_nocap"]
    if r.ok or not str(r.violation).startswith("temporal") or not any(a in ("MCycle", "MCycle2") for a, _, _ in r.lasso):
        raise InfraError("NipalsMT.tla (Capped = FALSE): expected the non-termination lasso through MCycle, got %s / %s" % (r.violation, [a for a, _, _ in r.lasso]))
    path = ["%s%s" % (a, "(%s)" % arg if arg else "") for a, arg, _ in r.lasso]
    lassos["PLS-no-pass-ceiling"] = dict(path=path, back_to=r.back_to, distinct=r.distinct, wall_s=round(r.wall, 2))
    ctx.note("model (pass-ceiling layer, Capped = FALSE): Terminates violated by PLS beyond the rank, lasso %s, back to state %s; with the ceiling it holds"
             % (" -> ".join(path), r.back_to))
    # ... and a ceiling that counts only the passes without progress (CapRule = "stall") never fires on the 2-cycle with alternating values
    r = R["mc_nipalsmt_stall"]
    if r.ok or not str(r.violation).startswith("temporal") or not any(a == "MCycle2" for a, _, _ in r.lasso):
        raise InfraError("NipalsMT.tla (CapRule = stall): expected the non-termination lasso through MCycle2, got %s / %s" % (r.violation, [a for a, _, _ in r.lasso]))
    path = ["%s%s" % (a, "(%s)" % arg if arg else "") for a, arg, _ in r.lasso]
    lassos["PLS-stall-ceiling"] = dict(path=path, back_to=r.back_to, distinct=r.distinct, wall_s=round(r.wall, 2))
    ctx.note("model (pass-ceiling layer, CapRule = stall): Terminates violated by the alternating 2-cycle, lasso %s, back to state %s; with CapRule = passes it holds"
             % (" -> ".join(path), r.back_to))
    ctx.steps["lassos"] = lassos


# ---------------------------------------------------------------- (GEN)
def generate(ctx):
    cfg = "MC_NipalsGen_quick.cfg" if ctx.quick else "MC_NipalsGen_thorough.cfg"
    # the pseudo-random tables of kind "multi" are driven by the check's seed: same constants as the static cfg, Seed replaced
    rd = tlc.rundir()
    try:
        text = open(os.path.join(tlc.SPEC, cfg)).read()
        if "  Seed = 1\n" not in text:
            raise InfraError("%s has no `Seed = 1` line to replace" % cfg)
        rcfg = os.path.join(rd, "gen_seeded.cfg")
        with open(rcfg, "w") as f:
            f.write(text.replace("  Seed = 1\n", "  Seed = %d\n" % (ctx.seed % 9973)))
        r = tlc.run("NipalsGen", rcfg, workers=min(8, PAR), timeout=1500, coverage=False, xmx="8g")
    finally:
        shutil.rmtree(rd, ignore_errors=True)
    ctx.add_tlc(r, "gen_nipals")
    if not r.ok:
        raise InfraError("NipalsGen: %s\n%s" % (r.violation, r.trace_text[:1500]))
    seen, recs = set(), []
    for e in r.emits:
        k = json.dumps(e, sort_keys=True)
        if k not in seen:
            seen.add(k)
            recs.append(e)
    if not recs:
        raise InfraError("NipalsGen emitted no case")
    recs.sort(key=lambda e: (e["kind"], e["nr"], e["nc"], e["cells"], e["y"]))
    ctx.note("GEN: %d degenerate inputs with exact rank from TLC (%d states)" % (len(recs), r.distinct))
    return recs


def _flat(m):
    return [v for row in m for v in row]


DEFAULTS = dict(nproc=1, den=1, sc=0, offl=0, yex=0, yden=1, yoffl=0, hist=0, pred=0)
_LAST = {}            # accepted predictor blocks of the last run_cases() (for the binding self-test)
NIPALS = ("PCA", "PLS", "CPCA")


def _base_cases(ctx, recs):
    """cross the TLC-enumerated inputs with component requests / block splits; returns list of case dicts (one processor, plain values)"""
    q = ctx.quick
    cases = []
    cov = {}
    for e in recs:
        if e["kind"] == "resp":
            cov[(json.dumps(e["cells"]), tuple(e["y"]))] = (e["cov"], e["ycst"])

    def add(site, kind, e, req, npc, rank, rlo, noise, cblk=0, scaling=0, ys=None, widths=(), cells=None, ycc=0):
        ys = ys or []
        cells = cells or e["cells"]
        c = dict(id=0, site=site, kind=kind, scaling=scaling, npc_req=req, npc=npc, rank=rank, rlo=rlo, noise=noise, cblk=cblk,
                 ex=e["ex"], nr=e["nr"], nc=len(cells[0]), x=_flat(cells), ny=(len(ys) // e["nr"]) if ys else 0, y=ys, widths=list(widths),
                 src=e["kind"], xrank=e["rankc"], ccany=int(any(e["cc"])), dr=e.get("dr", 0), dc=e.get("dc", 0), ycc=ycc)
        c.update(DEFAULTS)
        cases.append(c)

    def pkind(rk, npc, cb=0):
        return "zero" if rk == 0 else ("const-block" if cb else ("beyond-rank" if npc > rk else "within-rank"))

    def lkind(e, kr, npc):
        if e["ycst"]:
            return "const-response"
        if kr == 0:
            return "no-covariance"
        return "nlv-beyond-rank" if npc > kr else "nlv-within-rank"

    for idx, e in enumerate(recs):
        nr, nc, rk = e["nr"], e["nc"], e["rankc"]
        noise = 0 if rk == 0 else 1
        if e["kind"] in ("mat", "pert"):
            reqs = list(range(1, nc + 3))
            if e["kind"] == "pert":
                reqs = [nc + 2] if (q or idx % 2 == 0) else []
            else:
                reqs = [r_ for r_ in reqs if r_ != nc + 1]          # nc + 1 and nc + 2 are clamped to the same fit
            for req in reqs:
                npc = min(req, nc)
                add("PCA", pkind(rk, npc), e, req, npc, rk, rk, noise)
            if e["kind"] == "mat" and (not q or idx % 3 == 0):
                npc = nc
                add("PCA", pkind(rk, npc), e, nc + 2, npc, rk, rk, noise, scaling=1)
        if e["kind"] == "mat" and nc >= 2:
            splits = [(1, nc - 1)]
            if nc == 3:
                splits += [(2, 1), (1, 1, 1)]
            for w in splits:
                minw = min(w)
                c0, cb = 0, 0
                for wi in w:
                    if all(e["cc"][c0 + j] == 1 for j in range(wi)):
                        cb = 1
                    c0 += wi
                for req in [minw + 2]:
                    npc = min(req, minw)
                    add("CPCA", pkind(rk, npc, cb), e, req, npc, rk, rk, noise, cblk=cb, widths=w)
        if e["kind"] == "mat" and nc >= 2 and (not q or idx % 2 == 1):
            # two blocks of nc columns each, so that more components than the rank can be requested: the matrix twice (same exact rank),
            # and the matrix next to a constant block (zero after centring: same exact rank, block variance 0)
            allconst = all(c == 1 for c in e["cc"])
            for cells, cb in (([r_ + r_ for r_ in e["cells"]], 1 if allconst else 0), ([r_ + [1] * nc for r_ in e["cells"]], 1)):
                for req in [nc + 2]:
                    npc = min(req, nc)
                    add("CPCA", pkind(rk, npc, cb), e, req, npc, rk, rk, noise, cblk=cb, widths=(nc, nc), cells=cells)
        if e["kind"] == "resp":
            for req in ([1, nc + 2] if idx % 2 == 0 else [nc]):
                npc = min(req, nc)
                kr = e["krank"]                         # exact number of latent variables (Krylov dimension) from TLC
                add("PLS", lkind(e, kr, npc), e, req, npc, kr, kr, noise, ys=list(e["y"]))
            # two responses: y and its reverse (collinear / constant pairs included)
            y2 = list(reversed(e["y"]))
            c2 = cov.get((json.dumps(e["cells"]), tuple(y2)))
            if c2 is None:      # thorough tier enumerates responses up to complement (same centred direction, same flags)
                c2 = cov.get((json.dumps(e["cells"]), tuple(1 - v for v in y2)))
            if c2 is not None and idx % 2 == 0:
                ycst = e["ycst"] and c2[1]
                npc = nc
                # two responses: only a lower bound on the number of latent variables is known (block Krylov dimension is not computed).
                # LVCalc starts from ONE response column: if that column has no covariance with X the first weight vector is null
                # although the other column may have some - then not even the first latent variable is claimed.
                if ycst:
                    kind, rlo, rhi = "const-response", 0, 0
                elif not (e["cov"] and c2[0]):
                    kind, rlo, rhi = "no-covariance", 0, 0
                else:
                    kind, rlo, rhi = ("nlv-beyond-rank" if npc > 1 else "nlv-within-rank"), 1, 1
                ys = []
                for i in range(nr):
                    ys += [e["y"][i], y2[i]]
                add("PLS", kind, e, nc + 2, npc, rhi, rlo, noise, ys=ys)
            if idx % 4 == 2:
                # K8: a response block with a CONSTANT column next to y (zero after centring: the latent variables are those of y alone; TLC
                # searches the count between min(1, krank) and krank)
                kr, npc = e["krank"], nc
                ys = []
                for i in range(nr):
                    ys += [e["y"][i], 1]
                add("PLS", lkind(e, kr, npc), e, nc + 2, npc, kr, min(1, kr), noise, ys=ys, ycc=1)
            if idx % 4 == 0:
                add("MLRLOO", "rank-deficient" if e["rank0"] < nc or rk < nc else "regular", e, 1, 1, rk, rk, noise, ys=list(e["y"]))
            if nc >= 2 and idx % 4 == 1:
                add("NM", "rank-deficient" if e["rank0"] < nc else "regular", e, 60, 60, rk, rk, noise, ys=list(e["y"]))
        if e["kind"] == "mat" and nr >= 2 and (not q or idx % 2 == 0):
            distinct = len(set(tuple(r_) for r_ in e["cells"]))
            for k in range(2, nr + 1):
                add("KMEANS", "duplicate-rows" if distinct < k else "regular", e, k, k, rk, rk, noise)
        # ---- larger shapes (classes K1 / K2): tall, wide, row counts around slice and block boundaries
        if e["kind"] == "prod":
            for req in sorted(set([1, max(rk, 1), nc + 2])):
                npc = min(req, nc)
                add("PCA", pkind(rk, npc), e, req, npc, rk, rk, noise)
            if idx % 3 == 0:
                add("PCA", pkind(rk, nc), e, nc + 2, nc, rk, rk, noise, scaling=1)
            if nc >= 2:
                for w in sorted(set([(1, nc - 1), (nc // 2, nc - nc // 2)])):
                    c0, cb = 0, 0
                    for wi in w:
                        if all(e["cc"][c0 + j] == 1 for j in range(wi)):
                            cb = 1
                        c0 += wi
                    npc = min(w)
                    add("CPCA", pkind(rk, npc, cb), e, npc + 2, npc, rk, rk, noise, cblk=cb, widths=w)
                if idx % 2 == 0 and nr * (nc + 2) <= 1024:
                    add("CPCA", pkind(rk, 2, 1), e, 4, 2, rk, rk, noise, cblk=1, widths=(nc, 2), cells=[r_ + [1, 1] for r_ in e["cells"]])
            if nr >= 3 and idx % 2 == 1:
                distinct = len(set(tuple(r_) for r_ in e["cells"]))
                for k in (2, 3):
                    add("KMEANS", "duplicate-rows" if distinct < k else "regular", e, k, k, rk, rk, noise)
        if e["kind"] == "multi":
            # rank-deficient X with a pseudo-random integer response block and more latent variables than the rank: the surplus ones are built on
            # rounding residue; some of these fits end at the pass ceiling of LVCalc (the class that tells "passes" from "passes without progress").
            # Only the first latent variable is claimed, and only when every response column has covariance with X (as for two responses above).
            ys = [v for row in e["y"] for v in row]
            first = 1 if (rk > 0 and all(e["ycov"])) else 0
            req = nc + 1 + idx % 2
            add("PLS", "multi-response" if first else "multi-no-covariance", e, req, nc, first, first, noise, ys=ys)
        if e["kind"] == "prodresp":
            kr = e["krank"]
            for req in (1, nc + 2):
                npc = min(req, nc)
                add("PLS", lkind(e, kr, npc), e, req, npc, kr, kr, noise, ys=list(e["y"]))
            ys = []
            for i in range(nr):
                ys += [e["y"][i], 1]
            add("PLS", lkind(e, kr, nc), e, nc + 2, nc, kr, min(1, kr), noise, ys=ys, ycc=1)
            if idx % 2 == 0:
                add("MLRLOO", "rank-deficient" if e["rank0"] < nc or rk < nc else "regular", e, 1, 1, rk, rk, noise, ys=list(e["y"]))
    return cases


# ---- cross-cutting input classes (INPUT-CLASSES.md K3..K7) applied to a stratified subset of the base cases.
# quick: one case per (stratum, variant), the costly variants rotating over the strata; thorough: two (one for processor counts), every variant in
# every stratum, more processor counts, offset 2^36
def _variant_list(q, si, site):
    """variants applied to stratum number si (quick tier: the costly or closely related ones rotate over the strata)"""
    if not q:
        V = [dict(nproc=n) for n in ((2, 3, 5, 16, 24) if si % 2 == 0 else (2, 3, 16))]
        V += [dict(sc=20), dict(sc=-20), dict(offl=20), dict(offl=26), dict(offl=30), dict(den=3), dict(den=10), dict(den=1000), dict(hist=1),
              dict(yex=20), dict(yex=-20), dict(yoffl=26), dict(yoffl=30), dict(yden=10), dict(sc=-20, offl=26)]
        if si % 2 == 0:
            V += [dict(offl=36), dict(nproc=2, offl=26), dict(nproc=3, den=10), dict(nproc=2, hist=1)]
        else:
            V += [dict(nproc=16, sc=20), dict(nproc=5, offl=30), dict(nproc=24, hist=1)]
        return V
    mt = site != "PLS"                 # LVCalc / PLS reach no multi-thread kernel: fewer processor-count cases there
    V = []
    if si % (2 if mt else 4) == 0:
        V.append(dict(nproc=2))
    if si % (4 if mt else 8) == 1:
        V.append(dict(nproc=3))
    if si % (8 if mt else 16) == 3:
        V.append(dict(nproc=16))
    V += [dict(sc=20), dict(sc=-20), dict(offl=(20, 26, 30)[si % 3]), dict(den=(3, 10, 1000)[si % 3]), dict(hist=1),
          (dict(yex=20), dict(yex=-20), dict(yoffl=26), dict(yden=10))[si % 4]]
    if site == "PLS":                  # few strata: every response variant in each of them
        V += [v for v in (dict(yex=20), dict(yex=-20), dict(yoffl=26), dict(yden=10)) if v not in V]
    V.append((dict(nproc=2, offl=26), dict(nproc=3, den=10), dict(nproc=2, hist=1), dict(nproc=16, sc=20))[(si // 4) % 4] if si % 4 == 2 else None)
    return [v for v in V if v]


def _applicable(c, v):
    site = c["site"]
    if site == "NM":
        return False
    if site in ("KMEANS", "MLRLOO"):
        # termination only: processor counts (the `nthreads` argument), magnitude and location of the data
        if any(k in v for k in ("den", "hist", "yex", "yoffl", "yden")):
            return False
        if site == "MLRLOO" and ("sc" in v or "offl" in v):
            return False
        return c["src"] != "pert" or set(v) == {"nproc"}
    plain = c["src"] in ("mat", "resp", "prod", "prodresp")          # ex = 0: plain integers
    if any(k in v for k in ("sc", "offl", "den", "yex", "yoffl", "yden")) and (not plain or c["scaling"] != 0):
        return False                  # autoscaling has absolute zero-scale thresholds of its own (property C10): magnitude / location classes run on centred data
    if any(k in v for k in ("yex", "yoffl", "yden")) and site != "PLS":
        return False
    if v.get("offl", 0) > 30 and c["nr"] > 4:
        return False                  # the variance a centring residue can show grows like n^3 4^offl: beyond 2^30 only few objects keep the "zero" threshold far below any real component
    if "den" in v:
        # a non-representable constant loses the EXACT cancellation the quantifier asks for: admitted only next to informative data (explained
        # variance is relative to the total sum of squares); a matrix / block that is constant as a whole would be judged against its own rounding noise
        if c["xrank"] < 1 or c["cblk"]:
            return False
    return True


def _variants(ctx, base):
    q = ctx.quick
    per = 1 if q else 2
    strata = {}
    for c in base:
        grp = "prod" if c["src"].startswith("prod") else ("pert" if c["src"] == "pert" else "small")
        if c["site"] == "PLS":       # LVCalc works on serial kernels only: strata by kind and shape, not by the degeneracy flags of X
            key = (c["site"], c["kind"], c["scaling"], c["nr"], c["nc"], c["ny"], grp, c["ycc"])
        else:
            key = (c["site"], c["kind"], c["scaling"], c["nr"], c["nc"], tuple(c["widths"]), c["ccany"], c["dr"], c["dc"], grp)
        strata.setdefault(key, []).append(c)
    out = []
    for si, key in enumerate(sorted(strata, key=str)):
        members = strata[key]
        for vi, v in enumerate(_variant_list(q, si, key[0])):
            ok = [c for c in members if _applicable(c, v)]
            if not ok:
                continue
            take = 1 if "nproc" in v else per                               # nproc threads per kernel call: one case per stratum
            if key[0] == "PLS" and key[1] == "const-response" and "yden" in v:
                take = min(len(ok), 12 if q else 60)        # outside the quantifier (EXTRA-FINDING only): all of the few members, so that the report is stable
            for k in range(min(take, len(ok))):
                c = dict(ok[(vi * 7 + k * (3 if take <= 2 else 1)) % len(ok)])
                c.update(v)
                c["ex"] = c["ex"] + c["sc"]
                out.append(c)
    return out


def class_tags(c):
    """input classes of INPUT-CLASSES.md this case belongs to (measured, per executed case)"""
    t = []
    nr, nc, site = c["nr"], c["nc"], c["site"]
    t.append("K1:tall" if nr > nc else ("K1:square" if nr == nc else "K1:wide"))
    if nr == nc + 1:
        t.append("K1:n=p+1")
    if nr == nc - 1:
        t.append("K1:n=p-1")
    if nc == 1:
        t.append("K1:single-column")
    if nr == 1:
        t.append("K1:single-row")
    if site in NIPALS:
        if site == "PLS":
            t.append("K1:ny=%d" % c["ny"])
        r = c["rank"]
        t.append("K1:npc=1" if c["npc"] == 1 else ("K1:1<npc<rank" if c["npc"] < r else ("K1:npc=rank" if c["npc"] == r else "K1:npc>rank")))
    if nr >= 4:
        if nr % 4 == 0:
            t.append("K2:rows=4k")
        elif nr % 4 in (1, 3):
            t.append("K2:rows=4k+-1")
    if nr >= 31:
        t.append("K2:rows=32k" if nr % 32 == 0 else ("K2:rows=32k+-1" if nr % 32 in (1, 31) else "K2:rows>=31"))
    if c["nproc"] > 1:
        n = c["nproc"]
        for dim, name in ((nr, "rows"), (nc, "cols")):
            if dim < n:
                t.append("K2:slice-%s<nproc" % name)
            elif dim % n == 0:
                t.append("K2:slice-%s=k*nproc" % name)
            elif dim % n in (1, n - 1):
                t.append("K2:slice-%s=k*nproc+-1" % name)
        t.append("K6:nproc%d" % n)
    if c["offl"]:
        t.append("K3:offset2^%d" % c["offl"])
    if c["yoffl"]:
        t.append("K3:y-offset2^%d" % c["yoffl"])
    if c["sc"]:
        t.append("K4:scale2^%d" % (-c["sc"]))
    if c["yex"]:
        t.append("K4:y-scale2^%d" % (-c["yex"]))
    if c["den"] > 1:
        t.append("K5:cells/%d" % c["den"])
    if c["yden"] > 1:
        t.append("K5:y/%d" % c["yden"])
    if c["hist"]:
        t.append("K7:history")
    if c["dr"]:
        t.append("K8:duplicate-rows")
    if c["dc"]:
        t.append("K8:duplicate-columns")
    if c["ccany"]:
        t.append("K8:constant-column")
    if c["cblk"]:
        t.append("K8:constant-block")
    if c["ycc"]:
        t.append("K8:response-constant-column")
    if c["kind"] == "const-response":
        t.append("K8:constant-response")
    if c["kind"] == "zero":
        t.append("K8:rank0")
    if c["kind"] in ("beyond-rank", "nlv-beyond-rank"):
        t.append("K8:npc-beyond-rank")
    return t


def build_cases(ctx, recs):
    base = _base_cases(ctx, recs)
    var = _variants(ctx, base)
    cases = base + var
    # outside the statement (EXTRA-FINDING only): the score predictor on the training data, for the first case(s) of every (site, kind, variant)
    seen = {}
    for i, c in enumerate(cases):
        c["id"] = i + 1
        if c["site"] in NIPALS:
            k = (c["site"], c["kind"], variant_name(c), c["scaling"])
            seen[k] = seen.get(k, 0) + 1
            if seen[k] <= (1 if ctx.quick else 4):
                c["pred"] = 1
    return cases


def case_line(c):
    d = dict(DEFAULTS)
    d.update(c)
    t = [d["id"], d["site"], d["kind"], d["scaling"], d["npc_req"], d["npc"], d["rank"], d["rlo"], d["noise"], d["cblk"], d["ex"], d["nr"], d["nc"]]
    t += d["x"] + [d["ny"]] + d["y"] + [len(d["widths"])] + d["widths"]
    t += [d["nproc"], d["den"], d["sc"], d["offl"], d["yex"], d["yden"], d["yoffl"], d["hist"], d["pred"]]
    return " ".join(str(v) for v in t)


def outside_quantifier(c):
    """cases that are run and modelled but on which a deviation is NOT a verdict (EXTRA-FINDING): a response block that is constant as a whole at a
    value without a finite binary expansion (0.1): its centred form is pure rounding residue, the exact cancellation the quantifier asks for is gone
    (the y-analogue of a rank-0 matrix of such values, which is not generated at all)"""
    return c.get("yden", 1) > 1 and c["kind"] == "const-response"


def variant_name(c):
    v = [k for k in ("nproc", "sc", "offl", "den", "yex", "yoffl", "yden", "hist") if c.get(k, DEFAULTS[k]) != DEFAULTS[k]]
    names = dict(nproc="nproc>1", sc="scale", offl="offset", den="nonrep", yex="y-scale", yoffl="y-offset", yden="y-nonrep", hist="history")
    return "+".join(names[k] for k in v)


NONTRIVIAL = lambda c: c["kind"] not in ("within-rank", "regular", "nlv-within-rank")


# ---------------------------------------------------------------- (C)
def _sig(block, ev):
    head = block[0] if block and block[0].get("e") == "Reset" else {}
    site, kind = head.get("site", ev.get("site", "?")), head.get("kind", "?")
    names = [e.get("e") for e in block]
    if "Diverge" in names or "Hang" in names:
        d = [e for e in block if e.get("e") in ("Diverge", "Hang")][0]
        what = "diverge"
        text = ("iteration budget exhausted in component %s after %s passes" % (d.get("pc"), d.get("it"))) if d["e"] == "Diverge" else "no return before the wall-clock watchdog"
    elif "Crash" in names:
        what, text = "crash", "child process died: %s" % [e for e in block if e.get("e") == "Crash"][0]
    elif ev.get("e") == "Done" and (ev.get("fin") != 1 or "nan" in ev.get("evals", []) or ev.get("bvar") != "fin"):
        what, text = "nan", "returned model has non-finite entries / explained variance: %s" % json.dumps(ev)
    elif ev.get("e") == "Done":
        what, text = "identity", "returned components disagree with the exact rank %s..%s or a ledger bound: %s" % (head.get("rlo"), head.get("rank"), json.dumps(ev))
    else:
        what, text = "identity", "event is not a step of the model: %s" % json.dumps(ev)
    var = []
    if head.get("nproc", 1) > 1:
        var.append("nproc>1")
    if head.get("offl", 0):
        var.append("offset")
    if head.get("sc", 0):
        var.append("scale")
    if head.get("den", 1) > 1:
        var.append("nonrep")
    if head.get("hist", 0):
        var.append("history")
    tail = (":" + "+".join(var)) if var else ""
    return "TERM:%s:%s:%s%s" % (site, what, kind, tail), "%s case %s (%s%s, nproc %s): %s" % (site, head.get("id"), kind, tail, head.get("nproc", 1), text)


def _check_pred(ctx, pred_blocks, byid, label):
    """the score-predictor probes (outside the statement): TLC validates Reset, Pred, Reset, Pred, ... against TraceNipals (action TPred);
    a rejected block is an EXTRA-FINDING; later blocks of the same (site, kind) would repeat it and are not examined"""
    todo, okblocks, rounds = list(pred_blocks), [], 0
    while todo and rounds < 40:
        ev = [e for b in todo for e in b] + [dict(todo[0][0])]
        ok, n, r = tlc.validate_trace("TraceNipals", "Trace_Nipals_prop.cfg", ev)
        ctx.add_tlc(r, "trace_pred_%s_%d" % (label, rounds))
        rounds += 1
        if ok:
            okblocks += todo
            break
        if r.violation != "postcondition":
            raise InfraError("predictor trace: TLC stopped on %s, not on an unmatched line:\n%s" % (r.violation, r.trace_text[:800]))
        bi = n // 2                   # two lines per block
        if bi >= len(todo):
            raise InfraError("predictor trace rejected at its closing Reset")
        okblocks += todo[:bi]
        bad = todo[bi]
        c, p = byid[bad[0]["id"]], bad[1]
        if p.get("e") == "PredCrash":
            what = "crash"
        elif p.get("shape") != 1:
            what = "shape"
        elif p.get("nfw", 0) > 0:
            what = "nan-within-rank"
        elif p.get("nfb", 0) > 0:
            what = "nan-beyond-rank"
        else:
            what = "identity"
        ctx.extra("TERM:%sScorePredictor:%s:%s" % (c["site"], what, c["kind"]),
                  "%sScorePredictor on the training data of case %s (%s, exact rank %s, %s components, nproc %s): %s  [input: %s]"
                  % (c["site"], c["id"], c["kind"] + (":" + variant_name(c) if variant_name(c) else ""), c["rank"], c["npc"], c["nproc"], json.dumps(p),
                     json.dumps({k: c[k] for k in ("nr", "nc", "x", "ny", "y", "widths", "scaling", "npc_req")})))
        todo = [b for b in todo[bi + 1:] if (byid[b[0]["id"]]["site"], byid[b[0]["id"]]["kind"]) != (c["site"], c["kind"])]
    ctx.steps["predictor_probes_" + label] = dict(blocks=len(pred_blocks), accepted=len(okblocks), tlc_rounds=rounds)
    return okblocks


def _full(c):
    """a case dict with every field (replay files written before a field existed stay usable)"""
    d = dict(DEFAULTS, ccany=0, dr=0, dc=0, ycc=0, src="mat", xrank=c.get("rank", 0))
    d.update(c)
    return d


def run_cases(ctx, cases, budget, child_timeout, maxdiv, label):
    cases = [_full(c) for c in cases]
    # one processor: ASan/UBSan build.  nproc > 1: the MT kernels create nproc threads per matrix*vector product, several per NIPALS pass; under
    # ASan a thread costs ~1 ms, so these cases run on the plain build of the same tree (same hooks)
    # (forking a child of an ASan process costs ~4 ms, of a plain one ~1 ms: of the plain inputs at one processor every second case (thorough: every
    # fourth) runs under the sanitizers, every variant, counter-bounded routine and replay does)
    def sanitized(c):
        return c["nproc"] == 1 and (len(cases) < 100 or variant_name(c) or c["site"] not in NIPALS or c["id"] % (2 if ctx.quick else 4) == 0)
    groups = [("san", [c for c in cases if sanitized(c)]), ("plain", [c for c in cases if not sanitized(c)])]
    rd = tlc.rundir()
    byid = {c["id"]: c for c in cases}
    try:
        jobs = []
        for cfgname, part in groups:
            if not part:
                continue
            lib = build.build_lib(cfgname)
            exe = build.build_harness("c18", ["c18_drv.c"], lib)
            nproc = max(1, min(PAR, len(part) // 50 + 1))
            for i in range(nproc):
                p = part[i::nproc]
                cf = os.path.join(rd, "cases-%s-%d.txt" % (cfgname, i))
                with open(cf, "w") as f:
                    f.write("\n".join(case_line(c) for c in p) + "\n")
                jobs.append((exe, [cf, os.path.join(rd, "t-%s-%d.ndjson" % (cfgname, i)), budget, child_timeout, maxdiv]))
        with ThreadPoolExecutor(PAR) as ex:
            res = list(ex.map(lambda j: hrun.run(j[0], j[1], timeout=3000), jobs))
        events, skipped, diverged = [], 0, 0
        for j, h in zip(jobs, res):
            if h.timed_out or h.rc != 0 or "SUMMARY" not in h.out:
                raise InfraError("c18 harness failed (rc=%s):\n%s" % (h.rc, (h.err or h.out)[-1500:]))
            kv = dict(t.split("=") for t in h.out.split("SUMMARY", 1)[1].split())
            skipped += int(kv["skipped"])
            diverged += int(kv["diverged"])
            events += hrun.read_ndjson(j[1][1])
        blocks = tlc.split_blocks(events)
        if not blocks:
            raise InfraError("c18 harness produced no events")
        # everything after a PredStart line is outside the statement of the property: cut it off the block and judge it in a trace of its own
        pred_blocks = []
        for b in blocks:
            idx = next((i for i, e in enumerate(b) if e.get("e") == "PredStart"), None)
            if idx is not None:
                rest = b[idx + 1:]
                pe = [e for e in rest if e.get("e") == "Pred"]
                pred_blocks.append([b[0], pe[0] if pe else dict(e="PredCrash", site=b[0]["site"], after=[e.get("e") for e in rest])])
                del b[idx:]
        # vacuity of the recording (hooks H4 / H6, probes, histories): a changed fit that leaves the hooked loops, or dies in every child, silences these events -
        # settled at the end of run(), after TLC judged what was recorded (without a run() in progress - replay of one stored case - raised at once)
        def vac(msg):
            if getattr(ctx, "_deferred", None) is None:
                raise InfraError(msg)
            ctx._deferred.add(msg)
        if any(c["pred"] for c in cases if c["site"] in NIPALS and c["id"] in {b[0]["id"] for b in blocks}) and not pred_blocks and not diverged:
            vac("score-predictor probes were scheduled but no PredStart line was recorded")
        need_iter = any(c["site"] in ("PCA", "PLS", "CPCA") and c["rank"] > 0 and c["rlo"] > 0 for c in cases)
        if need_iter and not any(e.get("e") == "Iter" for e in events):
            vac("no Iter events: hook H4 is not firing (hooks removed or guard off)")
        km = [e for e in events if e.get("e") == "Returned" and e.get("site") == "KMEANS"]
        if km and not any(e.get("n", 0) > 0 for e in km):
            vac("k-means returned but hook H6 (VERIF_STATE in KMeans) never reported an iteration")
        nwarm = sum(1 for c in cases if c.get("hist") and c["site"] in NIPALS)
        if nwarm and not any(e.get("e") == "Warm" and e.get("passes", 0) > 0 for e in events):
            vac("in-process history cases were scheduled but no Warm event with NIPALS passes was recorded")
        ctx.note("%s: %d cases run in child processes (%d skipped after %d diverging cases per (site, kind)), %d events" % (label, len(blocks), skipped, maxdiv, len(events)))
        unguarded = set()
        for b in blocks:
            c = byid.get(b[0].get("id"))
            if c is None:
                raise InfraError("unknown case id in trace: %s" % b[0])
            ctx.case((c["site"], c["rank"], c["npc"] - c["rank"], c["kind"], c["nr"], c["nc"], c["scaling"], variant_name(c), c.get("nproc", 1)), NONTRIVIAL(c))
            for tag in class_tags(c):
                ctx.cls(tag)
            for e in b:
                if e.get("e") == "Iter" and (e["a"] != "Fin" or e["b"] != "Fin"):
                    unguarded.add(e["site"])
        for b in blocks:
            if NONTRIVIAL(byid[b[0]["id"]]) and len(b) > 3:
                ctx.sample(dict(case=byid[b[0]["id"]], events=b[:12]), 4)
        # (V) variant agreement
        if unguarded:
            ctx.note("variant implemented by the code: UNGUARDED at %s (passes on null / non-finite vectors were recorded) - the model predicts the lasso there" % sorted(unguarded))
        ctx.steps["variant_" + label] = dict(unguarded_sites=sorted(unguarded), diverged_cases=diverged, skipped_cases=skipped)

        rejected_ids = set()

        def on_reject(ev, idx, block):
            sig, what = _sig(block, ev)
            c = byid.get(block[0].get("id")) if block and block[0].get("e") == "Reset" else None
            rejected_ids.add(block[0].get("id"))
            if c is not None and outside_quantifier(c):
                ctx.extra(sig, what + "  [input: %s]" % json.dumps({k: c[k] for k in ("nr", "nc", "x", "ny", "y", "yden", "npc_req")}))
                return
            ctx.violation(sig, what, dict(kind="case", case=c, events=block[:14]))

        def is_suspect(b):
            return any(e.get("e") in ("Diverge", "Hang", "Crash") or
                       (e.get("e") == "Done" and (e.get("fin") != 1 or "nan" in e.get("evals", []) or e.get("bvar") != "fin")) for e in b)
        suspect = [b for b in blocks if is_suspect(b)]
        clean = [b for b in blocks if not is_suspect(b)]
        # diverging / non-finite executions: TLC decides on the first block of every signature that no action matches; the other blocks of
        # the same signature (there can be thousands on a tree without guards) are counted, not re-validated
        firsts = {}
        for b in suspect:
            firsts.setdefault(_sig(b, [e for e in b if e.get("e") == "Done"][-1] if any(e.get("e") == "Done" for e in b) else b[-1])[0], b)
        if firsts:
            ev = [e for b in firsts.values() for e in b]
            n = trace.check_trace(ctx, "TraceNipals", "Trace_Nipals.cfg", "Trace_Nipals_prop.cfg", ev, on_reject, drop="block", max_rounds=len(firsts) + 2,
                                  label="trace_nipals_diverging_" + label)
            if n != len(firsts):
                raise InfraError("a diverging / non-finite execution was accepted by TraceNipals (%d rejected of %d)" % (n, len(firsts)))
        CH = 4000
        chunks = [[e for b in clean[i:i + CH] for e in b] for i in range(0, len(clean), CH)]
        with ThreadPoolExecutor(max(1, min(4 if ctx.quick else 6, PAR))) as ex:
            fp = ex.submit(_check_pred, ctx, pred_blocks, byid, label)
            list(ex.map(lambda t: trace.check_trace(ctx, "TraceNipals", "Trace_Nipals.cfg", "Trace_Nipals_prop.cfg", t[1], on_reject, drop="block", max_rounds=16,
                                                     label="trace_nipals_%s_%d" % (label, t[0]), timeout=1500, xmx="4g"), enumerate(chunks)))
            _LAST["pred_ok"] = fp.result()
        ctx.traces(len(clean) + len(firsts))
        _LAST["ceiling"] = [b for b in clean if b[0].get("id") not in rejected_ids and b[0].get("site") == "PLS"
                            and any(e.get("e") == "Iter" and e.get("it", 0) >= 10000 for e in b)]      # routing only: TLC decides in _certify_ceiling
        return blocks, [b for b in clean if b[0].get("id") not in rejected_ids]       # clean = accepted by TLC
    finally:
        shutil.rmtree(rd, ignore_errors=True)


REQUIRED_MT = {"PCA": ("K8:constant-column", "K8:duplicate-rows", "K8:rank0", "K8:npc-beyond-rank"),
               "CPCA": ("K8:constant-block", "K8:constant-column", "K8:duplicate-rows", "K8:rank0", "K8:npc-beyond-rank"),
               "PLS": ("K8:constant-column", "K8:duplicate-rows", "K8:constant-response", "K8:npc-beyond-rank")}


def _mt_coverage(ctx, cases):
    """every degenerate class must have been scheduled under every forced processor count > 1 (vacuity of the K6 extension)"""
    cnt = {}
    for c in cases:
        if c["nproc"] > 1 and c["site"] in NIPALS:
            for t in class_tags(c):
                if t.startswith("K8:"):
                    k = "%s nproc=%d %s" % (c["site"], c["nproc"], t)
                    cnt[k] = cnt.get(k, 0) + 1
    ctx.steps["cases_at_nproc_gt1_by_degenerate_class"] = dict(sorted(cnt.items()))
    missing = ["%s nproc=%d %s" % (s, n, t) for s, tags in REQUIRED_MT.items() for n in (2, 3, 16) for t in tags if not cnt.get("%s nproc=%d %s" % (s, n, t))]
    if missing:
        raise InfraError("degenerate classes never scheduled at nproc > 1: %s" % missing)


def _certify_ceiling(ctx):
    """vacuity of the pass-ceiling class (after the verdicts): TLC must find, among the accepted PLS fits that logged a pass at or past PLSMAXITER, at
    least one whose last two convergence values differ (TraceNipals: cert, TCertify) - the class on which a ceiling on the passes WITHOUT PROGRESS never
    fires.  The certificate is CONDITIONAL: no fit at the ceiling at all -> recorded as "unreachable on this tree" in the evidence, no failure; fits at
    the ceiling but none with an alternating value -> InfraError (unless the run has verdicts: a tree that loops there shows Diverge lines instead of
    ceiling exits)."""
    cand = _LAST.get("ceiling", [])[:120]
    if not cand and ctx.violations:
        ctx.steps["pass_ceiling_class"] = dict(fits_at_ceiling=0, certified=False, reachable=None, note="no accepted fit at the ceiling on a tree with violations")
        ctx.note("pass-ceiling class: no ACCEPTED fit ended at PLSMAXITER on this tree - see the violations")
        return
    if not cand:
        # conditional certificate: a tree whose null-latent-variable guard is relative (|X'u| <= rows * DBL_EPSILON * ||X||_F * |u| -> null LV) never starts an
        # iteration on rounding residue, so no fit can end at the ceiling; the CapRule refutations of NipalsMT.tla stay model-level statements
        ctx.steps["pass_ceiling_class"] = dict(fits_at_ceiling=0, certified=False, reachable=False,
                                               note="ceiling class unreachable on this tree: the relative null-LV guard stops residue iterations before they start")
        ctx.note("pass-ceiling class unreachable on this tree: no accepted PLS fit logged a pass at or past PLSMAXITER (the relative null-LV guard stops residue "
                 "iterations before they start); nothing to certify")
        return
    ev = [e for b in cand for e in b] + [dict(e="Certify")]
    ok, n, r = tlc.validate_trace("TraceNipals", "Trace_Nipals_prop.cfg", ev)
    ctx.add_tlc(r, "certify_pass_ceiling")
    ctx.steps["pass_ceiling_class"] = dict(fits_at_ceiling=len(_LAST.get("ceiling", [])), certified=bool(ok), reachable=True)
    if ok:
        ctx.note("pass-ceiling class certified by TLC: %d accepted PLS fits ended at PLSMAXITER, at least one with two distinct convergence values in its last passes"
                 % len(_LAST.get("ceiling", [])))
        # binding: the same trace with every cq made equal to cqp must NOT be certified
        ev2 = [dict(e, cqp=list(e["cq"])) if e.get("e") == "Iter" else dict(e) for e in ev]
        ok2, _, _ = tlc.validate_trace("TraceNipals", "Trace_Nipals_prop.cfg", ev2)
        if ok2:
            raise InfraError("binding lost: the certificate does not depend on the logged convergence values")
        return
    if ctx.violations:
        ctx.note("pass-ceiling class NOT certified on this tree (%d fits at the ceiling) - see the violations" % len(_LAST.get("ceiling", [])))
        return
    raise InfraError("vacuous: no accepted PLS fit reached the pass ceiling with an alternating convergence value (%d fits at the ceiling, trace matched up to line %d): "
                     "the class that distinguishes a ceiling on passes from a ceiling on passes without progress was not exercised" % (len(_LAST.get("ceiling", [])), n))


def _binding(ctx, clean, byid):
    """corrupt one recorded field per new event kind / field: TLC must reject"""
    def blk(pred):
        for b in clean:
            if pred(b, byid[b[0]["id"]]):
                return b
        return None
    tests = []
    tail = lambda b: [dict(b[0])]          # a trailing Reset: the block before it must have reached phase "done"

    def t_done(ev):
        for i in range(len(ev) - 1, -1, -1):
            if ev[i].get("e") == "Done":
                del ev[i]
                return True
        return False
    sel = [b for b in clean if any(e.get("e") == "Done" for e in b)][:50]
    if sel:
        tests.append(("binding_done", "Trace_Nipals_prop.cfg", [e for b in sel for e in b] + tail(sel[0]), t_done))

    def t_warm(ev):
        for i, e in enumerate(ev):
            if e.get("e") == "Warm":
                del ev[i]
                return True
        return False
    b = blk(lambda b, c: c["hist"] == 1 and any(e.get("e") == "Warm" for e in b))
    if b:
        tests.append(("binding_warm", "Trace_Nipals_prop.cfg", b + tail(b), t_warm))

    def t_vx(ev):
        for e in ev:
            if e.get("e") == "Done" and e["vx"]:
                e["vx"][0] = 0
                return True
        return False
    b = blk(lambda b, c: c["site"] == "PCA" and c["rank"] >= 1 and b[-1].get("e") == "Done")
    if b:
        tests.append(("binding_vx", "Trace_Nipals_prop.cfg", b + tail(b), t_vx))

    def t_nf(ev):
        for e in ev:
            if e.get("e") == "Done" and e["nf"]:
                e["nf"][-1] = 1
                return True
        return False
    if b:
        tests.append(("binding_nf", "Trace_Nipals_prop.cfg", b + tail(b), t_nf))

    def t_ret(limit):
        def f(ev):
            for e in ev:
                if e.get("e") == "Returned":
                    e["n"] = limit(e)
                    return True
            return False
        return f
    b = blk(lambda b, c: c["site"] == "KMEANS")
    if b:
        tests.append(("binding_kmeans_cap", "Trace_Nipals_prop.cfg", b + tail(b), t_ret(lambda e: 101)))
    b = blk(lambda b, c: c["site"] == "NM")
    if b:
        tests.append(("binding_nm_cap", "Trace_Nipals_prop.cfg", b + tail(b), t_ret(lambda e: (e["nc"] + 1) + e["iter"] * (e["nc"] + 3) + 1)))

    # the tolerance of the reconstruction residual is a function of the LOGGED offset: pretend there was none
    def t_off(ev):
        ev[0]["offl"] = 0
        return True
    b = blk(lambda b, c: c["site"] == "PCA" and c["offl"] >= 26 and b[-1].get("e") == "Done" and b[-1].get("recon", -1) > 10000)
    if b:
        tests.append(("binding_offset_tolerance", "Trace_Nipals_prop.cfg", b + tail(b), t_off))
    else:
        ctx.note("binding_offset_tolerance: no offset case with a reconstruction residual above TolAlg in this run (nothing to corrupt)")

    # the uncorrupted selections must be behaviours of the spec (one run for all of them); with violations around, a selected block
    # may be one of the executions the check did not get to examine: then the self-tests say nothing and are skipped
    pb = blk(lambda b, c: c["site"] == "CPCA" and c["cblk"] == 1 and c["nproc"] > 1 and c["rank"] >= 1 and c["hist"] == 0 and any(e.get("e") == "Iter" for e in b))
    allsel = [e for t in tests for e in t[2][:-1]] + (pb if pb else [])        # every selection without its trailing Reset ...
    allsel = allsel + [dict(allsel[0])] if allsel else []                       # ... and one at the very end
    ok0, _, r0 = tlc.validate_trace("TraceNipals", "Trace_Nipals.cfg", allsel)
    ctx.add_tlc(r0, "binding_selection")
    if not ok0:
        if ctx.violations:
            ctx.note("binding self-tests skipped: the selected executions are not all accepted in this run (see the violations)")
            return
        raise InfraError("binding self-test selection is not accepted by TraceNipals although the run has no violation")

    def t_pred(ev):
        for e in ev:
            if e.get("e") == "Pred":
                e["nfb"] = e.get("nfb", 0) + 1
                return True
        return False
    pok = [b for b in _LAST.get("pred_ok", []) if b[1].get("e") == "Pred"]
    if pok:
        tests.append(("binding_pred", "Trace_Nipals_prop.cfg", pok[0] + tail(pok[0]), t_pred))

    def one(t):
        trace.binding_selftest(ctx, "TraceNipals", t[1], t[2], t[3], t[0])
        return t[0]
    # the processor count of the Reset line is bound to the kernel layer of the model: under FilterMT = FALSE (a model constant, not the code) a clean
    # CPCA constant-block execution recorded at nproc > 1 is NOT a behaviour of the model, the same lines with nproc rewritten to 1 are
    b = pb
    if b is None:
        if ctx.violations:
            ctx.note("binding_nproc skipped: no ACCEPTED CPCA constant-block execution at nproc > 1 in this run (see the violations)")
            return
        raise InfraError("no clean CPCA constant-block execution at nproc > 1 to bind the processor count with")
    b1 = [dict(e) for e in b]
    b1[0]["nproc"] = 1
    with ThreadPoolExecutor(max(1, min(4, PAR))) as ex:
        f2 = ex.submit(tlc.validate_trace, "TraceNipals", "Trace_Nipals_nofilter.cfg", b + tail(b))
        f1 = ex.submit(tlc.validate_trace, "TraceNipals", "Trace_Nipals_nofilter.cfg", b1 + [dict(b1[0])])
        done = list(ex.map(one, tests))
        (ok2, n2, _), (ok1, n1, _) = f2.result(), f1.result()
    if ok2 or not ok1:
        raise InfraError("binding lost: the recorded processor count does not reach the kernel layer of the model (nproc > 1 accepted: %s, nproc = 1 accepted: %s)" % (ok2, ok1))
    ctx.steps["binding_nproc"] = dict(rejected_at=n2, ok=True)
    ctx.note("binding self-tests passed: %s, binding_nproc" % ", ".join(done))


def run(ctx):
    ctx.assumptions += [
        "TLC explores Nipals.tla / NipalsMT.tla exhaustively within rank 0..3 (4), components 1..5 (6), contraction budget 3 (5), processor counts {1,2,3,16} ({1,2,3,5,16,24}) only; the class transfer function of a pass was transcribed from pca.c / pls.c / cpca.c by hand",
        "hook H4 is called once per pass of the three while(1) loops with (t't | u'u, normaliser, convergence value); components returned without any pass are reported as `Null` by the harness; hook H6 reports every Lloyd iteration of KMeans",
        "the iteration budget of a child stays an order of magnitude above PLSMAXITER = 10000, so that a tree whose LVCalc has a ceiling on its passes returns by itself (and is certified to have met the alternating 2-cycle at that ceiling) while a tree whose ceiling never fires is reported as Diverge",
        "non-termination of the real code is decided by an iteration budget (1e5 passes quick / 1e6 thorough) or, for routines without a hook, a wall-clock watchdog per child (20 s quick / 40 s thorough, four times that at nproc > 1; a fit of these sizes takes milliseconds)",
        "the harness logs the explained variance of every returned component (1e-12 percent units) and a non-finite flag; TLC classifies (VarZeroQ = 1e-9 percent plus the variance the centring residue of offset data can show) and compares the harness's double-precision ledger residuals with TolAlg = 1e-8 (plus twice the centring residue for offset data)",
        "PLS: the exact number of latent variables (Krylov dimension of X_c'X_c, X_c'y_c) is computed by TLC for one response (and for a response block [y, constant]); for two varying responses only the first latent variable is claimed; past that count a returned component must be finite, nothing else (it may be built on rounding noise while X has rank left)",
        "one processor: ASan/UBSan build for every variant, every counter-bounded routine and every second (thorough: fourth) plain NIPALS case, plain build for the rest; nproc > 1: plain build of the same tree (a thread costs ~1 ms under ASan and the MT kernels create nproc of them per product); every fit in its own forked child with the processor count forced through hook H2",
        "exact ranks of the larger shapes: rank of the row differences M[i] - M[1] (same row space as the centred matrix), eliminated through the transpose when tall; cross-checked against the centred-matrix route on every small case",
    ]
    with ThreadPoolExecutor(2) as ex:          # the model runs and the generator are independent TLC jobs
        f_mc, f_gen = ex.submit(model_check, ctx), ex.submit(generate, ctx)
        recs = f_gen.result()
        f_mc.result()
    cases = build_cases(ctx, recs)
    ctx.note("%d cases (PCA %d, PLS %d, CPCA %d, MLR-LOO %d, k-means %d, Nelder-Mead %d); %d of them variants (nproc > 1: %d, offset: %d, scale: %d, non-representable: %d, history: %d)"
             % ((len(cases),) + tuple(sum(1 for c in cases if c["site"] == s) for s in ("PCA", "PLS", "CPCA", "MLRLOO", "KMEANS", "NM"))
                + (sum(1 for c in cases if variant_name(c)), sum(1 for c in cases if c["nproc"] > 1), sum(1 for c in cases if c["offl"] or c["yoffl"]),
                   sum(1 for c in cases if c["sc"] or c["yex"]), sum(1 for c in cases if c["den"] > 1 or c["yden"] > 1), sum(1 for c in cases if c["hist"]))))
    _mt_coverage(ctx, cases)
    ctx._deferred = Deferred(ctx)
    budget = 100000 if ctx.quick else 1000000
    blocks, clean = run_cases(ctx, cases, budget, 20 if ctx.quick else 40, 1 if ctx.quick else 3, "main")
    ctx.cov["rule"] = ("inputs enumerated by TLC (NipalsGen: matrices <= 3x3 over {-1,0,1}%s, dyadic perturbations 2^-3, all responses in {0,1}^rows, response blocks [y, constant]; "
                       "low-rank integer products A B of %d larger shapes up to %s with exact rank from TLC) crossed with component requests 1..cols and cols+2 (cols+1 is clamped to the same fit) / "
                       "block splits / cluster counts; plus, per stratum (site, kind, shape, degeneracy flags), variants of the same input: forced processor counts %s, whole-input scale 2^+-20, "
                       "column offsets 2^20..2^%d, cells / responses divided by 3, 10, 1000, other fits first in the same process; a case = one fit in a child process keyed by "
                       "(site, exact rank, npc - rank, kind, shape, scaling, variant, nproc); non-trivial = more components than rank, rank 0, constant response, no covariance, constant block, "
                       "duplicate rows or rank-deficient design"
                       % ((", shapes with > 4 cells sampled deterministically", 20, "33x2 / 4x8", "2, 3, 16", 30) if ctx.quick else (", complete", 38, "65x4 / 8x8", "2, 3, 5, 16, 24", 36)))
    ctx.cov["exhaustive"] = not ctx.quick
    if clean and not ctx._deferred:
        _binding(ctx, clean, {c["id"]: _full(c) for c in cases})
    if not ctx._deferred:
        _certify_ceiling(ctx)
    ctx._deferred.settle()


def replay(ctx, body):
    case = (body.get("case") or {}).get("case")
    if not case:
        return run(ctx)
    c = dict(case)
    blocks, clean = run_cases(ctx, [c], 1000000, 30, 1, "replay")
    ctx.case(("replay2", c["site"], c["kind"]))
    ctx.sample(dict(case=c, events=blocks[0][:14]))
