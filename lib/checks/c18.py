"""C18 - model fitting terminates with finite leading components on degenerate data.

(M)  Nipals.tla: control skeleton of the while(1) NIPALS loops of PCA / PLS(LVCalc) / CPCA over the value classes {Zero, Fin, NaN}
     (class transfer transcribed from the C code) and of the counter-bounded loops (k-means, Nelder-Mead, leave-one-out).  Liveness
     `Terminates` under FairSpec and invariant `BeyondRankZero` hold for Guarded = TRUE; for Guarded = FALSE (the pinned tree) TLC returns
     the lasso Start(Zero) -> IterNull* for each of the three sites, and the NaN block variance of CPCA on a constant block.
(GEN) NipalsGen.tla: every matrix <= 3x3 over {-1,0,1} (quick: all <= 4 cells + a deterministic sample), dyadic perturbations, every
     two-valued / constant response, each with its exact rank (ExactRank.tla, rational Gauss elimination) computed by TLC.
(C)  c18_drv runs each case in a child process with hook H4 and an iteration budget; TLC validates the recorded Start/Iter/Null/Done events
     against TraceNipals.tla (Guarded model).  Diverge / Hang match no action -> violation with the input as replay.
(V)  the variant the code implements (guarded or not) is read off the recorded iteration classes and reported next to the model verdicts.
"""
import json, os, shutil
from concurrent.futures import ThreadPoolExecutor
from vf import build, tlc, trace, tlclive
from vf import run as hrun
from vf.core import InfraError

LEVEL = "model_checking"
READY = True
TECHNIQUE = ("TLC liveness model checking of Nipals.tla (termination of the NIPALS while(1) loops over an abstract numeric domain, guarded vs "
             "unguarded variant) + TLC-enumerated degenerate inputs with exact rank (NipalsGen/ExactRank) run through the real PCA/PLS/CPCA/"
             "MLR-LOO/k-means/Nelder-Mead under hook H4 with an iteration budget + TLC trace validation of the recorded iteration events and "
             "returned models against the guarded model (TraceNipals.tla)")
LEVEL_TEXT = ("Termination and zero-variance-beyond-rank are model-checked (liveness under weak fairness) for every rank 0..3(4), component request "
              "1..5(6) and every site; the real library is then driven through every TLC-enumerated degenerate input of the tier (all matrices up to "
              "3x3 over {-1,0,1} in the thorough tier) and every recorded execution is accepted or rejected by TLC against the guarded model.")
LEVEL_NOTE = ("Trusts TLC, the placement of hook H4, the harness's classification of returned components (finite / variance <= 1e-9 %) and its "
              "double-precision ledger residuals; exhaustive only within the stated small scopes; the iteration budget decides non-termination "
              "(1e5 passes quick, 1e6 thorough, three orders above what a converging fit on <= 3x3 data needs).")

PAR = int(os.environ.get("VERIF_PAR", "12"))
UNGUARDED = ["PCA", "PLS", "CPCA"]


# ---------------------------------------------------------------- (M)
def model_check(ctx):
    cfg = "MC_Nipals_quick.cfg" if ctx.quick else "MC_Nipals_thorough.cfg"
    r = tlclive.run_live("Nipals", cfg, workers=4, timeout=900)
    ctx.add_tlc(r, "mc_nipals_guarded")
    if not r.ok:
        raise InfraError("Nipals.tla (Guarded = TRUE): %s fails in the model itself:\n%s" % (r.violation, r.trace_text[:1500]))
    z = r.zero_actions(ignore=("IterNull",))          # IterNull is the unguarded pass: disabled by construction when Guarded
    if z:
        raise InfraError("Nipals.tla: actions never taken (vacuous model check): %s" % z)
    ctx.note("model (Guarded): Terminates, CounterVariant, BeyondRankZero hold; %d distinct states" % r.distinct)
    lassos = {}
    for s in UNGUARDED:
        r = tlclive.run_live("Nipals", "MC_Nipals_unguarded_%s.cfg" % s, workers=2, timeout=600)
        ctx.add_tlc(r, "mc_nipals_unguarded_%s" % s)
        if r.ok or not str(r.violation).startswith("temporal"):
            raise InfraError("Nipals.tla (Guarded = FALSE, %s): expected the non-termination lasso, got %s" % (s, r.violation))
        path = ["%s%s" % (a, "(%s)" % arg if arg else "") for a, arg, _ in r.lasso]
        lassos[s] = dict(path=path, back_to=r.back_to, distinct=r.distinct, wall_s=round(r.wall, 2))
        ctx.note("model (unguarded %s): Terminates violated, lasso %s, back to state %s" % (s, " -> ".join(path), r.back_to))
    r = tlclive.run_live("Nipals", "MC_Nipals_unguarded_var.cfg", workers=2, timeout=600)
    ctx.add_tlc(r, "mc_nipals_unguarded_var")
    if r.violation != "BeyondRankZero":
        raise InfraError("Nipals.tla (Guarded = FALSE, CPCA constant block): expected BeyondRankZero to fail, got %s" % r.violation)
    r = tlclive.run_live("Nipals", "MC_Nipals_unguarded_counters.cfg", workers=2, timeout=600)
    ctx.add_tlc(r, "mc_nipals_counters")
    if not r.ok:
        raise InfraError("Nipals.tla counter loops: %s" % r.violation)
    ctx.steps["lassos"] = lassos


# ---------------------------------------------------------------- (GEN)
def generate(ctx):
    cfg = "MC_NipalsGen_quick.cfg" if ctx.quick else "MC_NipalsGen_thorough.cfg"
    r = tlc.run("NipalsGen", cfg, workers=8, timeout=1500, coverage=False, xmx="8g")
    ctx.add_tlc(r, "gen_nipals")
    if not r.ok:
        raise InfraError("NipalsGen: %s\n%s" % (r.violation, r.trace_text[:1500]))
    seen, recs = set(), []
    for e in r.emits:
        k = json.dumps(e, sort_keys=True)
        if k not in seen:
            seen.add(k)
            recs.append(e)
    if not recs:
        raise InfraError("NipalsGen emitted no case")
    recs.sort(key=lambda e: (e["kind"], e["nr"], e["nc"], e["cells"], e["y"]))
    ctx.note("GEN: %d degenerate inputs with exact rank from TLC (%d states)" % (len(recs), r.distinct))
    return recs


def _flat(m):
    return [v for row in m for v in row]


def build_cases(ctx, recs):
    """cross the TLC-enumerated inputs with component requests / block splits; returns list of case dicts"""
    q = ctx.quick
    cases = []
    cov = {}
    for e in recs:
        if e["kind"] == "resp":
            cov[(json.dumps(e["cells"]), tuple(e["y"]))] = (e["cov"], e["ycst"])

    def add(site, kind, e, req, npc, rank, rlo, noise, cblk=0, scaling=0, ys=None, widths=(), cells=None):
        ys = ys or []
        cells = cells or e["cells"]
        cases.append(dict(id=len(cases) + 1, site=site, kind=kind, scaling=scaling, npc_req=req, npc=npc, rank=rank, rlo=rlo, noise=noise, cblk=cblk,
                          ex=e["ex"], nr=e["nr"], nc=len(cells[0]), x=_flat(cells), ny=(len(ys) // e["nr"]) if ys else 0, y=ys, widths=list(widths)))

    for idx, e in enumerate(recs):
        nr, nc, rk = e["nr"], e["nc"], e["rankc"]
        noise = 0 if rk == 0 else 1
        if e["kind"] in ("mat", "pert"):
            reqs = list(range(1, nc + 3))
            if e["kind"] == "pert":
                reqs = [nc + 2] if (q or idx % 2 == 0) else []
            else:
                reqs = [r_ for r_ in reqs if r_ != nc + 1]          # nc + 1 and nc + 2 are clamped to the same fit
            for req in reqs:
                npc = min(req, nc)
                kind = "zero" if rk == 0 else ("beyond-rank" if npc > rk else "within-rank")
                add("PCA", kind, e, req, npc, rk, rk, noise)
            if e["kind"] == "mat" and (not q or idx % 3 == 0):
                npc = nc
                add("PCA", "zero" if rk == 0 else ("beyond-rank" if npc > rk else "within-rank"), e, nc + 2, npc, rk, rk, noise, scaling=1)
        if e["kind"] == "mat" and nc >= 2:
            splits = [(1, nc - 1)]
            if nc == 3:
                splits += [(2, 1), (1, 1, 1)]
            for w in splits:
                minw = min(w)
                c0, cb = 0, 0
                for wi in w:
                    if all(e["cc"][c0 + j] == 1 for j in range(wi)):
                        cb = 1
                    c0 += wi
                for req in [minw + 2]:
                    npc = min(req, minw)
                    kind = "zero" if rk == 0 else ("const-block" if cb else ("beyond-rank" if npc > rk else "within-rank"))
                    add("CPCA", kind, e, req, npc, rk, rk, noise, cblk=cb, widths=w)
        if e["kind"] == "mat" and nc >= 2 and (not q or idx % 2 == 1):
            # two blocks of nc columns each, so that more components than the rank can be requested: the matrix twice (same exact rank),
            # and the matrix next to a constant block (zero after centring: same exact rank, block variance 0)
            allconst = all(c == 1 for c in e["cc"])
            for cells, cb in (([r_ + r_ for r_ in e["cells"]], 1 if allconst else 0), ([r_ + [1] * nc for r_ in e["cells"]], 1)):
                for req in [nc + 2]:
                    npc = min(req, nc)
                    kind = "zero" if rk == 0 else ("const-block" if cb else ("beyond-rank" if npc > rk else "within-rank"))
                    add("CPCA", kind, e, req, npc, rk, rk, noise, cblk=cb, widths=(nc, nc), cells=cells)
        if e["kind"] == "resp":
            for req in ([1, nc + 2] if idx % 2 == 0 else [nc]):
                npc = min(req, nc)
                kr = e["krank"]                         # exact number of latent variables (Krylov dimension) from TLC
                if e["ycst"]:
                    kind = "const-response"
                elif kr == 0:
                    kind = "no-covariance"
                else:
                    kind = "nlv-beyond-rank" if npc > kr else "nlv-within-rank"
                add("PLS", kind, e, req, npc, kr, kr, noise, ys=list(e["y"]))
            # two responses: y and its reverse (collinear / constant pairs included)
            y2 = list(reversed(e["y"]))
            c2 = cov.get((json.dumps(e["cells"]), tuple(y2)))
            if c2 is None:      # thorough tier enumerates responses up to complement (same centred direction, same flags)
                c2 = cov.get((json.dumps(e["cells"]), tuple(1 - v for v in y2)))
            if c2 is not None and idx % 2 == 0:
                ycst = e["ycst"] and c2[1]
                npc = nc
                # two responses: only a lower bound on the number of latent variables is known (block Krylov dimension is not computed).
                # LVCalc starts from ONE response column: if that column has no covariance with X the first weight vector is null
                # although the other column may have some - then not even the first latent variable is claimed.
                if ycst:
                    kind, rlo, rhi = "const-response", 0, 0
                elif not (e["cov"] and c2[0]):
                    kind, rlo, rhi = "no-covariance", 0, 0
                else:
                    kind, rlo, rhi = ("nlv-beyond-rank" if npc > 1 else "nlv-within-rank"), 1, 1
                ys = []
                for i in range(nr):
                    ys += [e["y"][i], y2[i]]
                add("PLS", kind, e, nc + 2, npc, rhi, rlo, noise, ys=ys)
            if idx % 4 == 0:
                add("MLRLOO", "rank-deficient" if e["rank0"] < nc or rk < nc else "regular", e, 1, 1, rk, rk, noise, ys=list(e["y"]))
            if nc >= 2 and idx % 4 == 1:
                add("NM", "rank-deficient" if e["rank0"] < nc else "regular", e, 60, 60, rk, rk, noise, ys=list(e["y"]))
        if e["kind"] == "mat" and nr >= 2 and (not q or idx % 2 == 0):
            distinct = len(set(tuple(r_) for r_ in e["cells"]))
            for k in range(2, nr + 1):
                add("KMEANS", "duplicate-rows" if distinct < k else "regular", e, k, k, rk, rk, noise)
    return cases


def case_line(c):
    t = [c["id"], c["site"], c["kind"], c["scaling"], c["npc_req"], c["npc"], c["rank"], c["rlo"], c["noise"], c["cblk"], c["ex"], c["nr"], c["nc"]]
    t += c["x"] + [c["ny"]] + c["y"] + [len(c["widths"])] + c["widths"]
    return " ".join(str(v) for v in t)


NONTRIVIAL = lambda c: c["kind"] not in ("within-rank", "regular", "nlv-within-rank")


# ---------------------------------------------------------------- (C)
def _sig(block, ev):
    head = block[0] if block and block[0].get("e") == "Reset" else {}
    site, kind = head.get("site", ev.get("site", "?")), head.get("kind", "?")
    names = [e.get("e") for e in block]
    if "Diverge" in names or "Hang" in names:
        d = [e for e in block if e.get("e") in ("Diverge", "Hang")][0]
        what = "diverge"
        text = ("iteration budget exhausted in component %s after %s passes" % (d.get("pc"), d.get("it"))) if d["e"] == "Diverge" else "no return before the wall-clock watchdog"
    elif "Crash" in names:
        what, text = "crash", "child process died: %s" % [e for e in block if e.get("e") == "Crash"][0]
    elif ev.get("e") == "Done" and (ev.get("fin") != 1 or "nan" in ev.get("evals", []) or ev.get("bvar") != "fin"):
        what, text = "nan", "returned model has non-finite entries / explained variance: %s" % json.dumps(ev)
    elif ev.get("e") == "Done":
        what, text = "identity", "returned components disagree with the exact rank %s..%s or a ledger bound: %s" % (head.get("rlo"), head.get("rank"), json.dumps(ev))
    else:
        what, text = "identity", "event is not a step of the model: %s" % json.dumps(ev)
    return "TERM:%s:%s:%s" % (site, what, kind), "%s case %s (%s): %s" % (site, head.get("id"), kind, text)


def run_cases(ctx, cases, budget, child_timeout, maxdiv, label):
    lib = build.build_lib("san")
    exe = build.build_harness("c18", ["c18_drv.c"], lib)
    rd = tlc.rundir()
    byid = {c["id"]: c for c in cases}
    try:
        nproc = max(1, min(PAR, len(cases) // 50 + 1))
        parts = [cases[i::nproc] for i in range(nproc)]
        jobs = []
        for i, p in enumerate(parts):
            cf = os.path.join(rd, "cases%d.txt" % i)
            with open(cf, "w") as f:
                f.write("\n".join(case_line(c) for c in p) + "\n")
            jobs.append([cf, os.path.join(rd, "t%d.ndjson" % i), budget, child_timeout, maxdiv])
        res = hrun.run_many(exe, jobs, timeout=3000, workers=PAR)
        events, skipped, diverged = [], 0, 0
        for j, h in zip(jobs, res):
            if h.timed_out or h.rc != 0 or "SUMMARY" not in h.out:
                raise InfraError("c18 harness failed (rc=%s):\n%s" % (h.rc, (h.err or h.out)[-1500:]))
            kv = dict(t.split("=") for t in h.out.split("SUMMARY", 1)[1].split())
            skipped += int(kv["skipped"])
            diverged += int(kv["diverged"])
            events += hrun.read_ndjson(j[1])
        blocks = tlc.split_blocks(events)
        if not blocks:
            raise InfraError("c18 harness produced no events")
        need_iter = any(c["site"] in ("PCA", "PLS", "CPCA") and c["rank"] > 0 and c["rlo"] > 0 for c in cases)
        if need_iter and not any(e.get("e") == "Iter" for e in events):
            raise InfraError("no Iter events: hook H4 is not firing (hooks removed or guard off)")
        ctx.note("%s: %d cases run in child processes (%d skipped after %d diverging cases per (site, kind)), %d events" % (label, len(blocks), skipped, maxdiv, len(events)))
        unguarded = set()
        for b in blocks:
            c = byid.get(b[0].get("id"))
            if c is None:
                raise InfraError("unknown case id in trace: %s" % b[0])
            ctx.case((c["site"], c["rank"], c["npc"] - c["rank"], c["kind"], c["nr"], c["nc"], c["scaling"]), NONTRIVIAL(c))
            for e in b:
                if e.get("e") == "Iter" and (e["a"] != "Fin" or e["b"] != "Fin"):
                    unguarded.add(e["site"])
        for b in blocks:
            if NONTRIVIAL(byid[b[0]["id"]]) and len(b) > 3:
                ctx.sample(dict(case=byid[b[0]["id"]], events=b[:12]), 4)
        # (V) variant agreement
        if unguarded:
            ctx.note("variant implemented by the code: UNGUARDED at %s (passes on null / non-finite vectors were recorded) - the model predicts the lasso there" % sorted(unguarded))
        ctx.steps["variant_" + label] = dict(unguarded_sites=sorted(unguarded), diverged_cases=diverged, skipped_cases=skipped)

        def on_reject(ev, idx, block):
            sig, what = _sig(block, ev)
            c = byid.get(block[0].get("id")) if block and block[0].get("e") == "Reset" else None
            ctx.violation(sig, what, dict(kind="case", case=c, events=block[:14]))

        def is_suspect(b):
            return any(e.get("e") in ("Diverge", "Hang", "Crash") or
                       (e.get("e") == "Done" and (e.get("fin") != 1 or "nan" in e.get("evals", []) or e.get("bvar") != "fin")) for e in b)
        suspect = [b for b in blocks if is_suspect(b)]
        clean = [b for b in blocks if not is_suspect(b)]
        # diverging / non-finite executions: TLC decides on the first block of every signature that no action matches; the other blocks of
        # the same signature (there can be thousands on a tree without guards) are counted, not re-validated
        firsts = {}
        for b in suspect:
            firsts.setdefault(_sig(b, [e for e in b if e.get("e") == "Done"][-1] if any(e.get("e") == "Done" for e in b) else b[-1])[0], b)
        if firsts:
            ev = [e for b in firsts.values() for e in b]
            n = trace.check_trace(ctx, "TraceNipals", "Trace_Nipals.cfg", "Trace_Nipals_prop.cfg", ev, on_reject, drop="block", max_rounds=len(firsts) + 2,
                                  label="trace_nipals_diverging_" + label)
            if n != len(firsts):
                raise InfraError("a diverging / non-finite execution was accepted by TraceNipals (%d rejected of %d)" % (n, len(firsts)))
        CH = 4000
        chunks = [[e for b in clean[i:i + CH] for e in b] for i in range(0, len(clean), CH)]
        with ThreadPoolExecutor(max(1, min(4, PAR // 2))) as ex:
            list(ex.map(lambda t: trace.check_trace(ctx, "TraceNipals", "Trace_Nipals.cfg", "Trace_Nipals_prop.cfg", t[1], on_reject, drop="block", max_rounds=16,
                                                     label="trace_nipals_%s_%d" % (label, t[0]), timeout=1500, xmx="4g"), enumerate(chunks)))
        ctx.traces(len(clean) + len(firsts))
        return blocks, clean
    finally:
        shutil.rmtree(rd, ignore_errors=True)


def run(ctx):
    ctx.assumptions += [
        "TLC explores Nipals.tla exhaustively within rank 0..3 (4), components 1..5 (6), contraction budget 3 (5) only; the class transfer function of a pass was transcribed from pca.c / pls.c / cpca.c by hand",
        "hook H4 is called once per pass of the three while(1) loops with (t't | u'u, normaliser, convergence value); components returned without any pass are reported as `Null` by the harness",
        "non-termination of the real code is decided by an iteration budget (1e5 passes quick / 1e6 thorough) or, for routines without a hook, a 20 s wall-clock watchdog per child",
        "a returned component counts as zero-variance when its explained variance is <= 1e-9 percent (rounding noise left by deflation is ~1e-28); ledger residuals are computed by the harness in double precision, TLC compares them with TolAlg = 1e-8",
        "PLS: the exact number of latent variables (Krylov dimension of X_c'X_c, X_c'y_c) is computed by TLC for one response; for two responses only the first latent variable is claimed; past that count a returned component must be finite, nothing else (it may be built on rounding noise while X has rank left)",
        "ASan/UBSan build; every fit in its own forked child with one processor forced (hook H2)",
    ]
    model_check(ctx)
    recs = generate(ctx)
    cases = build_cases(ctx, recs)
    ctx.note("%d cases (PCA %d, PLS %d, CPCA %d, MLR-LOO %d, k-means %d, Nelder-Mead %d)" % ((len(cases),) + tuple(sum(1 for c in cases if c["site"] == s)
             for s in ("PCA", "PLS", "CPCA", "MLRLOO", "KMEANS", "NM"))))
    budget = 100000 if ctx.quick else 1000000
    blocks, clean = run_cases(ctx, cases, budget, 8 if ctx.quick else 20, 1 if ctx.quick else 3, "main")
    ctx.cov["rule"] = ("inputs enumerated by TLC (NipalsGen: matrices <= 3x3 over {-1,0,1}%s, dyadic perturbations 2^-3, all responses in {0,1}^rows) crossed with component "
                       "requests 1..cols and cols+2 (cols+1 is clamped to the same fit) / block splits / cluster counts; a case = one fit in a child process keyed by (site, exact rank, npc - rank, kind, shape, scaling); "
                       "non-trivial = more components than rank, rank 0, constant response, no covariance, constant block, duplicate rows or rank-deficient design"
                       % (", shapes with > 4 cells sampled deterministically" if ctx.quick else ", complete"))
    ctx.cov["exhaustive"] = not ctx.quick
    if not ctx.quick and clean:
        # binding self-test: delete the last Done -> the trace must be rejected
        sel = [b for b in clean if any(e.get("e") == "Done" for e in b)][:50]

        def corrupt(ev):
            for i in range(len(ev) - 1, -1, -1):
                if ev[i].get("e") == "Done":
                    del ev[i]
                    return True
            return False
        trace.binding_selftest(ctx, "TraceNipals", "Trace_Nipals_prop.cfg", [e for b in sel for e in b] + [dict(sel[0][0])] if sel else [], corrupt, "binding_done")


def replay(ctx, body):
    case = (body.get("case") or {}).get("case")
    if not case:
        return run(ctx)
    c = dict(case)
    blocks, clean = run_cases(ctx, [c], 1000000, 30, 1, "replay")
    ctx.case(("replay2", c["site"], c["kind"]))
    ctx.sample(dict(case=c, events=blocks[0][:14]))
