"""C17 - object selection and k-means return valid, optimal-by-construction results.

(M)  Select.tla: max-min selection on integer points with exact distances (squared Euclidean / Manhattan, rational centroid),
     ties as sets of admissible picks; TLC checks for every small point set, every size and both metrics that the code's
     lowest-index tie-break yields an admissible selection (ImplIsAdmissible), that the linear / rank-based forms used for
     trace validation agree with the set-based definitions, and that admissibility is invariant under translating / scaling
     the data (AffineInvariant - the licence for judging translated inputs on the logged integer points).
     Lloyd.tla: KMeans() as an exact rational machine (assignment to a nearest centroid, mean update, restart of empty
     clusters at any object, stop on the ABSOLUTE 1e-3 centroid movement): on every small point set, every k, every choice
     of start objects TLC proves PostHolds (labels in range, centroid = mean of its members, every object at a nearest
     returned centroid), CostMonotone, CapNeedsRestart, StopIsFixedPoint, and REFUTES PostHolds for the two loop variants
     the model also carries: the pinned tree's test-before-assignment and the relative tolerance 1e-3 max(1, |coordinate|)
     on data translated by 1e6 (which is indistinguishable on data at the origin: MC_Lloyd_reltol0).
(C)  replay: every point set TLC enumerated is run through MaxDis and MaxDis_Fast (every size, metrics 0/1), MDC, and - for
     distinct points - KMeansppCenters and KMeans; a stride of them a second time translated by 1e3 / 1e5 / 1e6 per column
     (signs mixed) and scaled by 10^0..10^3 (exactly representable: TLC keeps recomputing every distance from the integers);
     validate: seeded integer point sets in general position (3..80 objects x 1..6 variables, sizes 1..objects,
     k <= min(6, objects), initialisers 0..3, three metrics, 1..8 threads) and CLASS-DIRECTED sets (INPUT-CLASSES.md):
     K1 wide / square / n = p +- 1 / one variable, K2 object counts around 8, 16, 32, 64, K3 offsets 1e3, 1e5, 1e6 x K4
     scales 1e-3..1e3 (pure scale 1e-6..1e6), K5 decimal scales (0.1 k, 0.001 k are not representable), K6 thread counts
     dividing / not dividing / exceeding the object count, K7 outputs already sized for another k and a point set run
     again after another shape in the same process, K8 the tie-rich grid sets.  The harness only logs what the library
     returned (plus distance RANKS beyond 12 objects, for the cosine metric and for translated data, centroid*count in
     the units of the logged integers with its rounding residual, and the nearest-centroid slack in absolute units);
     TLC validates every selection with Admissible / AdmissibleR, MaxDis = MaxDis_Fast, the k-means bookkeeping and the
     nearest-centroid bound 2 sqrt(dim) 1e-3 (ABSOLUTE; translated data add only the representability terms of
     Affine.tla, functions of the logged offsets / scale), and thread independence against TraceSelect.tla.
     Hook H6 records every Lloyd iteration of the k-means runs on the enumerated and on tiny seeded sets; TraceLloyd.tla
     replays them in exact arithmetic (each is a Lloyd step, the loop ends only within 1e-3 or at the cap, the returned
     labels are the last step's) - deviations there are EXTRA-FINDINGs, not verdicts (the statement is about the result).
Requests outside the quantifier (more selections than objects, k-means++ on duplicate rows) are never generated.
"""
import copy, json, os, shutil
from concurrent.futures import ThreadPoolExecutor
from vf import build, tlc, trace
from vf import run as hrun
from vf.core import InfraError
from checks.deferred import Deferred

LEVEL = "model_checking"
READY = True
TECHNIQUE = ("TLC model checking of Select.tla (max-min selection with tie sets on all small integer point sets, both metrics, every size; invariance under "
             "translation / scaling) and Lloyd.tla (k-means as an exact rational machine: postcondition, cost monotonicity, refutation of the two broken loop variants) "
             "+ TLC trace validation of the selections, k-means labels/centroids, thread-independence / reuse flags and every recorded Lloyd iteration from the real "
             "MDC/MaxDis/MaxDis_Fast/KMeansppCenters/KMeans on the TLC-enumerated point sets, on seeded integer point sets and on class-directed sets "
             "(shape relations, block boundaries, offsets 1e3..1e6 x scales 1e-3..1e3, thread-count relations, output reuse, in-process histories)")
LEVEL_TEXT = ("Selection on integer data is model-checked exhaustively within the stated bounds and every selection the real library returned on the "
              "enumerated and on the seeded point sets is re-derived by TLC from the logged integer points (or distance ranks) - greedy-step optimality, "
              "first pick, distinctness, range, agreement of the two implementations.  The k-means loop is model-checked as an exact machine on all small point sets "
              "and its recorded iterations on the enumerated / tiny sets are replayed exactly.  The k-means nearest-centroid tolerance part on seeded data "
              "(slack computed by the harness in double precision, bound and representability terms evaluated by TLC), the cosine metric and the translated / scaled "
              "selections (ranks computed by the harness in double precision) are exploration.")
LEVEL_NOTE = ("Trusts TLC, the harness's projection (object numbers, integer points, dense distance ranks computed with the library's own distance "
              "definitions on the matrix the library sees - C13 pins those -, centroid*count back-transformed in extended precision, Euclidean nearest-centroid "
              "slack in double precision), hooks H3 (iteration count) and H6 (Lloyd iterations), ASan/UBSan as memory monitor.  5 points on the {0..3}^2 grid are "
              "beyond the budget (10.5 million cases): the thorough tier checks 3..5 points on {0..2}^2 and 3..4 points on {0..3}^2; Lloyd.tla: 3 points (quick), "
              "4 points (thorough) up to the order of the objects.  Input classes left out because the quantifier excludes them: K9 (the statement does not mention "
              "missing values), K10 (labels are outputs; there is no label input), K8 beyond what TLC enumerates (duplicate rows / exact ties are not 'general position': "
              "they are covered on the enumerated grid sets with tie SETS, never on seeded data), constant columns (K5/K8: not general position), selection vectors "
              "that are not empty on entry (K7: the routines append by design), k-means++ / MaxDis_Fast with more selections than objects, per-column unit systems "
              "(the Euclidean geometry is not equivariant under them), offsets beyond 1e6 at a 1e-3 resolution (the rounded centroid sum would stop being unambiguous).  "
              "K6: the five routines take the thread count as a parameter (1..8 by the quantifier; generated dividing / not dividing / exceeding the object count) and reach no "
              "MT_* kernel, so the forced processor count (hook H2) is immaterial and pinned to 1.")

WORKERS = int(os.environ.get("VERIF_WORKERS", "6"))
LLOYD = ("KmStart", "KmInit", "KmIt", "KmEnd")


# ---------------------------------------------------------------- naming a rejected event (the verdict is TLC's)
def _dist(metric, X, i, j):
    if metric == 0:
        return sum((a - b) ** 2 for a, b in zip(X[i], X[j]))
    return sum(abs(a - b) for a, b in zip(X[i], X[j]))


def _ctxmap(events):
    m = {}
    cur = dict(pts=None, R={}, c=None, prev=None)
    for e in events:
        k = e["e"]
        if k == "Reset":
            cur = dict(pts=None, R={}, c=None, prev=None)
        elif k == "Points":
            cur = dict(pts=e, R={}, c=None, prev=None)
        elif k == "Ranks":
            cur = dict(cur, R=dict(cur["R"]))
            cur["R"][e["metric"]] = e["R"]
            cur["c"] = e["c"]
        m[id(e)] = cur
        if k == "Sel" and e["method"] == "MaxDis":
            cur = dict(cur, prev=e)
    return m


def _is_aff(pts):
    return bool(pts) and (any(pts.get("off", [])) or pts.get("sexp", 0) != 0)


def _sel_reason(e, c):
    X = c["pts"]["X"]
    N, seq, met = len(X), e["seq"], e["metric"]
    if len(seq) != e["n"] or any(v < 1 or v > N for v in seq):
        return "range"
    if len(set(seq)) != len(seq):
        return "distinct"
    if e["method"] not in ("MaxDis", "MaxDis_Fast"):
        return "range"
    usex = c["pts"]["exact"] == 1 and met < 2
    if usex:
        S = [sum(p[j] for p in X) for j in range(len(X[0]))]
        c2 = [sum((N * p[j] - S[j]) ** 2 for j in range(len(p))) for p in X]
    else:
        c2 = c["c"]
    if c2 is None:
        return "first"
    if not usex and _is_aff(c["pts"]):
        if c2[seq[0] - 1] < 0.999 * max(c2):        # naming only: TLC applied the exact tolerance
            return "first"
    elif c2[seq[0] - 1] != max(c2):
        return "first"
    D = (lambda i, j: _dist(met, X, i, j)) if usex else (lambda i, j: c["R"][met][i][j])
    mt = [D(i, seq[0] - 1) for i in range(N)]
    chosen = {seq[0] - 1}
    for x in seq[1:]:
        x -= 1
        if any(mt[j] > mt[x] for j in range(N) if j not in chosen):
            return "greedy"
        chosen.add(x)
        mt = [min(mt[i], D(i, x)) for i in range(N)]
    if e["method"] == "MaxDis_Fast":
        p = c["prev"]
        if p is None or p["metric"] != met or p["n"] != e["n"] or p["seq"] != seq:
            return "agree"
    if not usex and _is_aff(c["pts"]) and c2[seq[0] - 1] != max(c2):
        return "first"
    return "tie"


def _km_reason(e, c):
    X = c["pts"]["X"]
    k, lab = e["k"], e["labels"]
    if len(lab) != len(X) or any(v < 0 or v >= k for v in lab):
        return "labels"
    for cl in range(k):
        mem = [i for i, v in enumerate(lab) if v == cl]
        if e["cnt"][cl] != len(mem):
            return "centroid"
        if mem and any(e["cnum"][cl][j] != sum(X[i][j] for i in mem) for j in range(len(X[0]))):
            return "centroid"
    if _is_aff(c["pts"]):
        if e["slack"] <= 2 * 1000 * len(X[0]) ** 0.5:       # naming only: inside the bound -> it was the mean residual
            return "centroid"
    elif e["cerr"] > 1000:
        return "centroid"
    return "nearest"


def _where(pts):
    if not pts:
        return "?"
    s = "point set %s (%dx%d)" % (pts["id"], len(pts["X"]), len(pts["X"][0]))
    if _is_aff(pts):
        s += " handed over as off + x*10^%d, off=%s" % (pts.get("sexp", 0), pts.get("off"))
    if pts.get("hist"):
        s += " [history step %d]" % pts["hist"]
    return s


def _sig(e, cm):
    c = cm.get(id(e))
    k = e["e"]
    pts = c["pts"] if c else None
    where = _where(pts)
    if k == "Sel":
        why = _sel_reason(e, c)
        what = {"range": "does not hold the requested number of in-range object numbers", "distinct": "holds an object twice",
                "first": "first element is not an object farthest from the centroid", "greedy": "an element does not maximise the minimum distance to the objects chosen before it",
                "agree": "MaxDis_Fast differs from MaxDis", "tie": "tie-break differs"}[why]
        return "SELECT:%s:%s" % (e["method"], why), "%s metric %d n=%d threads=%d: %s returned %s: %s" % (where, e["metric"], e["n"], e["th"], e["method"], e["seq"], what)
    if k == "Km":
        why = _km_reason(e, c)
        what = {"labels": "a label is outside 0..k-1", "centroid": "a centroid is not the mean of the objects carrying its label",
                "nearest": "an object is not labelled by a nearest centroid within 2 sqrt(dim) 1e-3 absolute (slack %s%.6f)" % (">= " if e["slack"] >= 40000 else "", e["slack"] * 1e-6)}[why]
        return "KMEANS:%s" % why, "%s k=%d initialiser=%d threads=%d%s: %s" % (where, e["k"], e["init"], e["th"], " (outputs reused)" if e.get("reuse") else "", what)
    if k == "KmTh":
        return "KMEANS:threads", "%s k=%d initialiser=%d: labels/centroids with %d threads differ from the one-thread run" % (where, e["k"], e["init"], e["th"])
    if k == "Crash":
        call = e.get("call", "?")
        name = call.split("(")[0]
        area = "KMEANS" if name == "KMeans" else "SELECT:%s" % name
        return "%s:crash" % area, "%s: %s %s" % (where, call, "did not return within the watchdog" if e.get("rc") == 124 else "died (rc=%s)" % e.get("rc"))
    return "SELECT:trace:%s" % k, "unexpected event %s" % json.dumps(e)[:200]


def _pts_line(i, c):
    X = c["X"]
    return "%d %d %d %d %s\n" % (i, len(X), len(X[0]), c["distinct"], " ".join(str(v) for row in X for v in row))


def _run_harness(exe, jobs, what, workers=None):
    res = hrun.run_many(exe, jobs, timeout=2400, workers=workers or WORKERS)
    events, errs = [], []
    for j, h in zip(jobs, res):
        ev = hrun.read_ndjson(j[0])
        if h.timed_out:
            raise InfraError("c17 harness timed out (%s)" % what)
        if h.rc != 0:
            raise InfraError("c17 harness parent failed rc=%d (%s): %s" % (h.rc, what, h.err[-1500:]))
        events += ev
        errs.append(h.err)
    return events, "\n".join(errs)


def _chunks(events, parts):
    blocks = tlc.split_blocks(events)
    tot = sum(len(b) for b in blocks)
    out, cur, acc = [], [], 0
    for b in blocks:
        cur += b
        acc += len(b)
        if acc >= tot / parts and len(out) < parts - 1:
            out.append(cur)
            cur, acc = [], 0
    if cur:
        out.append(cur)
    return out


def _split(events):
    """-> (events for TraceSelect incl. the Hist verdict events of class K7, events for TraceLloyd)"""
    sel, ll = [], []
    blocks = tlc.split_blocks(events)
    first = {}
    for b in blocks:
        pts = b[1] if len(b) > 1 and b[1]["e"] == "Points" else None
        s = [e for e in b if e["e"] not in LLOYD]
        if pts is not None and pts.get("hist") == 1:
            first[pts["id"]] = [e for e in s[2:] if e["e"] != "Crash"]
        if pts is not None and pts.get("hist") == 3 and pts["id"] in first:
            # class K7: the point set run again after another shape in the same process must return what it returned first
            s.append(dict(e="Hist", same=1 if [e for e in s[2:] if e["e"] != "Crash"] == first.pop(pts["id"]) else 0))
        sel += s
        crashed = any(e["e"] == "Crash" for e in b)
        if pts is not None and any(e["e"] == "KmStart" for e in b) and not crashed:
            ll += [e for e in b if e["e"] in ("Reset", "Points") + LLOYD]
    return sel, ll


def _validate(ctx, events, san_text, label, replay_of, parts):
    if not events:
        raise InfraError("c17 harness produced no events (%s)" % label)
    cm = _ctxmap(events)
    sanlines = [l for l in san_text.splitlines() if "SUMMARY:" in l or "runtime error:" in l]

    order = {id(e): i for i, e in enumerate(events)}
    found = []                      # chunks are validated concurrently: report in trace order so that the witness is reproducible

    def on_reject(e, idx, block):
        if e["e"] in ("Points", "Ranks", "Reset"):
            raise InfraError("harness projection rejected by TraceSelect (%s): %s" % (e["e"], json.dumps(e)[:300]))
        sig, what = _sig(e, cm)
        if e["e"] == "Crash" and sanlines:
            what += " [" + sanlines[0].strip()[:200] + "]"
        found.append((order[id(e)], sig, what, replay_of(cm[id(e)]["pts"], e)))
        return lambda x: x["e"] == e["e"] and _sig(x, cm)[0] == sig
    chunks = _chunks(events, parts)

    def one(a):
        i, ch = a
        return trace.check_trace(ctx, "TraceSelect", "Trace_Select.cfg", "Trace_Select_prop.cfg", ch, on_reject, drop="event", label="%s_%d" % (label, i), max_rounds=16)
    with ThreadPoolExecutor(max(1, min(WORKERS, len(chunks)))) as ex:
        rej = sum(ex.map(one, enumerate(chunks)))
    for _, sig, what, rp in sorted(found, key=lambda t: t[0]):
        ctx.violation(sig, what, rp)
    ctx.traces(sum(1 for e in events if e["e"] == "Reset"))
    return rej


def _lloyd_reason(e, block):
    k = e["e"]
    if k == "KmEnd":
        return "stop", "KMeans() returned although a centroid coordinate moved by more than the documented 1e-3 in its last iteration (or the returned labels / iteration count are not the last step's)"
    if k == "KmIt":
        return "step", "a recorded iteration is not an assignment-to-a-nearest-centroid / mean-update step of the previous centroids"
    if k == "KmInit":
        return "start", "the centroids of the first assignment step are not rows of the data set"
    return "trace", "unexpected %s event" % k


def _validate_lloyd(ctx, events, label, parts):
    """the Lloyd layer is not in C17's statement: a rejection is an EXTRA-FINDING, never a verdict"""
    if not events:
        return 0
    chunks = _chunks(events, parts)

    def on_reject(e, idx, block):
        if e["e"] in ("Points", "Reset"):
            raise InfraError("harness projection rejected by TraceLloyd (%s): %s" % (e["e"], json.dumps(e)[:300]))
        why, what = _lloyd_reason(e, block)
        pts = next((x for x in block if x["e"] == "Points"), None)
        st = None
        for x in block:
            if x["e"] == "KmStart":
                st = x
            if x is e:
                break
        ctx.extra("KMEANS:lloyd:%s" % why, "%s%s: %s (event %s)" % (_where(pts), " k=%d initialiser=%d" % (st["k"], st["init"]) if st else "", what, json.dumps(e)[:160]))
        return "dup"

    def one(a):
        i, ch = a
        return trace.check_trace(ctx, "TraceLloyd", "Trace_Lloyd.cfg", "Trace_Lloyd_prop.cfg", ch, on_reject, drop="block", label="%s_%d" % (label, i), max_rounds=8)
    with ThreadPoolExecutor(max(1, min(WORKERS, len(chunks)))) as ex:
        rej = sum(ex.map(one, enumerate(chunks)))
    ctx.traces(sum(1 for e in events if e["e"] == "KmStart"))
    return rej


# ---------------------------------------------------------------- evidence accounting: cases and input classes
def _shape_tags(pts):
    n, d = len(pts["X"]), len(pts["X"][0])
    t = []
    if d == 1:
        t.append("K1:single-variable")
    if n < d:
        t.append("K1:wide")
    elif n == d:
        t.append("K1:square")
    elif n == d + 1:
        t.append("K1:n=p+1")
    else:
        t.append("K1:tall")
    if n == d - 1:
        t.append("K1:n=p-1")
    if n % 32 == 0:
        t.append("K2:n=32m")
    elif n % 32 in (1, 31):
        t.append("K2:n=32m+-1")
    elif n % 8 == 0:
        t.append("K2:n=8m")
    elif n % 8 in (1, 7) and n > 8:
        t.append("K2:n=8m+-1")
    off = max([abs(v) for v in pts.get("off", [0])] or [0])
    sexp = pts.get("sexp", 0)
    if off:
        t.append("K3:offset=1e%d" % (len(str(off)) - 1))
        if any(v == 0 for v in pts["off"]) or len({v for v in pts["off"]}) > 1:
            t.append("K3:mixed-columns")
    if sexp:
        t.append("K4:scale=1e%d" % sexp)
    if sexp < 0:
        t.append("K5:decimal-values")
    if pts.get("shifted"):
        t.append("K3:farthest-object-at-origin")
    if pts.get("grid"):
        t.append("K8:tied-distances")
        if not pts.get("distinct"):
            t.append("K8:duplicate-rows")
    if pts.get("hist"):
        t.append("K7:history-%s" % {1: "first", 2: "other-shape", 3: "again"}[pts["hist"]])
    if pts.get("tiny"):
        t.append("K1:tiny-exact-lloyd")
    if pts.get("corner"):
        t.append("K3:far-corner-offset/resolution>=1e7")
    return t


def _th_tag(n, th):
    if th == 1:
        return "K6:threads=1"
    if th > n:
        return "K6:threads>objects"
    return "K6:threads-dividing" if n % th == 0 else "K6:threads-not-dividing"


def _account(ctx, events, tag):
    cur, tags, n = None, [], 0
    for e in events:
        k = e["e"]
        if k == "Points":
            cur = (tag, e["id"], e.get("shifted", 0), e.get("sexp", 0), tuple(e.get("off", ())), e.get("hist", 0))
            tags, n = _shape_tags(e), len(e["X"])
            continue
        extra = []
        if k == "Sel":
            ctx.case(("S", cur, e["method"], e["metric"], e["n"], e["th"]), e["n"] >= 2)
            extra = [_th_tag(n, e["th"])] + (["K1:size=1"] if e["n"] == 1 else []) + (["K1:size=objects"] if e["n"] == n else [])
        elif k == "Km":
            ctx.case(("K", cur, e["k"], e["init"], e.get("reuse", 0)), e["k"] >= 2)
            extra = ["K1:k=1"] if e["k"] == 1 else (["K1:k=max"] if e["k"] == min(6, n) else [])
            if e.get("reuse"):
                extra.append("K7:reused-outputs")
        elif k == "KmTh":
            ctx.case(("T", cur, e["k"], e["init"], e["th"]), e["k"] >= 2)
            extra = [_th_tag(n, e["th"])]
        elif k == "KmRe":
            ctx.case(("R", cur, e["k"], e["init"]), e["k"] >= 2)
            extra = ["K7:reused-outputs"]
        elif k == "Hist":
            ctx.case(("H", cur), True)
        elif k == "KmEnd":
            ctx.case(("L", cur, e.get("_k"), e.get("_init")), True)
        else:
            continue
        for t in tags + extra:
            ctx.cls(t)


_PENDING = []


def _binding(ctx, module, cfg, blk, corrupt, label):
    if blk is None:
        raise InfraError("binding self-test %s: the recording holds no block to corrupt (a class of the generator disappeared)" % label)
    _PENDING.append(lambda: trace.binding_selftest(ctx, module, cfg, blk, corrupt, label))


def _run_pending():
    todo = list(_PENDING)
    del _PENDING[:]
    with ThreadPoolExecutor(max(1, min(WORKERS, len(todo) or 1))) as ex:
        for f in [ex.submit(t) for t in todo]:
            f.result()          # an InfraError of a self-test (binding lost) propagates


def _first(ev, pred):
    for e in ev:
        if pred(e):
            return e
    return None


def _selftests(ctx, sel_rand, sel_cls, ll):
    """corrupt one recorded field per event kind: TLC must reject"""
    P, I = "Trace_Select_prop.cfg", "Trace_Select.cfg"
    blk = next((b for b in tlc.split_blocks(sel_rand) if b[1]["e"] == "Points" and b[1]["exact"] == 1 and len(b[1]["X"]) >= 5
                and any(e["e"] == "Sel" and e["method"] == "MaxDis" and e["n"] >= 3 for e in b) and any(e["e"] == "Km" and e["k"] >= 2 for e in b)), None)
    if blk is not None:
        def corrupt_sel(ev):
            e = _first(ev, lambda e: e["e"] == "Sel" and e["method"] == "MaxDis" and e["n"] >= 3)
            e["seq"][0], e["seq"][1] = e["seq"][1], e["seq"][0]
            return True
        _binding(ctx, "TraceSelect", P, blk, corrupt_sel, "binding_selection")

        def corrupt_km(ev):
            _first(ev, lambda e: e["e"] == "Km" and e["k"] >= 2)["cnum"][0][0] += 1
            return True
        _binding(ctx, "TraceSelect", P, blk, corrupt_km, "binding_kmeans")
    blocks = tlc.split_blocks(sel_cls)
    aff = next((b for b in blocks if b[1]["e"] == "Points" and _is_aff(b[1]) and len(b[1]["X"]) >= 5
                and any(e["e"] == "Km" and e["k"] >= 2 and e["conv"] == 1 for e in b) and any(e["e"] == "Sel" and e["method"] == "MaxDis" and e["n"] >= 2 for e in b)), None)

    def c_slack(ev):        # just beyond 2 sqrt(6) 1e-3 + the largest representability term: the ABSOLUTE bound must bite whatever the offset
        _first(ev, lambda e: e["e"] == "Km" and e["k"] >= 2 and e["conv"] == 1)["slack"] = 5100
        return True
    _binding(ctx, "TraceSelect", P, aff, c_slack, "binding_affine_slack")

    def c_cres(ev):
        e = _first(ev, lambda e: e["e"] == "Km" and e["k"] >= 2)
        e["cres"][[i for i, c in enumerate(e["cnt"]) if c > 0][0]] += 100000000
        return True
    _binding(ctx, "TraceSelect", P, aff, c_cres, "binding_affine_mean")

    def c_first(ev):
        c = _first(ev, lambda e: e["e"] == "Ranks")["c"]
        e = _first(ev, lambda e: e["e"] == "Sel" and e["method"] == "MaxDis" and e["n"] >= 2)
        lo = c.index(min(c)) + 1
        j = e["seq"].index(lo) if lo in e["seq"] else None
        if j is not None:
            e["seq"][j] = e["seq"][0]
        e["seq"][0] = lo
        return True
    _binding(ctx, "TraceSelect", P, aff, c_first, "binding_affine_first")

    def c_off(ev):          # an offset the specification's arithmetic does not admit must be refused, not silently accepted
        ev[1]["off"][0] = 2000000
        return True
    _binding(ctx, "TraceSelect", P, aff, c_off, "binding_affine_offset")
    re_blk = next((b for b in blocks if any(e["e"] == "KmRe" for e in b)), None)

    def c_re(ev):
        _first(ev, lambda e: e["e"] == "KmRe")["same"] = 0
        return True
    _binding(ctx, "TraceSelect", I, re_blk, c_re, "binding_reuse")
    h_blk = next((b for b in blocks if any(e["e"] == "Hist" for e in b)), None)

    def c_hist(ev):
        _first(ev, lambda e: e["e"] == "Hist")["same"] = 0
        return True
    _binding(ctx, "TraceSelect", I, h_blk, c_hist, "binding_history")
    # ---- Lloyd iterations
    LP = "Trace_Lloyd_prop.cfg"
    lb = next((b for b in tlc.split_blocks(ll) if any(e["e"] == "KmStart" and e["k"] >= 2 for e in b)), None)

    def upto(ev, pred):     # keep the block up to and including the first complete run that satisfies pred
        out, run, ok = [], [], False
        for e in ev:
            if e["e"] in ("Reset", "Points"):
                out.append(e)
                continue
            run.append(e)
            if e["e"] == "KmEnd":
                if pred(run):
                    return out + run
                run = []
        return None

    def c_label(ev):
        r = upto(ev, lambda run: run[0]["k"] >= 2)
        ev[:] = r
        e = _first(ev, lambda e: e["e"] == "KmIt")
        e["labels"][0] = (e["labels"][0] + 1) % _first(ev, lambda e: e["e"] == "KmStart")["k"]
        return True
    _binding(ctx, "TraceLloyd", LP, lb, c_label, "binding_lloyd_step")

    def c_end(ev):
        _first(ev, lambda e: e["e"] == "KmEnd")["iters"] += 1
        return True
    _binding(ctx, "TraceLloyd", LP, lb, c_end, "binding_lloyd_end")

    def c_init(ev):
        _first(ev, lambda e: e["e"] == "KmInit")["obj"][0] = 0
        return True
    _binding(ctx, "TraceLloyd", LP, lb, c_init, "binding_lloyd_start")

    def c_start(ev):
        _first(ev, lambda e: e["e"] == "KmStart")["k"] = len(ev[1]["X"]) + 1
        return True
    _binding(ctx, "TraceLloyd", LP, lb, c_start, "binding_lloyd_k")
    multi = next((b for b in tlc.split_blocks(ll) if upto(b, lambda run: sum(1 for e in run if e["e"] == "KmIt") >= 2 and run[0]["k"] >= 2) is not None), None)

    def c_stop(ev):         # a run cut short while its centroids still moved: the stopping rule must reject it
        r = upto(ev, lambda run: sum(1 for e in run if e["e"] == "KmIt") >= 2 and run[0]["k"] >= 2)
        its = [i for i, e in enumerate(r) if e["e"] == "KmIt"]
        last_run_start = max(i for i, e in enumerate(r) if e["e"] == "KmStart")
        its = [i for i in its if i > last_run_start]
        end = r[-1]
        end["iters"] = len(its) - 1
        end["labels"] = list(r[its[-2]]["labels"])
        del r[its[-1]]
        ev[:] = r
        return True
    _binding(ctx, "TraceLloyd", LP, multi, c_stop, "binding_lloyd_stop")
    _run_pending()


def _tag_lloyd(ll):
    cur = None
    for e in ll:
        if e["e"] == "KmStart":
            cur = e
        elif e["e"] == "KmEnd" and cur is not None:
            e["_k"], e["_init"] = cur["k"], cur["init"]


def _untag(ll):
    return [{k: v for k, v in e.items() if not k.startswith("_")} for e in ll]


def _model(ctx, q):
    r0 = tlc.run("Select", "MC_Select_forms.cfg", workers=WORKERS, timeout=1500)
    ctx.add_tlc(r0, "mc_select_forms")
    if not r0.ok:
        raise InfraError("Select.tla (forms): invariant %s fails in the model itself:\n%s" % (r0.violation, r0.trace_text[:1500]))
    r = tlc.run("Select", "MC_Select_quick.cfg" if q else "MC_Select_thorough.cfg", workers=WORKERS, timeout=3000)
    ctx.add_tlc(r, "mc_select")
    if not r.ok:
        raise InfraError("Select.tla: invariant %s fails in the model itself:\n%s" % (r.violation, r.trace_text[:1500]))
    if r.zero_actions() or r0.zero_actions():
        raise InfraError("Select.tla: actions never taken: %s" % (r.zero_actions() + r0.zero_actions()))
    sets = sorted(r.emits, key=lambda c: json.dumps(c["X"]))      # TLC's print order depends on worker scheduling
    if not sets:
        raise InfraError("Select.tla GEN emitted no point sets")
    ctx.note("model: %d (point set, size, metric) states, ImplIsAdmissible holds; %d point sets emitted for replay" % (r.distinct, len(sets)))
    if not q:
        r3 = tlc.run("Select", "MC_Select_thorough_g3.cfg", workers=WORKERS, timeout=3000)
        ctx.add_tlc(r3, "mc_select_grid3")
        if not r3.ok:
            raise InfraError("Select.tla (grid 3): invariant %s fails in the model itself:\n%s" % (r3.violation, r3.trace_text[:1500]))
    # ---- k-means as an exact machine
    holds = ["MC_Lloyd_quick.cfg", "MC_Lloyd_reltol0.cfg"] + ([] if q else ["MC_Lloyd_thorough.cfg", "MC_Lloyd_thorough_s3.cfg"])
    states = 0
    for cfg in holds:
        rl = tlc.run("Lloyd", cfg, workers=WORKERS, timeout=3000)
        ctx.add_tlc(rl, "mc_" + cfg[3:-4].lower())
        if not rl.ok:
            raise InfraError("Lloyd.tla (%s): invariant %s fails in the model itself:\n%s" % (cfg, rl.violation, rl.trace_text[:1500]))
        if rl.zero_actions():
            raise InfraError("Lloyd.tla (%s): actions never taken: %s" % (cfg, rl.zero_actions()))
        states += rl.distinct
    for cfg, why in (("MC_Lloyd_whiledo.cfg", "the pinned tree's loop (test before the first assignment)"), ("MC_Lloyd_reltol.cfg", "the relative tolerance on data translated by 1e6")):
        rl = tlc.run("Lloyd", cfg, workers=WORKERS, timeout=1500)
        ctx.add_tlc(rl, "mc_" + cfg[3:-4].lower() + "_refuted")
        if rl.ok or rl.violation != "PostHolds":
            raise InfraError("Lloyd.tla no longer refutes %s (%s): the model lost the distinction it exists for" % (why, cfg))
    ctx.note("model: Lloyd.tla %d states: PostHolds / CostMonotone / CapNeedsRestart / StopIsFixedPoint hold; both broken loop variants refuted" % states)
    ctx.cov["exhaustive"] = True
    return sets


def run(ctx):
    ctx.assumptions += [
        "TLC enumerates point sets only within the stated bounds (quick: 4 points on {0..2}^2, the half with even coordinate sum is replayed; thorough: 3..5 points on {0..2}^2 - every fifth by coordinate sum is replayed - and 3..4 points on {0..3}^2); Lloyd.tla: 3 (thorough: 4) points on {0..2}^2 up to the order of the objects, every k, every choice of start objects",
        "the harness logs object numbers, integer points and - beyond 12 objects, for the cosine metric and for translated / scaled data - dense ranks of the distances computed with the library's own distance definitions on the matrix the library sees; TLC re-derives first pick, greedy optimality, distinctness, range and MaxDis = MaxDis_Fast from them",
        "translated / scaled inputs are off_j + x_ij * 10^sexp with x integer: TLC judges on x (Select.tla: AffineInvariant); the first pick on such data is accepted within FirstTolQ of the largest logged centroid distance, centroid*count within TolMeanAff of the integer member sum (both functions of the logged offsets, scale and ranges, Affine.tla)",
        "k-means: centroid*count is rounded by the harness (residual logged), the Euclidean nearest-centroid slack is computed by the harness in double precision; TLC checks labels, member counts, exact member sums and the ABSOLUTE bound 2 sqrt(dim) 1e-3 (+ RepSlack6 for translated data); runs that hit the 100-iteration cap are not judged on the slack (this tolerance part is exploration)",
        "the recorded Lloyd iterations (hook H6) are replayed exactly only for the enumerated grid sets and tiny seeded sets (3..7 objects, |x| <= 20), and not for decimal scales at offset 1e6; deviations on that layer are EXTRA-FINDINGs",
        "requests outside the quantifier (more selections than objects, k-means++ with duplicate rows) are never generated",
        "all library calls for a point set (a three-step history in class K7) run in one child process under ASan/UBSan with a watchdog",
    ]
    q = ctx.quick
    lib = build.build_lib("san")
    exe = build.build_harness("c17", ["c17_drv.c"], lib)
    rd = tlc.rundir()
    bg = ThreadPoolExecutor(1)
    try:
        P = WORKERS
        # the seeded and the class-directed recordings do not depend on the model run: record them (two processes) while TLC works
        nrand = 36 if q else 720
        per = (nrand + P - 1) // P
        jobs_rand = [[os.path.join(rd, "rand%d.ndjson" % p), "rand", ctx.seed, p * per, min(per, nrand - p * per)] for p in range(P) if p * per < nrand]
        ncls = 60 if q else 600
        per = (ncls + P - 1) // P
        jobs_cls = [[os.path.join(rd, "cls%d.ndjson" % p), "cls", ctx.seed, p * per, min(per, ncls - p * per)] for p in range(P) if p * per < ncls]
        ncor = 48 if q else 480
        per = (ncor + P - 1) // P
        jobs_cor = [[os.path.join(rd, "cor%d.ndjson" % p), "corner", ctx.seed, p * per, min(per, ncor - p * per)] for p in range(P) if p * per < ncor]
        fut = bg.submit(lambda: _run_harness(exe, jobs_rand, "rand", 2) + _run_harness(exe, jobs_cls, "cls", 2) + _run_harness(exe, jobs_cor, "corner", 2))
        # ---- (M)
        try:
            sets = _model(ctx, q)
        except BaseException:
            fut.cancel()
            raise
        # ---- (C)
        jobs = []
        for p in range(P):
            fn = os.path.join(rd, "pts%d.txt" % p)
            with open(fn, "w") as f:
                for i, c in enumerate(sets):
                    if i % P == p:
                        f.write(_pts_line(i, c))
            # quick: reduced call set per point set and k-means on every 64th distinct point set; thorough: everything, k-means on every 16th;
            # every 32nd (16th) point set a second time translated / scaled up
            jobs.append([os.path.join(rd, "grid%d.ndjson" % p), "grid", fn, ctx.seed, 64 if q else 16, 0 if q else 1, 32 if q else 16])
        ev_grid, san1 = _run_harness(exe, jobs, "grid")
        if sum(1 for e in ev_grid if e["e"] == "Points" and not _is_aff(e)) != len(sets):
            raise InfraError("replay: %d point sets sent, %d reported" % (len(sets), sum(1 for e in ev_grid if e["e"] == "Points" and not _is_aff(e))))
        ev_rand, san2, ev_cls, san3, ev_cor, san4 = fut.result()
        sel_grid, ll_grid = _split(ev_grid)
        sel_rand, _ = _split(ev_rand)
        sel_cls, ll_cls = _split(ev_cls)
        sel_cor, _ = _split(ev_cor)
        ll = ll_grid + ll_cls
        _tag_lloyd(ll)
        _account(ctx, sel_grid, "grid")
        _account(ctx, sel_rand, "rand")
        _account(ctx, sel_cls, "cls")
        _account(ctx, sel_cor, "corner")
        _account(ctx, ll, "lloyd")
        ll = _untag(ll)
        allsel = sel_grid + sel_rand + sel_cls + sel_cor
        kms = [e for e in allsel if e["e"] == "Km"]
        km_crashed = any(e["e"] == "Crash" and e.get("call", "").startswith("KMeans(") for e in allsel)
        # vacuity findings are settled AFTER the trace validation: a changed KMeans() that takes another path (no iteration, no hook) must surface as its verdict
        deferred = Deferred(ctx)
        if (not kms or not any(e["iters"] > 0 for e in kms)) and not km_crashed:
            deferred.add("no k-means iteration was observed: hook H3 (getLabels_) is not firing")
        nit = sum(1 for e in ll if e["e"] == "KmIt")
        if nit == 0 and not km_crashed:
            deferred.add("no Lloyd iteration was recorded: hook H6 (VERIF_STATE in KMeans) is not firing")
        # vacuity of the new classes: the generator must really have produced them
        affpts = [e for e in sel_cls if e["e"] == "Points" and _is_aff(e)]
        need = {"K3 offset 1e6": any(max(abs(v) for v in e["off"]) == 1000000 for e in affpts), "K3 offset 1e3": any(max(abs(v) for v in e["off"]) == 1000 for e in affpts),
                "K4 scale < 1": any(e["sexp"] < 0 for e in affpts), "K4 scale > 1": any(e["sexp"] > 0 for e in affpts),
                "translated grid set": any(e["e"] == "Points" and _is_aff(e) for e in sel_grid), "K7 history": any(e["e"] == "Hist" for e in sel_cls),
                "K7 reuse": any(e["e"] == "KmRe" for e in sel_cls), "K1 wide": any(e["e"] == "Points" and len(e["X"]) < len(e["X"][0]) for e in sel_cls),
                "tiny set with Lloyd iterations": any(e["e"] == "Points" and e.get("tiny") for e in ll_cls),
                "K3 x K4 far corner": any(e.get("corner") for e in affpts) and any(e["e"] == "Km" for e in sel_cor)}
        if not all(need.values()) and not any(e["e"] == "Crash" for e in allsel):
            deferred.add("class-directed generator no longer emits: %s" % [k for k, v in need.items() if not v])
        ctx.steps["kmeans_runs"] = len(kms)
        ctx.steps["kmeans_runs_on_translated_or_scaled_data"] = sum(1 for b in tlc.split_blocks(allsel) if len(b) > 1 and b[1]["e"] == "Points" and _is_aff(b[1]) for e in b if e["e"] == "Km")
        ctx.steps["kmeans_iteration_cap_reached"] = sum(1 for e in kms if e["conv"] != 1)
        ctx.steps["kmeans_runs_with_empty_cluster"] = sum(1 for e in kms if e["empty"])
        ctx.steps["lloyd_runs_replayed"] = sum(1 for e in ll if e["e"] == "KmStart")
        ctx.steps["lloyd_iterations_replayed"] = nit
        ctx.steps["largest_slack_1e-6"] = max([e["slack"] for e in kms] + [0])
        ctx.steps["child_crashes"] = sum(1 for e in allsel if e["e"] == "Crash")
        ctx.steps["point_sets"] = dict(grid=len(sets), grid_translated=sum(1 for e in sel_grid if e["e"] == "Points" and _is_aff(e)),
                                       seeded=sum(1 for e in ev_rand if e["e"] == "Points" and not e.get("shifted")),
                                       class_directed=sum(1 for e in sel_cls if e["e"] == "Points"), far_corner=sum(1 for e in sel_cor if e["e"] == "Points"))
        for e in ev_rand:
            if e["e"] == "Points" and len(e["X"]) <= 6:
                ctx.sample(dict(e, what="seeded point set"), 2)
        for e in ev_rand:
            if e["e"] == "Sel" and e["method"] == "MaxDis" and 3 <= e["n"] <= 10:
                ctx.sample(dict(e, what="selection returned by the library"), 3)
        for e in ev_grid:
            if e["e"] == "Km" and e["k"] >= 2:
                ctx.sample(dict(e, what="k-means result on a TLC-enumerated point set"), 4)
                break
        ctx.sample(dict(sets[len(sets) // 2], what="point set emitted by TLC"), 5)
        for b in tlc.split_blocks(sel_cls):
            if _is_aff(b[1]) and len(b[1]["X"]) <= 6 and max(abs(v) for v in b[1]["off"]) >= 100000:
                km = _first(b, lambda e: e["e"] == "Km" and e["k"] >= 2)
                if km:
                    ctx.sample(dict(points=b[1], km=km, what="k-means on a translated / scaled point set (x, off, sexp as logged)"), 6)
                    break
        ctx.cov["rule"] = ("a case is one recorded call keyed by (point set incl. its offsets / scale / history step, routine, metric, size or k, initialiser, threads, reuse): every point set TLC "
                           "enumerated x every size x both exact metrics for MaxDis/MaxDis_Fast/MDC (+ KMeansppCenters/KMeans on distinct points; a stride translated / scaled), seeded integer "
                           "point sets (3..80 x 1..6) x sampled sizes x three metrics x 1..8 threads, class-directed sets (K1..K8) x every initialiser, and every replayed Lloyd run; "
                           "non-trivial = at least two selections / clusters")
        ctx.note("conformance: %d + %d + %d (+ %d far-corner) point sets, %d recorded calls, %d k-means runs (%d on translated / scaled data, %d hit the iteration cap, %d with an empty cluster), %d Lloyd iterations replayed, %d child crashes"
                 % (len(sets), ctx.steps["point_sets"]["seeded"], ctx.steps["point_sets"]["class_directed"], ctx.steps["point_sets"]["far_corner"], sum(1 for e in allsel if e["e"] in ("Sel", "Km", "KmTh", "KmRe")), len(kms),
                    ctx.steps["kmeans_runs_on_translated_or_scaled_data"], ctx.steps["kmeans_iteration_cap_reached"], ctx.steps["kmeans_runs_with_empty_cluster"], nit, ctx.steps["child_crashes"]))

        def replay_grid(pts, e):
            return dict(kind="grid", id=pts["id"], X=pts["X"], distinct=pts["distinct"], affine=1 if _is_aff(pts) else 0, event=e)

        def replay_rand(pts, e):
            return dict(kind="rand", seed=ctx.seed, idx=pts["id"], event=e)

        def replay_cls(pts, e):
            return dict(kind="cls", seed=ctx.seed, idx=pts["id"], event=e)

        def replay_cor(pts, e):
            return dict(kind="corner", seed=ctx.seed, idx=pts["id"], event=e)
        _validate(ctx, sel_grid, san1, "trace_grid", replay_grid, P)
        _validate(ctx, sel_rand, san2, "trace_rand", replay_rand, P)
        _validate(ctx, sel_cls, san3, "trace_cls", replay_cls, P)
        _validate(ctx, sel_cor, san4, "trace_corner", replay_cor, max(1, P // 2))
        _validate_lloyd(ctx, ll, "trace_lloyd", P)
        if not ctx.violations and not deferred:
            _selftests(ctx, sel_rand, sel_cls, ll)
        deferred.settle()
    finally:
        bg.shutdown(wait=True)
        shutil.rmtree(rd, ignore_errors=True)


def replay(ctx, body):
    case = body.get("case") or {}
    lib = build.build_lib("san")
    exe = build.build_harness("c17", ["c17_drv.c"], lib)
    rd = tlc.rundir()
    try:
        if case.get("kind") == "grid":
            fn = os.path.join(rd, "pts.txt")
            pid = case.get("id", 0)
            open(fn, "w").write(_pts_line(pid, case))
            stride = -1 if case.get("affine") else 0        # -1: also run the translated / scaled copy of this point set
            jobs = [[os.path.join(rd, "r.ndjson"), "grid", fn, body.get("seed", ctx.seed), 1, 1, stride]]
        elif case.get("kind") == "rand":
            jobs = [[os.path.join(rd, "r.ndjson"), "rand", case["seed"], case["idx"], 1]]
        elif case.get("kind") in ("cls", "corner"):
            jobs = [[os.path.join(rd, "r.ndjson"), case["kind"], case["seed"], case["idx"], 1]]
        else:
            return run(ctx)
        ev, san = _run_harness(exe, jobs, "replay")
        sel, ll = _split(ev)
        _account(ctx, sel, "replay")
        for e in ev:
            if e["e"] == "Points":
                ctx.sample(e)
        ctx.cov["rule"] = "replay of one recorded point set"
        # a one-point-set replay carries no model run: count the trace states only
        _validate(ctx, sel, san, "replay", lambda pts, e: case, 1)
        _validate_lloyd(ctx, ll, "replay_lloyd", 1)
    finally:
        shutil.rmtree(rd, ignore_errors=True)
