"""C17 - object selection and k-means return valid, optimal-by-construction results.

(M)  Select.tla: max-min selection on integer points with exact distances (squared Euclidean / Manhattan, rational centroid),
     ties as sets of admissible picks; TLC checks for every small point set, every size and both metrics that the code's
     lowest-index tie-break yields an admissible selection (ImplIsAdmissible), and that the linear / rank-based forms used for
     trace validation agree with the set-based definitions.
(C)  replay: every point set TLC enumerated is run through MaxDis and MaxDis_Fast (every size, metrics 0/1), MDC, and - for
     distinct points - KMeansppCenters and KMeans; validate: seeded integer point sets in general position (3..80 objects x
     1..6 variables, sizes 1..objects, k <= min(6, objects), initialisers 0..3, three metrics, 1..8 threads).  The harness only
     logs what the library returned (plus distance RANKS beyond 12 objects and for the cosine metric, centroid*count and the
     nearest-centroid slack for k-means); TLC validates every selection with Admissible / AdmissibleR, MaxDis = MaxDis_Fast,
     the k-means bookkeeping, and thread independence against TraceSelect.tla.
Requests outside the quantifier (more selections than objects, k-means++ on duplicate rows) are never generated.
"""
import json, os, shutil
from concurrent.futures import ThreadPoolExecutor
from vf import build, tlc, trace
from vf import run as hrun
from vf.core import InfraError

LEVEL = "model_checking"
READY = True
TECHNIQUE = ("TLC model checking of Select.tla (max-min selection with tie sets on all small integer point sets, both metrics, every size) "
             "+ TLC trace validation of the selections, k-means labels/centroids and thread-independence flags recorded from the real "
             "MDC/MaxDis/MaxDis_Fast/KMeansppCenters/KMeans on the TLC-enumerated point sets and on seeded integer point sets")
LEVEL_TEXT = ("Selection on integer data is model-checked exhaustively within the stated bounds and every selection the real library returned on the "
              "enumerated and on the seeded point sets is re-derived by TLC from the logged integer points (or distance ranks) - greedy-step optimality, "
              "first pick, distinctness, range, agreement of the two implementations.  The k-means nearest-centroid tolerance part and the cosine metric "
              "(ranks computed by the harness in double precision) are exploration.")
LEVEL_NOTE = ("Trusts TLC, the harness's projection (object numbers, integer points, dense distance ranks computed with the library's own distance "
              "definitions - C13 pins those -, centroid*count rounding, Euclidean nearest-centroid slack in double precision), hook H3 for the k-means "
              "iteration count, ASan/UBSan as memory monitor.  5 points on the {0..3}^2 grid are beyond the budget (10.5 million cases): the thorough tier "
              "checks 3..5 points on {0..2}^2 and 3..4 points on {0..3}^2.")

WORKERS = int(os.environ.get("VERIF_WORKERS", "6"))


# ---------------------------------------------------------------- naming a rejected event (the verdict is TLC's)
def _dist(metric, X, i, j):
    if metric == 0:
        return sum((a - b) ** 2 for a, b in zip(X[i], X[j]))
    return sum(abs(a - b) for a, b in zip(X[i], X[j]))


def _ctxmap(events):
    m = {}
    cur = dict(pts=None, R={}, c=None, prev=None)
    for e in events:
        k = e["e"]
        if k == "Reset":
            cur = dict(pts=None, R={}, c=None, prev=None)
        elif k == "Points":
            cur = dict(pts=e, R={}, c=None, prev=None)
        elif k == "Ranks":
            cur = dict(cur, R=dict(cur["R"]))
            cur["R"][e["metric"]] = e["R"]
            cur["c"] = e["c"]
        m[id(e)] = cur
        if k == "Sel" and e["method"] == "MaxDis":
            cur = dict(cur, prev=e)
    return m


def _sel_reason(e, c):
    X = c["pts"]["X"]
    N, seq, met = len(X), e["seq"], e["metric"]
    if len(seq) != e["n"] or any(v < 1 or v > N for v in seq):
        return "range"
    if len(set(seq)) != len(seq):
        return "distinct"
    if e["method"] not in ("MaxDis", "MaxDis_Fast"):
        return "range"
    usex = c["pts"]["exact"] == 1 and met < 2
    if usex:
        S = [sum(p[j] for p in X) for j in range(len(X[0]))]
        c2 = [sum((N * p[j] - S[j]) ** 2 for j in range(len(p))) for p in X]
    else:
        c2 = c["c"]
    if c2 is None or c2[seq[0] - 1] != max(c2):
        return "first"
    D = (lambda i, j: _dist(met, X, i, j)) if usex else (lambda i, j: c["R"][met][i][j])
    mt = [D(i, seq[0] - 1) for i in range(N)]
    chosen = {seq[0] - 1}
    for x in seq[1:]:
        x -= 1
        if any(mt[j] > mt[x] for j in range(N) if j not in chosen):
            return "greedy"
        chosen.add(x)
        mt = [min(mt[i], D(i, x)) for i in range(N)]
    if e["method"] == "MaxDis_Fast":
        p = c["prev"]
        if p is None or p["metric"] != met or p["n"] != e["n"] or p["seq"] != seq:
            return "agree"
    return "tie"


def _km_reason(e, c):
    X = c["pts"]["X"]
    k, lab = e["k"], e["labels"]
    if len(lab) != len(X) or any(v < 0 or v >= k for v in lab):
        return "labels"
    for cl in range(k):
        mem = [i for i, v in enumerate(lab) if v == cl]
        if e["cnt"][cl] != len(mem):
            return "centroid"
        if mem and any(e["cnum"][cl][j] != sum(X[i][j] for i in mem) for j in range(len(X[0]))):
            return "centroid"
    if e["cerr"] > 1000:
        return "centroid"
    return "nearest"


def _sig(e, cm):
    c = cm.get(id(e))
    k = e["e"]
    pid = c["pts"]["id"] if c and c["pts"] else "?"
    shape = "%dx%d" % (len(c["pts"]["X"]), len(c["pts"]["X"][0])) if c and c["pts"] else "?"
    if k == "Sel":
        why = _sel_reason(e, c)
        what = {"range": "does not hold the requested number of in-range object numbers", "distinct": "holds an object twice",
                "first": "first element is not an object farthest from the centroid", "greedy": "an element does not maximise the minimum distance to the objects chosen before it",
                "agree": "MaxDis_Fast differs from MaxDis", "tie": "tie-break differs"}[why]
        return "SELECT:%s:%s" % (e["method"], why), "point set %s (%s) metric %d n=%d threads=%d: %s returned %s: %s" % (pid, shape, e["metric"], e["n"], e["th"], e["method"], e["seq"], what)
    if k == "Km":
        why = _km_reason(e, c)
        what = {"labels": "a label is outside 0..k-1", "centroid": "a centroid is not the mean of the objects carrying its label",
                "nearest": "an object is not labelled by a nearest centroid within 2 sqrt(dim) 1e-3 (slack %.6f)" % (e["slack"] * 1e-6)}[why]
        return "KMEANS:%s" % why, "point set %s (%s) k=%d initialiser=%d threads=%d: %s" % (pid, shape, e["k"], e["init"], e["th"], what)
    if k == "KmTh":
        return "KMEANS:threads", "point set %s (%s) k=%d initialiser=%d: labels/centroids with %d threads differ from the one-thread run" % (pid, shape, e["k"], e["init"], e["th"])
    if k == "Crash":
        call = e.get("call", "?")
        name = call.split("(")[0]
        area = "KMEANS" if name == "KMeans" else "SELECT:%s" % name
        return "%s:crash" % area, "point set %s (%s): %s %s" % (pid, shape, call, "did not return within the watchdog" if e.get("rc") == 124 else "died (rc=%s)" % e.get("rc"))
    return "SELECT:trace:%s" % k, "unexpected event %s" % json.dumps(e)[:200]


def _pts_line(i, c):
    X = c["X"]
    return "%d %d %d %d %s\n" % (i, len(X), len(X[0]), c["distinct"], " ".join(str(v) for row in X for v in row))


def _run_harness(exe, jobs, what):
    res = hrun.run_many(exe, jobs, timeout=2400, workers=WORKERS)
    events, errs = [], []
    for j, h in zip(jobs, res):
        ev = hrun.read_ndjson(j[0])
        if h.timed_out:
            raise InfraError("c17 harness timed out (%s)" % what)
        if h.rc != 0:
            raise InfraError("c17 harness parent failed rc=%d (%s): %s" % (h.rc, what, h.err[-1500:]))
        events += ev
        errs.append(h.err)
    return events, "\n".join(errs)


def _chunks(events, parts):
    blocks = tlc.split_blocks(events)
    tot = sum(len(b) for b in blocks)
    out, cur, acc = [], [], 0
    for b in blocks:
        cur += b
        acc += len(b)
        if acc >= tot / parts and len(out) < parts - 1:
            out.append(cur)
            cur, acc = [], 0
    if cur:
        out.append(cur)
    return out


def _validate(ctx, events, san_text, label, replay_of, parts):
    if not events:
        raise InfraError("c17 harness produced no events (%s)" % label)
    cm = _ctxmap(events)
    sanlines = [l for l in san_text.splitlines() if "SUMMARY:" in l or "runtime error:" in l]

    order = {id(e): i for i, e in enumerate(events)}
    found = []                      # chunks are validated concurrently: report in trace order so that the witness is reproducible

    def on_reject(e, idx, block):
        if e["e"] in ("Points", "Ranks", "Reset"):
            raise InfraError("harness projection rejected by TraceSelect (%s): %s" % (e["e"], json.dumps(e)[:300]))
        sig, what = _sig(e, cm)
        if e["e"] == "Crash" and sanlines:
            what += " [" + sanlines[0].strip()[:200] + "]"
        found.append((order[id(e)], sig, what, replay_of(cm[id(e)]["pts"], e)))
        return lambda x: x["e"] == e["e"] and _sig(x, cm)[0] == sig
    chunks = _chunks(events, parts)

    def one(a):
        i, ch = a
        return trace.check_trace(ctx, "TraceSelect", "Trace_Select.cfg", "Trace_Select_prop.cfg", ch, on_reject, drop="event", label="%s_%d" % (label, i), max_rounds=16)
    with ThreadPoolExecutor(max(1, min(WORKERS, len(chunks)))) as ex:
        rej = sum(ex.map(one, enumerate(chunks)))
    for _, sig, what, rp in sorted(found, key=lambda t: t[0]):
        ctx.violation(sig, what, rp)
    ctx.traces(sum(1 for e in events if e["e"] == "Reset"))
    return rej


def _account(ctx, events, tag):
    cur = None
    for e in events:
        k = e["e"]
        if k == "Points":
            cur = (tag, e["id"], e.get("shifted", 0))
        elif k == "Sel":
            ctx.case(("S", cur, e["method"], e["metric"], e["n"], e["th"]), e["n"] >= 2)
        elif k == "Km":
            ctx.case(("K", cur, e["k"], e["init"]), e["k"] >= 2)
        elif k == "KmTh":
            ctx.case(("T", cur, e["k"], e["init"], e["th"]), e["k"] >= 2)


def run(ctx):
    ctx.assumptions += [
        "TLC enumerates point sets only within the stated bounds (quick: 4 points on {0..2}^2, the half with even coordinate sum is replayed; thorough: 3..5 points on {0..2}^2 - every fifth by coordinate sum is replayed - and 3..4 points on {0..3}^2)",
        "the harness logs object numbers, integer points and - beyond 12 objects and for the cosine metric - dense ranks of the distances computed with the library's own distance definitions; TLC re-derives first pick, greedy optimality, distinctness, range and MaxDis = MaxDis_Fast from them",
        "k-means: centroid*count is rounded by the harness (residual logged), the Euclidean nearest-centroid slack is computed by the harness in double precision; TLC checks labels, member counts, exact member sums and the bound 2 sqrt(dim) 1e-3; runs that hit the 100-iteration cap are not judged on the slack (this tolerance part is exploration)",
        "requests outside the quantifier (more selections than objects, k-means++ with duplicate rows) are never generated",
        "all library calls for a point set run in one child process under ASan/UBSan with a watchdog",
    ]
    q = ctx.quick
    # ---- (M)
    r0 = tlc.run("Select", "MC_Select_forms.cfg", workers=WORKERS, timeout=1500)
    ctx.add_tlc(r0, "mc_select_forms")
    if not r0.ok:
        raise InfraError("Select.tla (forms): invariant %s fails in the model itself:\n%s" % (r0.violation, r0.trace_text[:1500]))
    r = tlc.run("Select", "MC_Select_quick.cfg" if q else "MC_Select_thorough.cfg", workers=WORKERS, timeout=3000)
    ctx.add_tlc(r, "mc_select")
    if not r.ok:
        raise InfraError("Select.tla: invariant %s fails in the model itself:\n%s" % (r.violation, r.trace_text[:1500]))
    if r.zero_actions() or r0.zero_actions():
        raise InfraError("Select.tla: actions never taken: %s" % (r.zero_actions() + r0.zero_actions()))
    sets = sorted(r.emits, key=lambda c: json.dumps(c["X"]))      # TLC's print order depends on worker scheduling
    if not sets:
        raise InfraError("Select.tla GEN emitted no point sets")
    ctx.note("model: %d (point set, size, metric) states, ImplIsAdmissible holds; %d point sets emitted for replay" % (r.distinct, len(sets)))
    if not q:
        r3 = tlc.run("Select", "MC_Select_thorough_g3.cfg", workers=WORKERS, timeout=3000)
        ctx.add_tlc(r3, "mc_select_grid3")
        if not r3.ok:
            raise InfraError("Select.tla (grid 3): invariant %s fails in the model itself:\n%s" % (r3.violation, r3.trace_text[:1500]))
    ctx.cov["exhaustive"] = True
    # ---- (C)
    lib = build.build_lib("san")
    exe = build.build_harness("c17", ["c17_drv.c"], lib)
    rd = tlc.rundir()
    try:
        P = WORKERS
        jobs = []
        for p in range(P):
            fn = os.path.join(rd, "pts%d.txt" % p)
            with open(fn, "w") as f:
                for i, c in enumerate(sets):
                    if i % P == p:
                        f.write(_pts_line(i, c))
            # quick: reduced call set per point set and k-means on every 64th distinct point set; thorough: everything, k-means on every 16th
            jobs.append([os.path.join(rd, "grid%d.ndjson" % p), "grid", fn, ctx.seed, 64 if q else 16, 0 if q else 1])
        ev_grid, san1 = _run_harness(exe, jobs, "grid")
        if sum(1 for e in ev_grid if e["e"] == "Points") != len(sets):
            raise InfraError("replay: %d point sets sent, %d reported" % (len(sets), sum(1 for e in ev_grid if e["e"] == "Points")))
        nrand = 36 if q else 720
        per = (nrand + P - 1) // P
        jobs = [[os.path.join(rd, "rand%d.ndjson" % p), "rand", ctx.seed, p * per, min(per, nrand - p * per)] for p in range(P) if p * per < nrand]
        ev_rand, san2 = _run_harness(exe, jobs, "rand")
        _account(ctx, ev_grid, "grid")
        _account(ctx, ev_rand, "rand")
        kms = [e for e in ev_grid + ev_rand if e["e"] == "Km"]
        km_crashed = any(e["e"] == "Crash" and e.get("call", "").startswith("KMeans(") for e in ev_grid + ev_rand)
        if (not kms or not any(e["iters"] > 0 for e in kms)) and not km_crashed:
            raise InfraError("no k-means iteration was observed: hook H3 (getLabels_) is not firing")
        ctx.steps["kmeans_runs"] = len(kms)
        ctx.steps["kmeans_iteration_cap_reached"] = sum(1 for e in kms if e["conv"] != 1)
        ctx.steps["kmeans_runs_with_empty_cluster"] = sum(1 for e in kms if e["empty"])
        ctx.steps["child_crashes"] = sum(1 for e in ev_grid + ev_rand if e["e"] == "Crash")
        ctx.steps["point_sets"] = dict(grid=len(sets), seeded=sum(1 for e in ev_rand if e["e"] == "Points" and not e.get("shifted")))
        for e in ev_rand:
            if e["e"] == "Points" and len(e["X"]) <= 6:
                ctx.sample(dict(e, what="seeded point set"), 2)
        for e in ev_rand:
            if e["e"] == "Sel" and e["method"] == "MaxDis" and 3 <= e["n"] <= 10:
                ctx.sample(dict(e, what="selection returned by the library"), 4)
        for e in ev_grid:
            if e["e"] == "Km" and e["k"] >= 2:
                ctx.sample(dict(e, what="k-means result on a TLC-enumerated point set"), 5)
                break
        ctx.sample(dict(sets[len(sets) // 2], what="point set emitted by TLC"), 6)
        ctx.cov["rule"] = ("a case is one recorded call keyed by (point set, routine, metric, size or k, initialiser, threads): every point set TLC enumerated x every size x both exact metrics "
                           "for MaxDis/MaxDis_Fast/MDC (+ KMeansppCenters/KMeans on distinct points), and seeded integer point sets (3..80 x 1..6) x sampled sizes x three metrics x 1..8 threads; "
                           "non-trivial = at least two selections / clusters")
        ctx.note("conformance: %d + %d point sets, %d recorded calls, %d k-means runs (%d hit the iteration cap, %d with an empty cluster), %d child crashes"
                 % (len(sets), ctx.steps["point_sets"]["seeded"], sum(1 for e in ev_grid + ev_rand if e["e"] in ("Sel", "Km", "KmTh")), len(kms),
                    ctx.steps["kmeans_iteration_cap_reached"], ctx.steps["kmeans_runs_with_empty_cluster"], ctx.steps["child_crashes"]))

        def replay_grid(pts, e):
            return dict(kind="grid", X=pts["X"], distinct=pts["distinct"], event=e)

        def replay_rand(pts, e):
            return dict(kind="rand", seed=ctx.seed, idx=pts["id"], event=e)
        _validate(ctx, ev_grid, san1, "trace_grid", replay_grid, P)
        _validate(ctx, ev_rand, san2, "trace_rand", replay_rand, P)
        # binding self-test: a recorded selection with its first two picks exchanged / a centroid sum off by one must be rejected
        blk = next((b for b in tlc.split_blocks(ev_rand) if b[1]["e"] == "Points" and b[1]["exact"] == 1 and len(b[1]["X"]) >= 5
                    and any(e["e"] == "Sel" and e["method"] == "MaxDis" and e["n"] >= 3 for e in b) and any(e["e"] == "Km" and e["k"] >= 2 for e in b)), None)
        if blk is not None:
            def corrupt_sel(ev):
                for e in ev:
                    if e["e"] == "Sel" and e["method"] == "MaxDis" and e["n"] >= 3:
                        e["seq"][0], e["seq"][1] = e["seq"][1], e["seq"][0]
                        return True
                return False
            trace.binding_selftest(ctx, "TraceSelect", "Trace_Select_prop.cfg", blk, corrupt_sel, "binding_selection")

            def corrupt_km(ev):
                for e in ev:
                    if e["e"] == "Km" and e["k"] >= 2:
                        e["cnum"][0][0] += 1
                        return True
                return False
            trace.binding_selftest(ctx, "TraceSelect", "Trace_Select_prop.cfg", blk, corrupt_km, "binding_kmeans")
    finally:
        shutil.rmtree(rd, ignore_errors=True)


def replay(ctx, body):
    case = body.get("case") or {}
    lib = build.build_lib("san")
    exe = build.build_harness("c17", ["c17_drv.c"], lib)
    rd = tlc.rundir()
    try:
        if case.get("kind") == "grid":
            fn = os.path.join(rd, "pts.txt")
            open(fn, "w").write(_pts_line(0, case))
            jobs = [[os.path.join(rd, "r.ndjson"), "grid", fn, body.get("seed", ctx.seed), 1, 1]]
        elif case.get("kind") == "rand":
            jobs = [[os.path.join(rd, "r.ndjson"), "rand", case["seed"], case["idx"], 1]]
        else:
            return run(ctx)
        ev, san = _run_harness(exe, jobs, "replay")
        _account(ctx, ev, "replay")
        for e in ev:
            if e["e"] == "Points":
                ctx.sample(e)
        ctx.cov["rule"] = "replay of one recorded point set"
        # a one-point-set replay carries no model run: count the trace states only
        _validate(ctx, ev, san, "replay", lambda pts, e: case, 1)
    finally:
        shutil.rmtree(rd, ignore_errors=True)
