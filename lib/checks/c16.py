"""C16 - a saved model reads back equal to the model last written, whatever came before.

(M)   Io.tla: the model file as tables of rows; Write = DropAll ; per field CreateIfNotExists ; Insert*(serialise);
      Read = select in rowid order ; deserialise as io.c does; Rewrite = the same in-memory model written once more.
      ReadsLast, EmptyStaysEmpty and Canonical (the file is a function of the model last written alone) are model-checked over all
      write/read histories (2 paths x 3 kinds x 3 abstract size classes, the third with empty optional fields), over the history family
      that writes/reads every CONCRETE profile model (90 parameter vectors whose serialised vectors / matrices / tensors / lists have
      4, 32, 64, 96, 128, 256 and +-1 rows; lemma K2Covered) and over the rewrite family, for the conforming variant; the invariant
      must FAIL for three defective variants (DropTables = FALSE: the DROP statements are never executed; SaveAll = FALSE:
      PCAMODEL.dmodx is not saved; ReadBlock = 32: a block-wise reader that forgets the length of a table with 32k rows - refuted
      only by the profile alphabet, lemma LegacyBlockBlind says why the abstract classes cannot).  Lemmas on every model of the
      alphabet: SerLen, RoundTripExact (Deser o Ser = id exactly where the reader variant is not block-blind), StaleSuffix.
(GEN) IoGen.tla: every history of length <= 3 over the abstract classes (BFS, up to renaming of the two paths), the profile family
      (every profile written and read, alone, over and under an abstract model of the same or the table-sharing kind), the rewrite
      family (K7) and a sample of histories of length 5 over the whole alphabet (simulate) as JSON; profile Writes carry their fit
      parameters and content class (K3 offsets, K4 range ends, K5 planted constants), the catalogue carries their input classes.
(C)   c16_drv executes the histories on real files with real fitted PCA/CPCA/PLS models; after every step the real file's
      tables and row counts are logged; every Read is compared field by field with every model written before.  TLC validates
      the recording against TraceIo.tla: Prop layer = ReadsLast on the logged dims/errors/predictions (prediction bound scaled in the
      spec with the logged conditioning of a profile model) and "writing does not modify the model" (checksum, and a rewritten model
      still has the shapes it was made with); Impl layer = the real row counts equal db[path] of the spec variant and a profile
      model has the shapes FitShape(kind, parameters) of the specification.
(V)   the variant (DropTables, SaveAll) whose Impl layer accepts the real files is the implemented one; it is fed back
      as the constants of the model.  A model counterexample is reported only with a failing run of the real code.
(X)   outside the statement of C16 (EXTRA-FINDING only, never a verdict): Read into a model object that an earlier Read filled (action
      ReadAgain, variants Reuse = appends / resets; this is what the python binding's PCA.load()/PLS.load()/CPCA.load() do on a used
      object).  The exact model of what io.c does with a used destination is model-checked (ReusedReadsLast refuted for "appends", holds
      for "resets"), the reuse history family is executed, TLC identifies the implemented variant on the recorded fields and, with
      XProp = TRUE, holds the reused reads to ReadsLast: a rejection is printed as EXTRA-FINDING.
"""
import json, os, random, re, shutil, threading
from concurrent.futures import ThreadPoolExecutor
from vf import build, tlc, trace
from vf import run as hrun
from vf.core import InfraError
from checks.deferred import Deferred

LEVEL = "model_checking"
READY = True
TECHNIQUE = ("TLC model checking of Io.tla (file = tables of rows; all write/read histories up to length 5 over 2 paths x 3 kinds x 3 abstract size classes incl. "
             "models with empty optional fields; the history families that write/read 90 concrete profile models with block-boundary table lengths 4/32/64/96/128/256 +-1 "
             "and that rewrite the same in-memory model; three defective variants refuted: DropAllTables no-op, unsaved field, block-wise reader; outside the statement: "
             "Read into a used model object, appending reader refuted / resetting reader holds) + (de)serialiser lemmas "
             "checked by TLC on every model of the alphabet + TLC-generated histories replayed on real SQLite files with real fitted models whose dimensions and content "
             "classes TLC chose + TLC trace validation of the recorded table states, shapes and read-back comparisons (TraceIo.tla)")
LEVEL_TEXT = ("The table-level mechanism of io.c is modelled exactly and ReadsLast / EmptyStaysEmpty / Canonical are model-checked over every write/read history within the bounds; "
              "every history of length <= 3 over the abstract classes, every profile model (written and read alone and over/under another model), every rewrite history "
              "and a sample of length-5 histories over the whole alphabet, all generated by TLC, are executed against the real library, and TLC "
              "validates the real files' table states against the model (identifying the implemented variant) and every read-back field, "
              "prediction and write-side checksum against the property.  Outside the statement (EXTRA-FINDING only): reads into a model object that an earlier read filled are "
              "executed too and validated against the exact model of what io.c does with a used destination.")
LEVEL_NOTE = ("Trusts TLC, the harness's double-precision comparison of read-back and written numbers (logged as errors in units of 1e-18; TLC decides "
              "which written model is the most recent and applies the tolerance), the sqlite3 API used to read the real tables, ASan/UBSan as memory "
              "monitor.  Model contents are sampled (random fitted models; rescaled to 1e-9..1e9, pushed to the range ends with planted constants, or fitted on "
              "data with column offsets of 1e3 / 1e6 standard deviations); histories are exhaustive up to length 3 over the abstract classes.  "
              "Input classes of INPUT-CLASSES.md: K1, K2, K3, K4, K5, K7, K8 (empty optional fields) are emitted and counted (coverage.classes). Not emitted, with the reason: "
              "K6 (io.c reaches no MT kernel and spawns no worker; all fits and predictions run with one processor forced), K8 duplicate/constant columns in the training "
              "data (the quantifier speaks of models fitted on random data; such fits are C18/C10 territory), K9 as missing-value semantics (the property does not mention "
              "missing values; the code 99999999 is only planted as an ordinary stored number), K10 (no labels or index maps in a model file), K2 boundaries listed in "
              "K2Unreachable of Io.tla (no model within the parameter ranges has such a table).  Reading into a model object that already holds a model (K7 'outputs that "
              "hold other data') is outside the statement - the property speaks of histories of writes to a path, its reads go into fresh models - and is therefore modelled, driven "
              "and reported as EXTRA-FINDING (IO:<kind>:read-into-used-object), never as a verdict.")

TOL = 1000          # 1e-15 in units of 1e-18
TOLPRED = 1000000   # 1e-12: predictions of two models whose numbers agree to 1e-15 (few-term sums, moderate scale)
MAXPREDFACTOR = 2000   # mirrors TraceIo!MaxPredFactor (labelling only)
PATHS = '{"p1", "p2"}'
W = max(2, int(os.environ.get("VERIF_WORKERS", "8")))
NPROC = int(os.environ.get("C16_NPROC", str(min(10, W + 2))))    # harness processes run side by side
NPAR = max(2, min(5, W))                                          # TLC processes run side by side
# a reader that takes stale or misplaced numbers for dimensions asks for gigabytes: cap single allocations and the resident set so
# that such a read ends as a reported crash of that history instead of exhausting the (shared) machine
HENV = {"ASAN_OPTIONS": hrun.SAN_ENV["ASAN_OPTIONS"] + ":max_allocation_size_mb=256:hard_rss_limit_mb=2048"}
_LOCK = threading.Lock()

# field typing of the three model kinds (mirror of Io!ModelFieldSeq, used for the class ACCOUNTING only)
_VEC = {"PCA": ["colaverage", "colscaling", "varexp"], "CPCA": ["scaling_factor", "total_expvar"],
        "PLS": ["xcolscaling", "xcolaverage", "ycolscaling", "ycolaverage", "xvarexp", "b"]}
_TEN = {"PCA": [], "CPCA": ["block_scores", "block_loadings"],
        "PLS": ["roc_recalculated", "roc_validation", "precision_recall_recalculated", "precision_recall_validation"]}
_LST = {"PCA": [], "CPCA": ["block_expvar", "colaverage", "colscaling"], "PLS": []}
_K2LENS = {b + d for b in (4, 32, 64, 96, 128, 256) for d in (-1, 0, 1)}


def _ftype(k, f):
    return "vec" if f in _VEC[k] else "ten" if f in _TEN[k] else "lst" if f in _LST[k] else "mat"


# ------------------------------------------------------------------------------------------------ (M)
def _final_ops(out):
    """the history (ghost variable ops) of the last state of a TLC counterexample: [(op, path, kind, size)]"""
    i = out.rfind("/\\ ops = <<")
    if i < 0:
        return []
    txt = out[i:out.find(">>", i)]
    res = []
    for rec in re.findall(r"\[([^\]]*)\]", txt):
        f = dict(re.findall(r'(\w+) \|-> "?(\w+)"?', rec))
        res.append((f.get("op"), f.get("p"), f.get("k"), int(f.get("s", 0))))
    return res


def _tlc_many(jobs):
    """jobs: [(label, module, cfg, kwargs)] run side by side (NPAR at a time); returns {label: TlcResult}"""
    def one(j):
        label, module, cfg, kw = j
        return label, tlc.run(module, cfg, **kw)
    with ThreadPoolExecutor(NPAR) as ex:
        return dict(ex.map(one, jobs))


def mc_jobs(ctx):
    main = "MC_Io_quick.cfg" if ctx.quick else "MC_Io_thorough.cfg"
    one = dict(workers=1, timeout=900, coverage=False)    # one worker: strict BFS, shortest counterexample; coverage only where it is read
    return [("mc_io_conforming", "Io", main, dict(workers=max(2, W // 2), timeout=1700)),
            ("mc_io_nodrop", "Io", "MC_Io_nodrop.cfg", one),
            ("mc_io_unsaved", "Io", "MC_Io_unsaved.cfg", one),
            ("mc_io_lemmas", "Io", "MC_Io_lemmas.cfg", one),
            ("mc_io_lemmas_blockreader", "Io", "MC_Io_lemmas_block.cfg", one),
            ("mc_io_profiles", "Io", "MC_Io_prof.cfg" if ctx.quick else "MC_Io_prof_thorough.cfg", dict(workers=2, timeout=1700)),
            ("mc_io_blockreader_profiles", "Io", "MC_Io_block.cfg", one),
            ("mc_io_blockreader_abstract", "Io", "MC_Io_block_legacy.cfg", one),
            ("mc_io_rewrite", "Io", "MC_Io_rewrite_quick.cfg" if ctx.quick else "MC_Io_rewrite.cfg", dict(workers=2, timeout=1700)),
            ("mc_io_reuse_appends", "Io", "MC_Io_reuse_appends.cfg", one),
            ("mc_io_reuse_resets", "Io", "MC_Io_reuse_resets.cfg", dict(workers=1, timeout=900))]


def model_check(ctx, rs):
    r = rs["mc_io_conforming"]
    if not r.ok:
        raise InfraError("Io.tla: %s fails for the conforming variant (DropTables, SaveAll):\n%s" % (r.violation, r.trace_text[:1500]))
    z = r.zero_actions(ignore=("Rewrite", "ReadAgain"))     # those two are exercised by their own configurations (checked below)
    if z or r.coverage.get("Read", (0, 0))[0] == 0 or r.coverage.get("Write", (0, 0))[0] == 0:
        raise InfraError("Io.tla model check is vacuous: actions never taken %s, coverage %s" % (z, r.coverage))
    ctx.note("model (DropTables, SaveAll): ReadsLast, EmptyStaysEmpty, Canonical hold, %d distinct states, Write taken %d, Read taken %d (%.1fs)"
             % (r.distinct, r.coverage["Write"][0], r.coverage["Read"][0], r.wall))
    verdict = {(True, True): True}
    # the invariant must be able to fail: the defective variants each have a shortest counterexample of the expected shape
    r = rs["mc_io_nodrop"]
    ops = _final_ops(r.out)
    if r.violation != "ReadsLast" or len(ops) != 3 or [o[0] for o in ops] != ["W", "W", "R"] or len({o[1] for o in ops}) != 1:
        raise InfraError("Io.tla with DropTables = FALSE: expected the counterexample Write;Write;Read on one path, got %s %s" % (r.violation, ops))
    ctx.note("model (DropTables = FALSE): ReadsLast violated by %s" % " ; ".join("%s(%s,%s,%s)" % o for o in ops))
    verdict[(False, True)] = False
    r = rs["mc_io_unsaved"]
    ops = _final_ops(r.out)
    if r.violation != "ReadsLast" or [o[0] for o in ops] != ["W", "R"] or ops[0][2] != "PCA":
        raise InfraError("Io.tla with SaveAll = FALSE: expected the counterexample Write(PCA);Read, got %s %s" % (r.violation, ops))
    ctx.note("model (SaveAll = FALSE): ReadsLast violated by %s" % " ; ".join("%s(%s,%s,%s)" % o for o in ops))
    verdict[(True, False)] = False
    # lemmas on every model of the alphabet (one-state configurations)
    for lab, what in (("mc_io_lemmas", "SerLen, RoundTripExact, StaleSuffix, K2Covered, SizesDiffer"),
                      ("mc_io_lemmas_blockreader", "RoundTripExact (exactly the tables with 32k rows of plain vectors / lists are lost), LegacyBlockBlind")):
        r = rs[lab]
        if not r.ok:
            raise InfraError("Io.tla: lemma %s fails (%s):\n%s" % (r.violation, lab, r.trace_text[:1500]))
        ctx.note("model lemmas hold: %s" % what)
    # the profile family: holds for the conforming reader, and ONLY the profiles refute the block-wise reader
    r = rs["mc_io_profiles"]
    if not r.ok or r.coverage.get("Read", (0, 0))[0] == 0:
        raise InfraError("Io.tla (profile family): %s, coverage %s\n%s" % (r.violation, r.coverage, r.trace_text[:1500]))
    ctx.note("model (profile family): ReadsLast, EmptyStaysEmpty, Canonical hold on %d states (%d Writes, %d Reads of concrete models)" % (r.distinct, r.coverage["Write"][0], r.coverage["Read"][0]))
    r = rs["mc_io_blockreader_profiles"]
    ops = _final_ops(r.out)
    if r.violation != "ReadsLast" or [o[0] for o in ops] != ["W", "R"] or ops[0][3] < 4:
        raise InfraError("Io.tla with ReadBlock = 32: expected the counterexample Write(profile);Read, got %s %s" % (r.violation, ops))
    ctx.note("model (ReadBlock = 32, block-wise reader): ReadsLast violated by %s" % " ; ".join("%s(%s,%s,%s)" % o for o in ops))
    r = rs["mc_io_blockreader_abstract"]
    if not r.ok:
        raise InfraError("Io.tla with ReadBlock = 32 over the abstract size classes: expected to hold (no table with 32k rows), got %s" % r.violation)
    ctx.note("model (ReadBlock = 32) over the abstract size classes alone: ReadsLast holds on %d states - the block-wise reader is invisible without class K2" % r.distinct)
    r = rs["mc_io_rewrite"]
    if not r.ok or r.coverage.get("Rewrite", (0, 0))[0] == 0:
        raise InfraError("Io.tla (Rewrites): %s, coverage %s\n%s" % (r.violation, r.coverage, r.trace_text[:1500]))
    ctx.note("model (Rewrites): ReadsLast, EmptyStaysEmpty, Canonical hold on %d states (Rewrite taken %d)" % (r.distinct, r.coverage["Rewrite"][0]))
    # outside the statement: Read into a used model object
    r = rs["mc_io_reuse_appends"]
    ops = _final_ops(r.out)
    if r.violation != "ReusedReadsLast" or [o[0] for o in ops] != ["W", "R", "Q"]:
        raise InfraError("Io.tla with Reuse = appends: expected ReusedReadsLast refuted by Write;Read;ReadAgain, got %s %s" % (r.violation, ops))
    r2 = rs["mc_io_reuse_resets"]
    if not r2.ok or r2.coverage.get("ReadAgain", (0, 0))[0] == 0:
        raise InfraError("Io.tla with Reuse = resets: %s, coverage %s" % (r2.violation, r2.coverage))
    ctx.note("model (outside the statement; Read into a used object): ReusedReadsLast refuted for the appending reader by %s, holds for a reader that empties its destination (%d states, ReadAgain taken %d)"
             % (" ; ".join("%s(%s,%s,%s)" % o for o in ops), r2.distinct, r2.coverage["ReadAgain"][0]))
    return verdict


# ------------------------------------------------------------------------------------------------ (GEN)
def _opstr(o):
    if o["op"] == "W":
        return "W:%s:%s:%d" % (o["p"], o["k"], o["s"]) + (":" + ".".join(str(x) for x in o["prm"]) if o.get("prm") else "")
    return "%s:%s:%s%s" % (o["op"], o["p"], o["k"], ":%d" % o["s"] if o["op"] == "X" else "")     # R, Q: path and kind; X: also the step rewritten


def _hists(r):
    return {" ".join(_opstr(o) for o in e["h"]) for e in r.emits if "h" in e}


def _maximal(allh):
    hs = sorted(h for h in allh if h)
    pref = set()
    for h in hs:
        t = h.split(" ")
        for i in range(1, len(t)):
            pref.add(" ".join(t[:i]))
    return [h for h in hs if h not in pref]


def gen_jobs(ctx, nsim):
    gen = dict(workers=1, timeout=900, coverage=False)
    return [("gen_bfs", "IoGen", "MC_Io_gen.cfg", gen), ("gen_profiles", "IoGen", "MC_Io_gen_prof.cfg" if ctx.quick else "MC_Io_gen_prof_thorough.cfg", gen), ("gen_rewrite", "IoGen", "MC_Io_gen_k7.cfg", gen), ("gen_reuse", "IoGen", "MC_Io_gen_reuse.cfg", gen),
            ("gen_simulate", "IoGen", "MC_Io_sim.cfg", dict(workers=1, timeout=900, simulate="num=%d" % nsim, depth=6, seed=ctx.seed, coverage=False))]


def gen_histories(ctx, rs, nsample):
    out = {}
    for label in ("gen_bfs", "gen_profiles", "gen_rewrite", "gen_reuse"):
        r = rs[label]
        if not r.ok or not r.emits:
            raise InfraError("GEN (%s) failed: %s" % (label, r.violation))
        allh = _hists(r)
        if len(allh) != r.distinct:
            raise InfraError("GEN %s: %d histories for %d states" % (label, len(allh), r.distinct))
        out[label] = (allh, _maximal(allh))
    catalogue = {(e["cat"]["k"], e["cat"]["s"]): e["cat"] for e in rs["gen_profiles"].emits if "cat" in e}
    if not catalogue:
        raise InfraError("GEN: no profile catalogue")
    # every history of length <= 2 is a prefix of one of length 3: executing the maximal ones executes them all
    allh, maximal = out["gen_bfs"]
    short = len(allh) - 1
    r2 = rs["gen_simulate"]
    pool = sorted({" ".join(_opstr(o) for o in e["h"]) for e in r2.emits if "h" in e and len(e["h"]) == 5})
    sim = sorted(random.Random(ctx.seed).sample(pool, min(nsample, len(pool))))
    if not sim:
        raise InfraError("GEN (simulate) produced no history of length 5")
    prof, rew = out["gen_profiles"][1], out["gen_rewrite"][1]
    ctx.note("GEN: %d histories of length 1..3 over the abstract classes (all up to renaming of the two paths; %d maximal), %d profile histories (%d profiles), "
             "%d rewrite histories, %d sampled histories of length 5 over the whole alphabet (each containing its length-4 prefix)"
             % (short, len(maximal), len(prof), len(catalogue), len(rew), len(sim)))
    # the quantifier "whatever came before" includes an EMPTY field written over a non-empty one: the executed set must contain,
    # for every kind, scaled -> unscaled (size class 3 = fitted with scaling -1) on one path followed by a Read, and CPCA <-> PCA
    need = ["W:p1:%s:%d W:p1:%s:3 R:p1:%s" % (k, s, k, k) for k in ("PCA", "CPCA", "PLS") for s in (1, 2)] + \
           ["W:p1:CPCA:2 W:p1:PCA:3 R:p1:PCA", "W:p1:PCA:2 W:p1:CPCA:3 R:p1:CPCA", "W:p1:PLS:3 W:p1:PLS:2 R:p1:PLS"]
    missing = [h for h in need if h not in maximal]
    if missing:
        raise InfraError("GEN does not contain the scaled->unscaled histories %s" % missing)
    # every profile must be written and read on its own, and the rewrite family must rewrite
    alone = set()
    for h in prof:
        t = h.split(" ")
        if len(t) == 2 and t[1].startswith("R:"):
            f = t[0].split(":")
            alone.add((f[2], int(f[3])))
    lacking = [k for k in catalogue if k not in alone]
    if lacking:
        raise InfraError("GEN: profiles never written and read on their own: %s" % lacking)
    if not rew or not all(" X:" in h for h in rew):
        raise InfraError("GEN: the rewrite family contains histories without a rewrite")
    reuse = out["gen_reuse"][1]
    if not reuse or not all(" Q:" in h for h in reuse):
        raise InfraError("GEN: the reuse family contains histories without a Read into a used object")
    return maximal, prof, rew, sim, short, catalogue, reuse


# ------------------------------------------------------------------------------------------------ (C)
def _ncells(sh):
    return sum(p[0] if len(p) == 1 else p[0] * p[1] for p in sh)


def _nvars(k, sh):
    if k == "PCA":
        return sh["loadings"][0][0]
    if k == "PLS":
        return sh["xloadings"][0][0]
    return sum(p[0] for p in sh["block_loadings"])


def _pred_factor(w):
    """mirror of TraceIo!PredFactor (labelling and statistics only; TLC applies the bound)"""
    if not w["prm"]:
        return 1
    n = _nvars(w["k"], w["sh"])
    r = 0
    while r * r < n:
        r += 1
    return 1 + (w["kap"] * r) // 100


def label_events(events):
    """python-side explanation of what is wrong with an event (None = nothing seen): used to name the signature of an
    event REJECTED BY TLC and to drop the other events with the same signature; TLC stays the judge of everything kept."""
    lab = {}
    stats = dict(fields_compared=0, worst_field_err_1e18=0, preds_compared=0, worst_pred_err_1e18=0, worst_pred_err_over_bound_ppm=0, empty_fields_read=0,
                 profile_writes=0, rewrites=0)
    lastw, lastp, tables, made = {}, {}, {}, {}
    for ev in events:
        e = ev["e"]
        if e == "Reset":
            lastw, lastp, tables, made = {}, {}, {}, {}
            continue
        p, k = ev.get("p"), ev.get("k")

        def stale():
            w, t = lastp.get(p), tables.get(p)
            return bool(w and t and any(n > w["rows"].get(name, 0) for name, n in t.items()))
        if e == "Write":
            lastw[(p, k)] = ev
            lastp[p] = ev
            if ev["re"]:
                stats["rewrites"] += 1
                m = made.get(ev["tag"])
                if not m or m["k"] != k or m["sh"] != ev["sh"]:
                    lab[id(ev)] = "IO:%s:mutated" % k
            else:
                made[ev["tag"]] = ev
                stats["profile_writes"] += bool(ev["prm"])
        elif e == "Mut":
            if ev["mut"]:
                lab[id(ev)] = "IO:%s:mutated" % k
        elif e == "Tables":
            tables[p] = ev["t"]
        elif e == "Field":
            w = lastw.get((p, k))
            if not w or ev.get("x"):
                continue
            exp = w["sh"][ev["f"]]
            bad_d = ev["d"] != exp
            bad_v = _ncells(exp) > 0 and not any(t == w["tag"] and err <= TOL for t, err in ev["c"])
            if bad_d or bad_v:
                if p in tables and ev["f"] not in tables[p]:      # the file has no table for this field of the model
                    lab[id(ev)] = "IO:%s:unsaved:%s" % (k, ev["f"])
                elif stale():
                    lab[id(ev)] = "IO:%s:stale-rows" % k
                else:
                    lab[id(ev)] = "IO:%s:%s" % (k, "dims" if bad_d else "value")
            elif _ncells(exp) > 0:
                stats["fields_compared"] += 1
                stats["worst_field_err_1e18"] = max(stats["worst_field_err_1e18"], min(err for t, err in ev["c"] if t == w["tag"]))
            else:
                stats["empty_fields_read"] += 1
        elif e == "Pred":
            w = lastw.get((p, k))
            if not w or w["resc"] != 0:
                continue
            fac = _pred_factor(w)
            if fac > MAXPREDFACTOR:
                continue
            if not any(t == w["tag"] and err <= TOLPRED * fac for t, err in ev["c"]):
                lab[id(ev)] = "IO:%s:%s" % (k, "stale-rows" if stale() else "predict")
            else:
                err = min(err for t, err in ev["c"] if t == w["tag"])
                stats["preds_compared"] += 1
                stats["worst_pred_err_1e18"] = max(stats["worst_pred_err_1e18"], err)
                stats["worst_pred_err_over_bound_ppm"] = max(stats["worst_pred_err_over_bound_ppm"], err * 1000000 // (TOLPRED * fac))
        elif e == "Crash" and not ev.get("x"):
            lab[id(ev)] = "IO:%s:%s" % (k, "stale-rows" if stale() else "crash:%s" % ev["stage"])
    return lab, stats


def guess_variant(events):
    """a guess from the Tables events, used only to order the TLC runs that decide the variant"""
    drop, save = None, None
    nw, lastp = {}, {}
    for ev in events:
        if ev["e"] == "Reset":
            nw, lastp = {}, {}
        elif ev["e"] == "Write":
            nw[ev["p"]] = nw.get(ev["p"], 0) + 1
            lastp[ev["p"]] = ev
        elif ev["e"] == "Tables" and ev["p"] in lastp:
            w = lastp[ev["p"]]
            if w["k"] == "PCA" and save is None:
                save = "dmodx" in ev["t"]
            if nw[ev["p"]] >= 2 and drop is None:
                drop = all(n == w["rows"].get(t, -1) for t, n in ev["t"].items())
        if drop is not None and save is not None:
            break
    return (True if drop is None else drop, False if save is None else save)


def _cfg(rd, name, drop, save, prop_off, impl_off, reuse="off", xprop=False):
    return tlc.write_cfg(os.path.join(rd, name), spec="TSpec",
                         constants=dict(Paths=PATHS, MaxHist=0, DropTables=drop, SaveAll=save, ReadBlock=0, SizeSet="{1, 2, 3}", Rewrites=False, Shape="all", Reuse=reuse,
                                        PropOff=prop_off, ImplOff=impl_off, Tol=TOL, TolPred=TOLPRED, XProp=xprop),
                         constraints=["Diag"], postcondition="TraceAccepted", deadlock=False)


def _run_part(exe, d, part, seed, deferred=None):
    """run one harness process over its histories; when it dies inside the library, append the Crash event for the stage
    recorded in <d>/progress and restart after that history"""
    hf, out = os.path.join(d, "hist.txt"), os.path.join(d, "out.ndjson")
    with open(hf, "w") as f:
        for hid, ops in part:
            f.write("%d %s\n" % (hid, ops))
    start, errs = 0, []
    while start < len(part):
        h = hrun.run(exe, [out, d, seed, hf, start], timeout=1500, env=HENV)
        if h.rc == 0:
            break
        if h.rc == 2 or (h.timed_out and deferred is None):
            raise InfraError("c16 harness failed (rc=%d): %s" % (h.rc, h.err[-1500:]))
        if h.timed_out:
            # a changed library may hang: not a verdict; what this process recorded is still judged, its remaining histories are not run
            deferred.add("c16 harness timed out (progress record: %s)" % _progress_text(d))
            break
        try:
            idx, step, stage = open(os.path.join(d, "progress")).read().split()[:3]
            idx, step = int(idx), int(step)
        except (OSError, ValueError):
            raise InfraError("c16 harness died (rc=%d) without progress record: %s" % (h.rc, h.err[-1500:]))
        ops = part[idx][1].split()
        if deferred is not None and idx >= start and stage == "fit" and h.rc != 97:
            # the process died while FITTING the model it was going to write (PCA / PLS / CPCA of the library, not the code under test: no verdict of C16):
            # remembered, the other histories are still run and judged
            deferred.add("c16 harness died while fitting the model of history line %d step %d (rc=%d %s), outside Write*/Read*: %s" % (idx, step, h.rc, h.san or "", h.err[-600:]))
            start = idx + 1
            continue
        if idx < start or stage not in ("write", "read", "reread", "compare", "predict") or not 1 <= step <= len(ops) or h.rc == 97:
            raise InfraError("c16 harness died outside the code under test (line %d step %d stage %s rc=%d): %s" % (idx, step, stage, h.rc, h.err[-1500:]))
        o = ops[step - 1].split(":")
        rc = 1000 - h.rc if h.rc < 0 else h.rc
        with open(out, "a") as f:
            f.write(json.dumps(dict(e="Crash", step=step, op=o[0], p=o[1], k=o[2], stage=stage, rc=rc, x=int(o[0] == "Q"), san=h.san or ""), separators=(",", ":")) + "\n")
        errs.append(h.err[-3000:])
        start = idx + 1
    return hrun.read_ndjson(out), errs


def _progress_text(d):
    try:
        return " ".join(open(os.path.join(d, "progress")).read().split()[:3])
    except OSError:
        return "none"


def execute(ctx, exe, rd, hist, seed):
    """hist: list of (id, opstring).  Runs the harness in NPROC parallel parts; returns the concatenated events."""
    parts = [p for p in (hist[i::NPROC] for i in range(NPROC)) if p]
    dirs = []
    for i in range(len(parts)):
        d = os.path.join(rd, "w%d" % i)
        os.makedirs(d, exist_ok=True)
        dirs.append(d)
    with ThreadPoolExecutor(NPROC) as ex:
        res = list(ex.map(lambda a: _run_part(exe, a[0], a[1], seed, getattr(ctx, "_deferred", None)), zip(dirs, parts)))
    events, stderr = [], []
    for ev, errs in res:
        events += ev
        stderr += errs
    if not events:
        raise InfraError("c16 harness produced no events")
    return events, stderr


def _chunks(events, n):
    """split a trace into at most n pieces of whole Reset blocks of about equal length"""
    blocks = tlc.split_blocks(events)
    tot = sum(len(b) for b in blocks)
    out, cur, size = [], [], 0
    for b in blocks:
        cur += b
        size += len(b)
        if size >= tot / n and len(out) < n - 1:
            out.append(cur)
            cur, size = [], 0
    if cur:
        out.append(cur)
    return out


def measured_classes(ctx, events, hist, catalogue):
    """input classes (INPUT-CLASSES.md) of every executed history, measured on its recorded events: serialised lengths (K2) and shapes
    (K1, K8) of the models written, content class (K3, K4, K5), history shape (K7).  A profile's catalogue tags (computed by TLC from
    its parameters) must be among the measured ones: otherwise the library did not fit what the generator asked for (SPEC-DRIFT)."""
    byid = dict(hist)
    per = {}
    cur, seen_read, writes, drift = None, set(), {}, set()
    for ev in events:
        e = ev["e"]
        if e == "Reset":
            cur = per.setdefault(ev["h"], set())
            seen_read, writes = set(), {}
        elif e == "Write":
            k, sh = ev["k"], ev["sh"]
            tags = set()
            if k == "PCA":
                n, p, a = sh["scores"][0][0], sh["loadings"][0][0], sh["loadings"][0][1]
            elif k == "PLS":
                n, p, a = sh["xscores"][0][0], sh["xloadings"][0][0], sh["xloadings"][0][1]
                tags.add("K1:ny=1" if sh["yloadings"][0][0] == 1 else "K1:ny>1")
            else:
                n, p, a = sh["super_scores"][0][0], _nvars(k, sh), sh["super_scores"][0][1]
            tags.add("K1:n=p" if n == p else "K1:n=p+-1" if abs(n - p) == 1 else "K1:tall" if n > p else "K1:wide")
            tags.add("K1:a=rank" if a == min(n - 1, p) else "K1:a=1" if a == 1 else "K1:1<a<rank")
            if p == 1:
                tags.add("K1:p=1")
            if any(_ncells(s) == 0 for s in sh.values()):
                tags.add("K8:empty-optional-fields")
            cc = ev["prm"][-1] if ev["prm"] else None
            if cc is None:
                tags.add("K4:rescaled-1e-9..1e9" if ev["rs"] else "K4:moderate")
            else:
                tags |= {0: {"K4:moderate"}, 1: {"K4:rescaled-1e-9..1e9"}, 2: {"K4:range-ends", "K5:planted-constants", "K9:missing-code-as-value"},
                         3: {"K3:offset-1e3-sd"}, 4: {"K3:offset-1e6-sd"}}[cc]
                if cc in (3, 4) and ev["kap"] < (300 if cc == 3 else 300000):
                    drift.add("profile %s %s: content class %d asked for, measured max |mean|/sdev = %d" % (k, ev["prm"], cc, ev["kap"]))
            # serialised lengths of the fields of the model as it is in memory (the input; the real file is judged by TLC)
            tags |= {"K2:%s:%d" % (_ftype(k, f), n) for f, n in ev["rows"].items() if n in _K2LENS}
            if ev["prm"] and not ev["re"]:
                cat = catalogue.get((k, ev["s"]))
                if cat is None or cat["prm"] != ev["prm"]:
                    raise InfraError("Write of %s size %d with parameters %s is not in the catalogue" % (k, ev["s"], ev["prm"]))
                lack = set(cat["tags"]) - tags
                if lack:
                    drift.add("profile %s %s: input classes %s computed by the specification are not measured on the model the library fitted" % (k, ev["prm"], sorted(lack)))
            if ev["re"]:
                cur.add("K7:rewrite-same-object")
            if ev["p"] in writes:
                cur.add("K7:overwrite-same-path")
                if writes[ev["p"]] != k:
                    cur.add("K7:other-kind-over")
            if ev["p"] in seen_read:
                cur.add("K7:write-after-read")
            writes[ev["p"]] = k
            cur |= tags
        elif e == "Read":
            seen_read.add(ev["p"])
    for d in sorted(drift)[:3]:
        ctx.spec_drift("input-class accounting: %s" % d)
    return {h: sorted(t) for h, t in per.items() if h in byid}


def conform(ctx, hist, seed, label, selftest=False, catalogue=None, count_classes=False):
    """(C) replay + validate and (V) variant inference.  hist: list of (id, opstring).  Returns the variant or None."""
    lib = build.build_lib("san")
    exe = build.build_harness("c16", ["c16_drv.c"], lib)
    rd = tlc.rundir()
    try:
        events, stderr = execute(ctx, exe, rd, hist, seed)
        byid = dict(hist)
        nreads = sum(1 for e in events if e["e"] == "Read")
        ntab = sum(1 for e in events if e["e"] == "Tables")
        if ntab == 0 or sum(1 for e in events if e["e"] == "Write") == 0:
            # (a tree on which every Write* dies leaves Reset / Crash events only: they are still judged by TLC below)
            if getattr(ctx, "_deferred", None) is None or not any(e["e"] == "Crash" for e in events):
                raise InfraError("c16 harness emitted no Write/Tables events")
            ctx._deferred.add("c16 harness emitted no Write/Tables events")
        ctx.note("%s: %d histories executed, %d events (%d Reads, %d Tables)" % (label, len(hist), len(events), nreads, ntab))
        lab, stats = label_events(events)
        ctx.steps["%s_observed" % label] = stats
        ctx.note("%s: %d non-empty and %d empty fields read back as written (worst error %d e-18, bound %d), %d prediction comparisons (worst %d e-18 = %d ppm of its bound), "
                 "%d profile models written, %d rewrites"
                 % (label, stats["fields_compared"], stats["empty_fields_read"], stats["worst_field_err_1e18"], TOL, stats["preds_compared"], stats["worst_pred_err_1e18"],
                    stats["worst_pred_err_over_bound_ppm"], stats["profile_writes"], stats["rewrites"]))
        if count_classes:
            per = measured_classes(ctx, events, hist, catalogue or {})
            for hid, tags in per.items():
                for t in tags:
                    ctx.cls(t)
        chunks = _chunks(events, NPAR)
        # ---- (V) which variant do the real files implement?  Impl layer only, decided by TLC (chunks of whole histories side by side)
        g = guess_variant(events)
        order = [g] + [v for v in ((True, True), (True, False), (False, True), (False, False)) if v != g]
        variant = None
        for d, s in order:
            cfg = _cfg(rd, "impl_%s_%s.cfg" % (d, s), d, s, True, False)
            with ThreadPoolExecutor(NPAR) as ex:
                res = list(ex.map(lambda c: tlc.validate_trace("TraceIo", cfg, c, timeout=900), chunks))
            for i, (ok, n, r) in enumerate(res):
                ctx.add_tlc(r, "%s_variant_%s_%s_%d" % (label, d, s, i))
            if all(ok for ok, n, r in res):
                variant = (d, s)
                break
            i, (ok, n, r) = next((i, x) for i, x in enumerate(res) if not x[0])
            first_bad = chunks[i][n] if n < len(chunks[i]) else None
            ctx.note("%s: files do not match variant DropTables=%s SaveAll=%s at %s" % (label, d, s, json.dumps(first_bad)[:300]))
        if variant is None:
            ctx.spec_drift("%s: the real files' tables/row counts (or the shapes of the profile models) match none of the modelled variants of io.c; property layer still checked" % label)
        else:
            ctx.note("%s: implemented variant (decided by TLC on the real Tables events): DropTables=%s SaveAll=%s" % ((label,) + variant))
        d, s = variant if variant else (True, True)
        # the layers are independent conjuncts of every trace action: Impl-only accepted (above) and Prop-only accepted = both accepted
        cfg_prop = _cfg(rd, "prop.cfg", d, s, False, True)

        hid_of, cur = {}, None
        for e in events:
            if e["e"] == "Reset":
                cur = e["h"]
            hid_of[id(e)] = cur

        def on_reject(ev, idx, block):
            sig = lab.get(id(ev)) or "IO:%s:trace:%s" % (ev.get("k", "?"), ev.get("e"))
            hid = hid_of.get(id(ev))
            what = "history [%s] (id %s, seed %s): %s rejected by TraceIo: %s" % (byid.get(hid), hid, seed, ev["e"], json.dumps(ev)[:400])
            if ev["e"] == "Crash":
                m = [x for x in (re.search(r"(ERROR: AddressSanitizer[^\n]*|[^\n]*runtime error[^\n]*|SQL error[^\n]*)", t) for t in stderr) if x]
                what += "\n  process died in stage %s (rc=%s %s); first report of this run: %s" % (ev["stage"], ev["rc"], ev.get("san", ""), m[0].group(1)[:300] if m else "none")
            with _LOCK:
                ctx.violation(sig, what, dict(kind="history", id=hid, ops=byid.get(hid), seed=seed, event=ev))
            return (lambda e: lab.get(id(e)) == sig) if id(ev) in lab else None

        def check(i):
            # the alarm discipline of trace.check_trace for the Prop layer alone (the Impl layer was judged above, on the same chunks): an
            # event the Prop layer rejects is a violation, reported through on_reject and removed with the events of the same signature,
            # and the REST of the chunk is validated again
            ev, rounds = list(chunks[i]), 0
            while ev:
                ok, n, r = tlc.validate_trace("TraceIo", cfg_prop, ev, timeout=900)
                with _LOCK:
                    ctx.add_tlc(r, "%s_trace_%d_%d" % (label, i, rounds))
                if ok:
                    break
                if n >= len(ev):
                    raise InfraError("trace rejected but every line matched (TraceIo)")
                same = on_reject(ev[n], n, [ev[n]])
                bad = ev[n]
                ev = [e for e in ev if e is not bad and not (callable(same) and same(e))]
                rounds += 1
                if rounds >= 16:
                    ctx.note("more than 16 rejected events in %s chunk %d; remaining trace not examined" % (label, i))
                    break
        with ThreadPoolExecutor(NPAR) as ex:
            list(ex.map(check, range(len(chunks))))
        if variant is not None:
            ctx.traces(len(hist))
        if selftest and not getattr(ctx, "_deferred", None):
            binding_selftests(ctx, rd, events, lab, variant, cfg_prop)
        return variant, events
    finally:
        shutil.rmtree(rd, ignore_errors=True)


def binding_selftests(ctx, rd, events, lab, variant, cfg_prop):
    """one recorded field corrupted -> TLC must reject: real row count (Impl), read-back dim, read-back error (Prop), and for the new parts of
    the events: fit parameters of a profile (Impl: FitShape), shapes of a rewritten model (Prop), conditioning of a profile (Prop: PredFactor)"""
    clean = [b for b in tlc.split_blocks(events) if not any(id(e) in lab or e["e"] == "Crash" for e in b)]

    def slice_with(pred, limit=400):
        sl = []
        for b in clean:
            if pred(b):
                sl += b
            if len(sl) > limit:
                break
        return sl

    def first(ev, pred, change):
        for e in ev:
            if pred(e):
                change(e)
                return True
        return False

    def c_tables(ev):
        return first(ev, lambda e: e["e"] == "Tables", lambda e: e["t"].__setitem__(sorted(e["t"])[0], e["t"][sorted(e["t"])[0]] + 1))

    def c_dims(ev):
        return first(ev, lambda e: e["e"] == "Field" and e["d"] and e["f"] != "dmodx", lambda e: e["d"][0].__setitem__(0, e["d"][0][0] + 1))

    def c_err(ev):
        def ch(e):
            for c in e["c"]:
                c[1] = TOL + 1
        return first(ev, lambda e: e["e"] == "Field" and e["c"] and _ncells(e["d"]) > 0, ch)

    def c_prm(ev):
        return first(ev, lambda e: e["e"] == "Write" and e["prm"], lambda e: e["prm"].__setitem__(1, e["prm"][1] + 1))

    def c_rewrite(ev):
        def ch(e):
            f = sorted(f for f in e["sh"] if e["sh"][f])[0]
            e["sh"][f][0][0] += 1
        return first(ev, lambda e: e["e"] == "Write" and e["re"] == 1, ch)

    def c_predbound(ev):
        # the prediction error of a judged profile model put just above ITS bound TolPred * PredFactor: accepted only if the factor were larger
        w = {}
        for e in ev:
            if e["e"] == "Reset":
                w = {}
            elif e["e"] == "Write":
                w[(e["p"], e["k"])] = e
            elif e["e"] == "Pred":
                m = w.get((e["p"], e["k"]))
                if m and m["prm"] and m["resc"] == 0 and 1 < _pred_factor(m) <= MAXPREDFACTOR and any(t == m["tag"] for t, _ in e["c"]):
                    for c in e["c"]:
                        c[1] = TOLPRED * _pred_factor(m) + 1
                    return True
        return False
    d, s = variant if variant else (True, True)
    jobs = []
    if variant:
        jobs.append(("binding_tables", _cfg(rd, "bt.cfg", d, s, True, False), slice_with(lambda b: True), c_tables))
        jobs.append(("binding_profile_shape", _cfg(rd, "bp.cfg", d, s, True, False), slice_with(lambda b: any(e["e"] == "Write" and e["prm"] for e in b), 150), c_prm))
    jobs.append(("binding_dims", cfg_prop, slice_with(lambda b: any(e["e"] == "Field" for e in b)), c_dims))
    jobs.append(("binding_value", cfg_prop, slice_with(lambda b: any(e["e"] == "Field" for e in b)), c_err))
    jobs.append(("binding_rewrite_shape", cfg_prop, slice_with(lambda b: any(e["e"] == "Write" and e["re"] == 1 for e in b), 150), c_rewrite))
    jobs.append(("binding_pred_bound", cfg_prop, slice_with(lambda b: any(e["e"] == "Write" and e["prm"] and e["prm"][-1] == 3 for e in b) and any(e["e"] == "Pred" for e in b), 150), c_predbound))
    jobs = [j for j in jobs if j[2]]
    names = {j[0] for j in jobs}
    need = {"binding_dims", "binding_value"} | ({"binding_tables"} if variant else set())
    if not need <= names:
        raise InfraError("binding self-tests: no clean history to corrupt for %s" % sorted(need - names))
    with ThreadPoolExecutor(NPAR) as ex:
        list(ex.map(lambda j: trace.binding_selftest(ctx, "TraceIo", j[1], j[2], j[3], j[0]), jobs))
    return names


def extra_reuse(ctx, reuse, seed, variant):
    """(X) outside the statement of C16: Read into a model object that an earlier Read filled.  Deviations are EXTRA-FINDINGs, never verdicts."""
    hist = [(i + 1, h) for i, h in enumerate(reuse)]
    lib = build.build_lib("san")
    exe = build.build_harness("c16", ["c16_drv.c"], lib)
    rd = tlc.rundir()
    try:
        events, stderr = execute(ctx, exe, rd, hist, seed)
        nx = sum(1 for e in events if e["e"] == "Read" and e["x"] == 1)
        ncr = sum(1 for e in events if e["e"] == "Crash" and e["x"] == 1)
        other = [e for e in events if e["e"] == "Crash" and not e["x"]]
        if nx + ncr < len(hist) or other:
            # fresh reads / writes of these histories fail: that is the business of the replay above, which has (or has not) reported it
            msg = "reuse family: %d histories, %d reads into a used object (+%d died), %d processes died elsewhere: %s" % (len(hist), nx, ncr, len(other), other[:1])
            if ctx.violations:
                ctx.note(msg + " - not examined (violations reported above)")
                return
            raise InfraError(msg)
        for hid, h in hist:
            ctx.case("reuse " + h, nontrivial=True)
            ctx.cls("K7:read-into-used-object(outside-statement)")
        d, s = variant if variant else (True, True)
        ev = [e for e in events if not (e["e"] == "Field" and e["f"] == "dmodx" and not s)]     # the unsaved field is the known finding of the replay
        # which reader do the recorded fields implement?  (Impl layer of the x = 1 events, Prop layer of everything else)
        impl = None
        for ru in ("appends", "resets"):
            ok, n, r = tlc.validate_trace("TraceIo", _cfg(rd, "x_%s.cfg" % ru, d, s, False, False, reuse=ru), ev, timeout=900)
            ctx.add_tlc(r, "reuse_variant_%s" % ru)
            if ok:
                impl = ru
                break
            ctx.note("reuse family: the recorded events do not match the reader variant '%s' at %s" % (ru, json.dumps(ev[n] if n < len(ev) else None)[:300]))
        if impl is None:
            if ctx.violations:
                ctx.note("reuse family: not examined further (violations reported above)")
            else:
                ctx.spec_drift("reuse family: what Read does with a used destination matches neither modelled variant (appends / resets); not examined further")
            return
        ctx.note("reuse family: %d histories, %d reads into a used object (%d died inside the library, as the exact model predicts for tensors that do not fit); "
                 "implemented reader variant (decided by TLC): %s" % (len(hist), nx, ncr, impl))
        ctx.steps["reuse"] = dict(histories=len(hist), reads_into_used_object=nx, died=ncr, reader_variant=impl)
        ctx.traces(len(hist))
        byid = dict(hist)
        blocks = tlc.split_blocks(ev)

        def c_xdims(evs):
            for e in evs:
                if e["e"] == "Field" and e["x"] == 1 and e["d"]:
                    e["d"][0][0] += 1
                    return True
            return False
        sl = [e for b in [b for b in blocks if not any(e["e"] == "Crash" for e in b)][:12] for e in b]
        cfgx = _cfg(rd, "xp.cfg", d, s, False, True, reuse=impl, xprop=True)

        def held_to_property(k):
            # every other event of these histories was accepted by the run above: one pass per kind says whether the reused reads are ReadsLast too
            evk = [e for b in blocks if byid.get(b[0].get("h"), "").split(":")[2:3] == [k] or any(e.get("k") == k for e in b[1:2]) for e in b]
            if not evk:
                return k, None, None
            ok, n, r = tlc.validate_trace("TraceIo", cfgx, evk, timeout=900)
            with _LOCK:
                ctx.add_tlc(r, "reuse_xprop_%s" % k)
            return k, (None if ok else evk[n]), evk[:n + 1]
        with ThreadPoolExecutor(NPAR) as ex:
            fb = ex.submit(trace.binding_selftest, ctx, "TraceIo", _cfg(rd, "xb.cfg", d, s, True, False, reuse=impl), sl, c_xdims, "binding_reused_read_dims")
            res = list(ex.map(held_to_property, ("PCA", "CPCA", "PLS")))
            fb.result()
        for k, bad, prefix in res:
            if bad is None:
                continue
            if not bad.get("x"):
                raise InfraError("reuse family: an event of a fresh read is rejected: %s" % json.dumps(bad)[:300])
            hid = [e["h"] for e in prefix if e["e"] == "Reset"][-1]
            how = "the process dies (%s)" % bad.get("san", "") if bad["e"] == "Crash" else "field %s comes back with dims %s" % (bad["f"], json.dumps(bad["d"])[:80])
            ctx.extra("IO:%s:read-into-used-object" % k,
                      "Read%s into a model object that an earlier Read%s filled does not return the model last written: history [%s] (seed %s): %s. "
                      "io.c appends to the vectors / lists / tensors of the destination instead of replacing them (%d of the %d such reads die with a heap overflow under ASan); "
                      "this is what the python binding's load() does on a used object" % (k, k, byid.get(hid), seed, how, ncr, nx + ncr))
    finally:
        shutil.rmtree(rd, ignore_errors=True)


def variant_agreement(ctx, variant, verdict):
    """(V): feed the implemented variant back into the model"""
    if variant is None:
        return
    if variant not in verdict:
        rd = tlc.rundir()
        try:
            cfg = tlc.write_cfg(os.path.join(rd, "v.cfg"), spec="Spec", constants=dict(Paths=PATHS, MaxHist=4, DropTables=variant[0], SaveAll=variant[1], ReadBlock=0,
                                                                                      SizeSet="{1, 2, 3}", Rewrites=False, Shape="all"),
                                invariants=["ReadsLast"], view="MCView", deadlock=False)
            r = tlc.run("Io", cfg, workers=max(2, W // 2), timeout=900)
            ctx.add_tlc(r, "mc_io_implemented_variant")
            verdict[variant] = r.ok
        finally:
            shutil.rmtree(rd, ignore_errors=True)
    holds = verdict[variant]
    ctx.steps["variant"] = dict(DropTables=variant[0], SaveAll=variant[1], model_holds=holds)
    sigs = set(v[0] for v in ctx.violations) | set(ctx.known_hits)
    if holds:
        ctx.note("(V) implemented variant DropTables=%s SaveAll=%s: ReadsLast holds in the model" % variant)
    else:
        expl = [s for s in sigs if "stale-rows" in s or "unsaved" in s]
        if expl:
            ctx.note("(V) implemented variant DropTables=%s SaveAll=%s violates ReadsLast in the model; implementation witnesses: %s" % (variant + (sorted(expl),)))
        else:
            ctx.note("(V) implemented variant DropTables=%s SaveAll=%s violates ReadsLast in the model but no run of the real code failed "
                     "(not reported: a model counterexample alone is never a violation)" % variant)


def run(ctx):
    ctx.assumptions += [
        "TLC explores Io.tla exhaustively within the stated bounds only (2 paths, 3 kinds, 3 abstract size classes, history length <= %d; the profile and rewrite history families as defined by ProfHist / RewriteHist)" % (4 if ctx.quick else 5),
        "numbers are compared by the harness in double precision and logged as errors in units of 1e-18 against every previously written model of equal dims; "
        "TLC decides which written model is the most recent one for the path/kind and applies the 1e-15*max(1,|v|) tolerance",
        "prediction agreement is judged (tolerance 1e-12*max(1,|v|); for a profile model times 1 + kap*ceil(sqrt(nvars))/100 with kap = max |mean|/sdev of its training data, while that "
        "factor is <= %d) for models that were not rescaled; rescaled models (contents 1e-9..1e9, range ends, planted constants) are judged on their numbers" % MAXPREDFACTOR,
        "the real files are inspected with the sqlite3 C API from the harness after every step; reads go into freshly created models",
        "fsync/fdatasync are stubbed in the harness executable (durability of scratch files is irrelevant; io.c commits once per INSERT)",
        "ASan/UBSan build: a sanitizer report or abort inside Write*/Read* is a violation",
        "the Impl-only validation (variant inference) and the Prop-only validation are run separately on chunks of whole histories; the layers are independent conjuncts of every trace action",
    ]
    ctx._deferred = Deferred(ctx)
    jobs = mc_jobs(ctx) + gen_jobs(ctx, 200 if ctx.quick else 2500)      # (M) and (GEN) are independent TLC work: one pool
    rs = _tlc_many(jobs)
    for label, _, _, _ in jobs:
        ctx.add_tlc(rs[label], label)
    verdict = model_check(ctx, rs)
    maximal, prof, rew, sim, short, catalogue, reuse = gen_histories(ctx, rs, 120 if ctx.quick else 2500)
    hist = [(i + 1, h) for i, h in enumerate(maximal + prof + rew + sim)]
    for hid, h in hist:
        ops = h.split()
        wp = [o.split(":")[1] for o in ops if o[0] in "WX"]
        ctx.case(h, nontrivial=any(wp.count(p) >= 2 for p in set(wp)) or any(len(o.split(":")) > 4 or o[0] == "X" for o in ops))
    for hid, h in hist[:1] + hist[len(maximal):len(maximal) + 2] + hist[len(maximal) + len(prof):len(maximal) + len(prof) + 1] + hist[-2:]:
        ctx.sample(dict(history=h))
    ctx.cov["rule"] = ("a case is one TLC-generated history executed on real files (every history of length 1..3 over the abstract size classes, up to renaming of the two paths, is a prefix of an executed one: %d; "
                       "plus %d profile histories, %d rewrite histories, %d sampled histories of length 5 over the whole alphabet); non-trivial = at least two Writes to one path, or a concrete profile model, or a rewrite"
                       % (short, len(prof), len(rew), len(sim)))
    ctx.cov["exhaustive"] = True
    ctx.cov["profiles"] = len(catalogue)
    variant, events = conform(ctx, hist, ctx.seed, "replay", selftest=True, catalogue=catalogue, count_classes=True)
    # vacuity of the new parts: profiles and rewrites were really executed and really compared
    st = ctx.steps["replay_observed"]
    if (st["profile_writes"] < len(catalogue) or st["rewrites"] < len(rew)) and not ctx.violations:
        raise InfraError("the harness executed %d profile writes for %d profiles and %d rewrites for %d rewrite histories" % (st["profile_writes"], len(catalogue), st["rewrites"], len(rew)))
    if not ctx.quick:
        # the exhaustive history sets once more with other model contents and dims
        v2, _ = conform(ctx, hist[:len(maximal) + len(prof) + len(rew)], ctx.seed + 1, "replay_seed2")
        if v2 != variant:
            ctx.note("variant inferred with the second seed differs: %s vs %s" % (v2, variant))
    if all(s["fields_compared"] == 0 for k, s in ctx.steps.items() if k.endswith("_observed")) and not ctx.violations:
        raise InfraError("no field was ever compared: the conformance step is vacuous")
    variant_agreement(ctx, variant, verdict)
    if not ctx._deferred:
        extra_reuse(ctx, reuse, ctx.seed, variant)
    ctx._deferred.settle()


def replay(ctx, body):
    case = body.get("case") or {}
    if case.get("kind") != "history" or not case.get("ops"):
        return run(ctx)
    hist = [(int(case.get("id") or 1), case["ops"])]
    ctx.case(case["ops"])
    ctx.sample(dict(history=case["ops"], seed=case.get("seed")))
    conform(ctx, hist, int(case.get("seed") or ctx.seed), "replay")
