"""C11 - dense matrix/vector/tensor kernels compute their definitions for all shapes.

(M)  Unroll.tla: the unrolled inner loop of MatrixDotProduct (k < col-3 step 4, tail from col - col%4, dispatch on
     (int)col-3 > 0) visits every term exactly once for every inner dimension; the classic slip (tail from col%4) is
     run as a self-test and must be refuted.  Kernels.tla (over IntMat.tla / KernelDefs.tla): exact integer / rational
     definitions of every kernel, the algebraic laws of the property ((AB)' = B'A', A(B+C) = AB+AC, transpose involution,
     covariance = Gram matrix of the centred data hence symmetric PSD, sort = row permutation ordered by key, ...) checked as
     invariants over the whole enumerated shape space.
     KernelHist.tla (round 3): the kernels as ACTIONS over an object store - what a call may depend on is the values of its
     operands and, by the kernel's output contract (acc / ovw / rsz / app / srt), the previous state of its output, nothing
     else.  The store machine itself is model-checked on a small universe (ZeroContract, NoHiddenState, Idempotent,
     AccumulateTwice, TypeOK).
     Second batch (48 library functions in all): DVectNorm, DVectorDVectorDiff/Sum, DVectorMinMax, DVectorMedian,
     Matrix2Square/ABS/SQRT/LogMatrix, MatrixRowCenterScaling, MatrixSVNScaling, GenIdentityMatrix,
     MatrixGetMax/MinValueIndex, MatrixColDescStat (13 statistics), PearsonCorrelMatrix, SpearmanCorrelMatrix,
     DVectorTransposedMatrixDivision, TensorTranspose, KronekerProductVectorMatrix, TensorColAverage, TensorColSDEV.
     Their definitions: order statistics by counting (Kth, Median2), harmonic mean through the common multiple 60,
     r^2 = cov_ij^2/(cov_ii cov_jj), rho = (n(n^2-1) - 6 sum d^2)/(n(n^2-1)) over tie-free columns, v/M as the x with
     x M = v (Cramer's rule by cofactor expansion for n <= 4), integer brackets for sqrt and log10(x+1), the Kronecker
     product as a re-indexing of the block matrix.  Laws: sum(diff) = sum(a) - sum(b), min <= median <= max (and the
     order statistics are an ordered permutation), |v/|v||^2 = 1, sqrt(x^2) = |x|, SNV rows have mean 0 and variance 1,
     harmonic <= arithmetic mean, Pearson symmetric with r^2 <= 1, Spearman symmetric / unit diagonal / in [-1,1] /
     equal to the Pearson correlation of the ranks / invariant under strictly increasing maps of the columns, the
     tensor transpose is an involution that permutes indices, an extreme cell exists and the scan order singles out one.
(GEN) the same TLC run prints every case (every shape, operands from fixed fills) with the exact expected results; the
     histories of the stateful layer come from the harness's seeded generator (stratified over the input classes K1..K9).
(C)  replay: harness/c11_replay.c runs every case through the real library (ASan/UBSan build) with operands scaled by
     2^e, e in {-19,0,17} (values 1.9e-6 .. 6.6e5: inside the quantifier's 1e-6..1e6), one process per library function; sums
     of products and averages also in a NON-DYADIC unit (0.1, 1/3, 1e-3: every operand carries a rounding error, K5; tolerance
     (terms+4) eps sum|terms|); location-free statistics again on columns 2^19 units from the origin (K3; also as a ledger line
     judged by TLC with the tolerance function LocTol(n, offset, spread) of TraceKernels.tla); the second batch also in mixed
     units (column j in unit 2^{-19,0,17}[j mod 3]) and a second time into an already sized, non-zero output.  Integer results
     must be equal, quotients within 1e-12 / a few ulp, irrational results through their squares or integer brackets.
     validate: what MatrixSort/MatrixReverseSort and MatrixGetMax/MinValueIndex returned is recorded and judged by TLC
     (TraceKernels.tla: Prop = any row permutation ordered by the key / any extreme cell, Impl = the permutation of the
     present exchange sort / the last extreme cell of the column-major scan).
     validate (round 3, TraceKernelHist.tla): harness/c11_hist.c runs every statement kernel several times in ONE process
     on objects living in numbered slots - same shape with other data written in place (same addresses), another shape
     through the library's resize, the first data again in fresh objects (address re-use: ASan quarantine off); outputs
     fresh / re-zeroed / resized / holding other data / sized for ANOTHER call / non-empty (appending kernels).  Operands are
     integer mantissas times power-of-two units (per history, per row, per column; along the inner dimension of a product the
     terms differ by up to 2^20 and the sum is still exact), mantissas up to 8191 (a float accumulator is exposed), MT kernels
     at 1, 2, 3, 5, 16, 24 forced processors (empty slices, non-dividing), tensors of 1..4 slices with different row counts,
     sort keys with ties / constant / already sorted / reverse sorted / n = 0, 1, 2.  TLC replays the log against the store
     machine: every Call is judged against DefOf (exactly for the integer kernels, by integer brackets for quotients and
     square roots), the laws (AB)' = B'A', A(B+C) = AB+AC, (M')' = M, covariance symmetric PSD are judged on what the CODE
     returned (Law events).  Operands holding the MISSING code (first row / last row / both; K9) are a trace of their own
     judged against DefMiss: outside the statement, EXTRA-FINDING only.

Clause table (statement of C11 -> what decides it -> the event that carries it):
  matrix product, every shape / inner tail     Kernels!CaseRec(MatMul) + Unroll!EachTermOnce, UnrolledIsDot; KernelHist!DefOf(ProductFns)   Res; Call(MatrixDotProduct, MatrixDotProduct_, _LOOP_UNROLLING)
  matrix-vector, vector-matrix (and MT_)       Kernels MatVec / VecMat; KernelHist!DefOf(MatVecFns, VecMatFns), np in the event                 Res; Call
  outer products                               Kernels Outer; KernelHist!DefOf(OuterFns), contracts ovw / rsz                                   Res; Call
  transpose, trace                             Kernels Transpose, Trace; KernelHist!DefOf                                                       Res; Call
  norms                                        Kernels Norm / DVector (squares, 4 ulp); KernelHist Matrixnorm, DvectorModule (sqrt brackets)     Res; Call
  covariance                                   Kernels Covariance (CovNum) + TraceKernels!PropLoc; KernelHist MatrixCovariance                  Res, Loc; Call
  column / row statistics                      Kernels ColStats, DescStat, DVector + PropLoc; KernelHist StatFns, DVectorMean, DVectorSDEV       Res, Loc; Call
  sorting by a column                          TraceKernels!PropSort (IsSortOf); KernelHist!PropCall, contract srt                               Sort; Call
  tensor-vector / tensor-matrix contractions   Kernels Tensor (TenVec, VecTen, TenMat); KernelHist!DefOf(TensorFns), ragged slices               Res; Call
  (AB)' = B'A'                                 Kernels!LawProductTranspose (definitions); KernelHist!LawOK "ProductTranspose" (code)            Law
  A(B+C) = AB + AC                             Kernels!LawDistributive; KernelHist!LawOK "Distributive"                                         Law
  transpose is an involution                   Kernels!LawInvolution; KernelHist!LawOK "Involution"                                             Law
  covariance symmetric PSD                     Kernels!LawCovariance; KernelHist!LawOK "CovSymPSD" on the recorded result; symmetry bit for bit under K3   Law; Res
  sort = permutation of rows ordered by key    Kernels!LawSort (ExchangeSort in SortResults); PropSort / PropCall                                Sort; Call
  "for all shapes" / "to rounding"             the enumeration constants of MC_Kernels_*.cfg, the shape tables of c11_hist.c; tolerances above
  (before round 3 the three product laws were decided on the definitions only; no event carried them for the code)

Input classes (INPUT-CLASSES.md), measured in coverage.classes: K1 all shape relations, single row / column, empty, tensors of
     different slice shapes; K2 inner / outer dimensions 0..17 exhaustively, 15..18, 20, 24, 33 in the quick tier, 31..33 and 63..65
     in the thorough tier (replay: XK / BSet; histories: table TA); K3 location (variance, sdev, covariance, DVectorSDEV,
     TensorColSDEV, MatrixColDescStat); K4 three uniform scales, mixed row / column / inner units, wide mantissas; K5 non-dyadic
     units; K6 nproc 1, 2, 3, 5, 16, 24; K7 histories as above; K8 ties, duplicates, constant column / key, zero operand, sorted
     and reverse sorted input, n = 0, 1, 2; K9 MISSING in first / last row (EXTRA layer).  K10 (label alphabets) does not apply:
     no kernel of C11 takes labels.
Outside the statement (EXTRA-FINDING only, see EXTRA_ONLY): MatrixColDescStat on columns holding the MISSING code (modelled as
     the statistics of the column without that cell); PearsonCorrelMatrix (also: it returns r^2 rather than r, both accepted) and
     SpearmanCorrelMatrix; GenIdentityMatrix; MatrixGetMax/MinValueIndex; the element-wise maps; the two row scalings; the
     right division; every kernel on operands holding the MISSING code (99999999 lies outside the quantifier's 1e-6..1e6).
     The specification defines them exactly and the replay/trace validation runs for them like for the others,
     but no sentence of C11 promises them, so their deviations are reported and never judged.  On the present tree these are
     reported: extreme-cell scan skips row 0 of every column but the first (MatrixGetMax/MinValueIndex), PearsonCorrelMatrix's
     `(int)floor(a*b) == 0` guard (undefined behaviour at scale 2^17, zero at 2^-19), SpearmanCorrelMatrix matching ranks with an
     absolute 1e-3 tolerance, GenIdentityMatrix leaving stale off-diagonal cells in an already sized matrix (candidate repairs
     in fixes/C11-*.diff, NOT applied to /repo because no listed property is violated).
Excluded with reason: MatrixMatrixDistance and CovarianceDistanceMap (metricspace.h: the header comments do not fix a
     definition); statistics / extreme cell / median of EMPTY operands and normalising the zero vector (undefined);
     rows summing to zero (MatrixRowCenterScaling), constant rows (SNV) and constant columns (Pearson) are skipped;
     accumulating kernels into a NON-zero output (their documented contract is a zero-initialised output: Impl layer only);
     MatrixDotProduct_LOOP_UNROLLING entered directly with an inner dimension < 4 (the dispatcher never does; its loop bound is
     unsigned); the location class at the top scale and offsets beyond 2^19 units (values would leave 1e-6..1e6);
     MeanCenteredMatrix (C10's territory).
"""
import os, shutil
from vf import build, tlc, trace
from vf import run as hrun
from vf.core import InfraError
from checks.deferred import Deferred

LEVEL = "model_checking"
READY = True
TECHNIQUE = ("TLC as exact oracle: Kernels.tla/KernelDefs.tla/IntMat.tla define every dense kernel (48 library functions) over integers / exact rationals, TLC enumerates every operand shape, "
             "checks 24 algebraic laws as invariants and prints operands + exact expected results; a C driver replays every case through the real library "
             "(ASan/UBSan) at three dyadic scales inside 1e-6..1e6, in a non-dyadic unit, at a location 2^19 units from the origin, in mixed per-column units and into stale outputs; "
             "sorting results, extreme-cell positions and the location ledger are trace-validated by TLC; KernelHist.tla models the kernels as actions over an object store "
             "(output contracts acc/ovw/rsz/app/srt) and TLC replays recorded histories of calls made in one process (objects rewritten in place, resized, re-allocated at re-used "
             "addresses; outputs fresh, re-zeroed, stale, sized for another call; mixed power-of-two units; forced processor counts) judging every call and the product / transpose / "
             "covariance laws on what the code returned; Unroll.tla model-checks the unrolled loop's index set")
LEVEL_TEXT = ("Every shape triple of the property's quantifier (0..17 cubed in the thorough tier; 0..9 cubed plus every inner-dimension residue up to 17 "
              "in the quick tier) is enumerated by TLC, the laws are invariants of that enumeration, and each case's exact result computed by TLC is "
              "compared with what the real kernel returns for operands scaled by 2^-19, 1 and 2^17 (and, for sums of products and averages, in the units 0.1, 1/3, 1e-3); "
              "the index set of the unrolled loop is model-checked separately for every inner dimension. The second batch (norms, differences, order statistics, descriptive "
              "statistics, row scalings, element-wise maps, Pearson/Spearman matrices, right division, tensor transpose / Kronecker product / column statistics) is enumerated over "
              "every shape 0..17 x 0..17 in the thorough tier (11 x 11 representative sizes incl. 0, 1 and 17 in the quick tier), tensors of 1..4 slices, and additionally replayed in "
              "mixed per-column units and into already sized non-zero outputs. The store machine of KernelHist.tla is model-checked on a small universe (7 kernels, 3 slots, shapes 1..2, "
              "histories of length 2 quick / 3 thorough) and about 2,600 (quick) / 21,000 (thorough) recorded kernel calls in 3- to 9-call histories are judged by TLC against it, stratified "
              "over the input classes K1..K9 (dimensions up to 33 quick / 65 thorough).")
LEVEL_NOTE = ("Trusts TLC's integer arithmetic, the text conversion of TLC's output, the harness's comparison (exact for integer results, 1e-12 relative "
              "for quotients, squares for norms/SDEV, integer brackets for sqrt/log10), the harness's division of power-of-two units out of the recorded results, and ASan/UBSan as "
              "memory monitor. Operand VALUES are deterministic fills over -5..5 "
              "(1..6 for the harmonic mean, tie-free residues mod 19 for the rank correlation, strictly diagonally dominant divisors, 0..999999 for the logarithm; one per shape in the quick "
              "tier, three in the thorough tier) and seeded random mantissas (|m| <= 5, or <= 8191 where the sums stay below 2^30) in the histories, not all values; shapes are exhaustive "
              "within the stated bounds for the replay direction and a stratified sample for the histories. In the stateful layer quotients and square roots are judged by integer brackets "
              "of width 2^-sh only (sh as large as 32-bit arithmetic allows): their fine tolerances are those of the replay direction. Classes left out because the quantifier excludes them: "
              "operands holding the MISSING code 99999999 (> 1e6: EXTRA layer only), values below 1e-6 or above 1e6 (the scales are 2^-19 and 2^17, the location offset 2^19 units is applied at "
              "scales <= 1 only), accumulating kernels into a non-zero output (contract: zero-initialised; Impl layer), concurrent callers, K10 label alphabets (no kernel takes labels). "
              "Tie handling of SpearmanCorrelMatrix, the statistics of columns holding the MISSING code and the r versus r^2 reading of PearsonCorrelMatrix are outside the verdict; "
              "MatrixMatrixDistance and CovarianceDistanceMap are not covered (no unambiguous definition in the header).")

W = int(os.environ.get("VERIF_WORKERS", "16"))


def _san_brief(err):
    """the stable part of a sanitizer report (no pids / addresses, so that the same defect gives the same replay file)"""
    import re
    out = []
    for line in err.splitlines():
        m = re.match(r"\s*(#\d+) 0x[0-9a-f]+ (in \S+ \S+)", line)
        if m and len(out) < 6:
            out.append("  %s %s" % (m.group(1), m.group(2)))
        elif line.startswith("SUMMARY:") or "runtime error:" in line:
            out.append(line.strip())
    return "\n".join(out)[:1500]

# library function -> case family of Kernels.tla
FUNCS = [
    ("MatrixDotProduct", "MatrixDotProduct"), ("MatrixDVectorDotProduct", "MatVec"), ("MT_MatrixDVectorDotProduct", "MatVec"),
    ("DVectorMatrixDotProduct", "VecMat"), ("MT_DVectorMatrixDotProduct", "VecMat"), ("RowColOuterProduct", "Outer"),
    ("DVectorTrasposedDVectorDotProduct", "Outer"), ("MatrixTranspose", "Transpose"), ("MatrixTrace", "Trace"),
    ("Matrixnorm", "Norm"), ("MatrixNorm", "Norm"), ("MatrixColAverage", "ColStats"), ("MatrixRowAverage", "ColStats"),
    ("MatrixColVar", "ColStats"), ("MatrixColSDEV", "ColStats"), ("MatrixColRMS", "ColStats"), ("MatrixCovariance", "Covariance"),
    ("DVectorDVectorDotProd", "DVector"), ("DvectorModule", "DVector"), ("DVectorMean", "DVector"), ("DVectorSDEV", "DVector"),
    ("TransposedTensorDVectorProduct", "Tensor"), ("DvectorTensorDotProduct", "Tensor"), ("TensorMatrixDotProduct", "Tensor"),
    ("MatrixSort", "Sort"), ("MatrixReverseSort", "Sort"),
    # second batch
    ("DVectNorm", "DVector2"), ("DVectorDVectorDiff", "DVector2"), ("DVectorDVectorSum", "DVector2"), ("DVectorMinMax", "DVector2"), ("DVectorMedian", "DVector2"),
    ("Matrix2SquareMatrix", "MatMaps"), ("Matrix2ABSMatrix", "MatMaps"), ("Matrix2SQRTMatrix", "MatMaps"), ("Matrix2LogMatrix", "MatMaps"),
    ("MatrixRowCenterScaling", "MatMaps"), ("MatrixSVNScaling", "MatMaps"), ("GenIdentityMatrix", "MatMaps"),
    ("MatrixGetMaxValueIndex", "MatMaps"), ("MatrixGetMinValueIndex", "MatMaps"),
    ("MatrixColDescStat", "DescStat"), ("MatrixColDescStat@missing", "DescStatMiss"),
    ("PearsonCorrelMatrix", "Correl"), ("SpearmanCorrelMatrix", "Correl"), ("DVectorTransposedMatrixDivision", "Division"),
    ("TensorTranspose", "Tensor"), ("KronekerProductVectorMatrix", "Tensor"), ("TensorColAverage", "Tensor"), ("TensorColSDEV", "Tensor"),
]
FAMILIES = sorted(set(f for _, f in FUNCS))
FIRST_BATCH = set(fn for fn, _ in FUNCS[:26])          # their signatures keep the two classes they always had
# results recorded for TLC (trace validation) instead of being compared with one expected value
RECORDED = {"MatrixSort": "Sort", "MatrixReverseSort": "Sort", "MatrixGetMaxValueIndex": "ArgExt", "MatrixGetMinValueIndex": "ArgExt"}
# K3 ledger lines (largest relative residual of a location-shifted statistic), judged by TLC with the tolerance function LocTol of TraceKernels.tla
LOC_FUNCS = {"MatrixColVar", "MatrixColSDEV", "MatrixCovariance", "DVectorSDEV", "TensorColSDEV", "MatrixColDescStat"}
# behaviour the extended specification models exactly but the statement of C11 does not promise: deviations are EXTRA-FINDINGs, never a verdict
#   MatrixColDescStat@missing: the statistics of a column that holds the MISSING code (only the .c comment mentions missing values, no header documents skipping)
#   The statement of C11 names products, outer products, transpose, trace, norms, covariance, column/row statistics, sorting and the tensor contractions
#   (anchors: matrix.c MatrixColAverage..MatrixColVar, MatrixCovariance, Matrixnorm, MatrixSort, tensor.c contractions).  The routines below are dense
#   kernels the specification defines exactly as well, but no sentence of the statement promises them: identity generation, position of the extreme
#   cell, element-wise maps, row scalings, correlation matrices, right division.  Their deviations are reported, never judged.
EXTRA_ONLY = {"MatrixColDescStat@missing", "GenIdentityMatrix", "MatrixGetMaxValueIndex", "MatrixGetMinValueIndex",
              "Matrix2LogMatrix", "Matrix2SquareMatrix", "Matrix2SQRTMatrix", "Matrix2ABSMatrix", "MatrixRowCenterScaling", "MatrixSVNScaling",
              "PearsonCorrelMatrix", "SpearmanCorrelMatrix", "DVectorTransposedMatrixDivision"}
BATCH2 = {"DVector2", "MatMaps", "DescStat", "DescStatMiss", "Correl", "Division"}
LAWS = ["LawProductTranspose", "LawDistributive", "LawTraceCyclic", "LawShapes", "LawInvolution", "LawMatVec", "LawVecMat", "LawOuter", "LawTrace", "LawNorm",
        "LawCovariance", "LawColStats", "LawTensor", "LawSort", "LawVecDiffSum", "LawOrderStats", "LawUnitNorm", "LawMaps", "LawArgExt", "LawDescStat",
        "LawDescStatMiss", "LawCorrel", "LawDivision", "LawTensor2"]


def _flat(x, out):
    if isinstance(x, list):
        for y in x:
            _flat(y, out)
    else:
        out.append(int(x))
    return out


def _write_cases(path, emits, fam=None):
    with open(path, "w") as f:
        for e in emits:
            if fam is not None and e["kern"] != fam:
                continue
            f.write("%s %d %d %d %d %d %d\n" % (e["kern"], e["sd"], e["r"], e["k"], e["c"], len(e["inp"]), len(e["out"])))
            for a in list(e["inp"]) + list(e["out"]):
                v = _flat(a, [])
                f.write("%d %s\n" % (len(v), " ".join(map(str, v))))


def shape_class(fam, r, k, c):
    """descriptive shape class (goes into the text of a report)"""
    if fam == "MatrixDotProduct":
        inner = inner_class(k)
        return inner + (" with an empty outer dimension" if r == 0 or c == 0 else "")
    if fam in ("DVector", "DVector2", "Division"):
        return "empty" if r == 0 else "size %d" % r
    pre = "%d slices of " % k if fam == "Tensor" else ""
    if r == 0 or c == 0:
        return pre + "empty"
    if r == 1 or c == 1:
        return pre + ("1x1" if r == c else ("1xN" if r == 1 else "Nx1"))
    return pre + ("square" if r == c else ("wide" if c > r else "tall"))


def inner_class(k):
    return "inner0" if k == 0 else ("plain" if k < 4 else "unrolled-tail%d" % (k % 4))


def fail_class(fam, e):
    """signature class of a value mismatch: ONE per defect, independent of the operand shape except for the matrix product, where the
    class of the inner dimension (plain loop / unrolled loop with tail 0..3) is exactly what the property quantifies over"""
    if fam == "MatrixDotProduct":
        return inner_class(e["k"])
    sc = e.get("scales", 2)
    if sc == 16:
        return "non-dyadic-unit"                # fails only where the operands carry a rounding error (unit 0.1, 1/3, 1e-3): K5
    if e.get("fn") in FIRST_BATCH:
        return "tiny-scale" if sc == 1 else "value"      # fails only for operands scaled by 2^-19 / at the unit scale too
    if e.get("stale"):
        return "stale-output"                  # first seen in the second call into an already sized, non-zero output
    if sc & 2:
        return "value"                         # fails at the unit scale too
    if not sc & 4:
        return "tiny-scale"                    # fails only where operands are scaled by 2^-20 (alone or in the mixed-units pass)
    return "large-scale" if not sc & 1 else "scale"


def _scales_text(sc):
    names = [(1, "2^-19"), (2, "1"), (4, "2^17"), (8, "mixed per-column units"), (16, "a non-dyadic unit (0.1, 1/3 or 1e-3)")]
    bad = [n for b, n in names if sc & b]
    good = [n for b, n in names if not sc & b and b not in (8, 16)]
    return "; fails at scales {%s}%s" % (", ".join(bad), (", correct at {%s}" % ", ".join(good)) if good else "")


DEC_FUNCS = {"MatrixDotProduct", "MatrixDVectorDotProduct", "MT_MatrixDVectorDotProduct", "DVectorMatrixDotProduct", "MT_DVectorMatrixDotProduct", "RowColOuterProduct",
             "DVectorTrasposedDVectorDotProduct", "MatrixTranspose", "MatrixTrace", "DVectorDVectorDotProd", "TransposedTensorDVectorProduct", "DvectorTensorDotProduct",
             "TensorMatrixDotProduct", "MatrixColAverage", "MatrixRowAverage", "DVectorMean"}


def _replay_classes(fn, fam, e):
    """input classes (INPUT-CLASSES.md) one replayed case covers; every case runs at the three dyadic scales"""
    r, k, c = e["r"], e["k"], e["c"]
    out = ["K4:scales-2^-19,1,2^17"]
    if fam == "MatrixDotProduct":
        out.append("K2:inner-mod4=%d%s" % (k % 4, "" if k >= 4 else "-plain"))
        out.append("K1:" + ("empty" if 0 in (r, k, c) else ("square" if r == c else ("wide" if c > r else "tall"))))
        if k > 17:
            out.append("K2:inner-%d" % k)
    elif fam in ("DVector", "DVector2", "Division"):
        out.append("K1:size%s" % ("0" if r == 0 else ("1" if r == 1 else ("2..4" if r <= 4 else ">=5"))))
    else:
        out.append("K1:" + shape_class(fam, r, k, c).replace(" slices of ", "-slices:").replace(" ", "-"))
        if max(r, c) > 17:
            out.append("K2:dimension-%d" % max(r, c))
    if fn in DEC_FUNCS:
        out.append("K5:non-dyadic-unit")
    if fn.startswith("MT_"):
        out.append("K6:nproc2,3,5")
    if fam in BATCH2 or fn in ("TensorTranspose", "KronekerProductVectorMatrix"):
        out.append("K7:out-stale")
        out.append("K4:mixed-col-units")
    if fn in LOC_FUNCS and r >= 2 and c >= 1:
        out.append("K3:location")
    if fn == "MatrixColDescStat@missing":
        out.append("K9:missing-one-cell-per-odd-column")
    return out


def _nontrivial(fam, r, k, c):
    if fam == "MatrixDotProduct":
        return k >= 1 and r >= 1 and c >= 1
    if fam in ("DVector", "DVector2", "Division"):
        return r >= 1
    return r >= 1 and c >= 1


def _unroll(ctx):
    cfg = "MC_Unroll_quick.cfg" if ctx.quick else "MC_Unroll_thorough.cfg"
    r = tlc.run("Unroll", cfg, workers=2, timeout=300)
    ctx.add_tlc(r, "mc_unroll")
    if not r.ok:
        # the index model of the tree's loop is itself wrong: a design-level counterexample, reported with an implementation witness only
        # if the replay below also fails (DESIGN section 4 (V)); here it is the machinery's problem
        raise InfraError("Unroll.tla: %s fails for the variant the tree implements:\n%s" % (r.violation, r.trace_text[:1200]))
    m = tlc.run("Unroll", "MC_Unroll_mutant.cfg", workers=2, timeout=300)
    if m.ok or m.violation != "EachTermOnce":
        raise InfraError("Unroll.tla lost its teeth: the tail-from-col%4 variant is not refuted")
    ctx.steps["mc_unroll_mutant"] = dict(refuted="EachTermOnce", variant="TailFrom=mod")
    ctx.note("Unroll: every term visited exactly once and unrolled sum = definition for %d inner dimensions; variant tail-from-col%%4 refuted" % r.distinct)


def _gen(ctx, cfg, label):
    r = tlc.run("Kernels", cfg, workers=W, timeout=1500, coverage=False, xmx="8g")
    ctx.add_tlc(r, label)
    if not r.ok:
        raise InfraError("Kernels.tla: law %s fails in the model itself:\n%s" % (r.violation, r.trace_text[:1500]))
    return r


def _report(ctx, fn, sig, what, replay_case):
    """a deviation of an EXTRA_ONLY pseudo-function is reported as EXTRA-FINDING, everything else is a violation"""
    if fn in EXTRA_ONLY:
        ctx.extra(sig, what)
    else:
        ctx.violation(sig, what, replay_case)


def _drive(ctx, emits, funcs, rd, tag=""):
    """run the harness, one process per library function; returns the recorded Sort / ArgExt events"""
    fams = {}
    for e in emits:
        fams.setdefault(e["kern"], []).append(e)
    casefile = {}
    for fam in fams:
        casefile[fam] = os.path.join(rd, "cases%s-%s.txt" % (tag, fam))
        _write_cases(casefile[fam], fams[fam])
    lib = build.build_lib("san")
    exe = build.build_harness("c11", ["c11_replay.c"], lib)
    jobs = [[casefile[fam], os.path.join(rd, "o%s-%s.ndjson" % (tag, fn.replace("@", "_"))), fn] for fn, fam in funcs if fam in fams]
    res = hrun.run_many(exe, jobs, timeout=1500, workers=W)
    rec_events = []
    for j, h in zip(jobs, res):
        fn = j[2]
        fam = dict(FUNCS)[fn]
        ev = hrun.read_ndjson(j[1])
        if h.timed_out:
            # a changed kernel may hang: not a verdict (machine load cannot be told from a hang), but what the process recorded is still judged and
            # the other functions / the histories still run; settled at the end of run()
            if getattr(ctx, "_deferred", None) is None:
                raise InfraError("c11 harness timed out on %s" % fn)
            ctx._deferred.add("c11 harness timed out on %s" % fn)
        if h.rc == 2:
            raise InfraError("c11 harness usage/format error on %s: %s" % (fn, h.err[-500:]))
        done = [e for e in ev if e.get("e") == "Done"]
        crash = [e for e in ev if e.get("e") == "Crash"]
        nres = 0
        nrec = 0
        nloc = 0
        for e in ev:
            if e["e"] == "Res":
                nres += 1
                ctx.case((fn, e["sd"], e["r"], e["k"] % 4, e["k"] < 4, e["c"]), _nontrivial(fam, e["r"], e["k"], e["c"]))
                for t in _replay_classes(fn, fam, e):
                    ctx.cls(t)
                if e.get("drift"):
                    ctx.spec_drift("%s returns a non-zero value for a non-square %dx%d matrix (undefined by the property; only memory safety is judged)" % (fn, e["r"], e["c"]))
                if not e["ok"]:
                    exp_txt = "in mixed per-column units" if e["exp"] == 99 else ("in a non-dyadic unit (0.1, 1/3 or 1e-3)" if e["exp"] == 98 else "scaled by 2^%d" % e["exp"])
                    _report(ctx, fn, "KERNEL:%s:%s" % (fn, fail_class(fam, e)),
                            "%s on shape r=%d k=%d c=%d (%s), operands %s%s: cell %s is %s, the definition (%s) gives %s%s"
                            % (fn, e["r"], e["k"], e["c"], shape_class(fam, e["r"], e["k"], e["c"]), exp_txt,
                               ", second call into an already sized non-zero output" if e.get("stale") else "", e["at"], e["got"], e["what"], e["want"],
                               "; correct at scales 1 and 2^17" if e.get("scales") == 1 else (_scales_text(e["scales"]) if fam in BATCH2 or e.get("scales", 0) & 24 else "")),
                            dict(kind="kernel", fn=fn, sd=e["sd"], r=e["r"], k=e["k"], c=e["c"], exp=e["exp"]))
            elif e["e"] == "Sort":
                nrec += 1
                ctx.case((fn, e["sd"], e["rows"], e["key"], e["cols"], e["exp"]), e["rows"] >= 2)
                rec_events.append(e)
            elif e["e"] == "ArgExt":
                nrec += 1
                ctx.case((fn, e["sd"], e["rows"], e["cols"], e["exp"]), e["rows"] * e["cols"] >= 2)
                rec_events.append(e)
            elif e["e"] == "Reset":
                nres += 1
                rec_events.append(e)
            elif e["e"] == "Loc":
                nloc += 1
                ctx.cls("K3:offset/spread>=1e5")
                ctx.case((fn, "loc", e["sd"], e["r"], e["k"], e["c"], e["exp"]), True)
                rec_events.append(e)
            elif e["e"] == "Note" and e.get("what") == "rsq":
                ctx.extra("KERNEL:%s:r-squared" % fn,
                          "%s returns the SQUARE of the Pearson coefficient (cell %s of a %dx%d operand: %s, Pearson r = %s): the sign of a negative correlation is lost; the header says "
                          "'pearson correlation matrix', the .c comment names the quantity RSQ - the specification accepts either reading" % (fn, e["at"], e["r"], e["c"], e["got"], e["pearson"]))
        if h.timed_out:
            pass
        elif h.rc != 0 or not done:
            last = crash[-1] if crash else {}
            r_, k_, c_ = last.get("r", -1), last.get("k", -1), last.get("c", -1)
            sc = shape_class(fam, r_, k_, c_) if crash else "unknown"
            kind = h.san or "crash:rc%d" % h.rc
            _report(ctx, fn, "KERNEL:%s:%s" % (fn, ":".join(kind.split(":")[:2])),
                    "%s on shape r=%s k=%s c=%s (%s; %s): %s\n%s" % (fn, r_, k_, c_, sc, "mixed per-column units" if last.get("exp") == 99 else "scale 2^%s" % last.get("exp", "?"), kind, _san_brief(h.err)),
                    dict(kind="kernel", fn=fn, sd=last.get("sd", 0), r=r_, k=k_, c=c_, exp=last.get("exp", 0)))
        elif done[0]["cases"] != len(fams[fam]) or nres < len(fams[fam]):
            raise InfraError("c11 harness ran %s cases of %s, %d were generated" % (done[0]["cases"], fn, len(fams[fam])))
        elif fn in RECORDED and nrec == 0 and any(_nontrivial(fam, e["r"], e["k"], e["c"]) for e in fams[fam]):
            raise InfraError("c11 harness recorded no %s event for %s" % (RECORDED[fn], fn))
        elif fn in LOC_FUNCS and nloc == 0 and any(e["r"] >= 2 and e["c"] >= 1 for e in fams[fam]):
            raise InfraError("c11 harness recorded no location (K3) ledger line for %s" % fn)
    return rec_events


def _check_recorded(ctx, rec_events, label="trace_sort", selftest=True):
    """Sort and ArgExt events, one trace, judged by TLC (TraceKernels.tla)"""
    kinds = set(e["e"] for e in rec_events) - {"Reset"}
    if not kinds:
        return
    ev = [{k: v for k, v in e.items() if k not in ("exp", "sd") and not (e["e"] == "Loc" and k in ("r", "k", "c"))} for e in rec_events]
    src = {id(a): b for a, b in zip(ev, rec_events)}

    def on_reject(e, idx, block):
        o = src.get(id(e), e)
        fn = e.get("fn", "MatrixSort")
        if e.get("e") == "Loc":
            ctx.violation("KERNEL:%s:location" % fn,
                          "%s on a %sx%s operand (scale 2^%s) whose columns lie %s units from the origin (spread <= %s units, |mean|/spread >= %d): the result differs from the exact value by %.3g relative; "
                          "the statistic does not depend on the location and the tolerance LocTol(n, offset, spread) of TraceKernels.tla is %.3g (a one-pass sum-of-squares formula loses eps*cond^2)"
                          % (fn, o.get("r"), o.get("c"), o.get("exp"), e.get("off"), e.get("sp"), e.get("off", 0) // max(1, e.get("sp", 1)), e.get("res", 0) * 1e-12,
                             (100 + e.get("n", 0) ** 2 * ((e.get("off", 0) // max(1, e.get("sp", 1))) // 1024) ** 2 // 200) * 1e-12),
                          dict(kind="kernel", fn=fn, sd=o.get("sd", 0), r=o.get("r"), k=o.get("k", 0), c=o.get("c"), exp=o.get("exp", 0)))
        elif e.get("e") == "ArgExt":
            m = e.get("m") or [[0]]
            flat = [x for row in m for x in row]
            ext = max(flat) if e.get("max") else min(flat)
            inside = 0 <= e.get("row", -1) < e.get("rows", 0) and 0 <= e.get("col", -1) < e.get("cols", 0)
            _report(ctx, fn, "KERNEL:%s:position" % fn,
                          "%s on a %dx%d matrix (scale 2^%s) returned position [%s][%s] (%s) but the %s value is %s: %s"
                          % (fn, e.get("rows"), e.get("cols"), o.get("exp", "?"), e.get("row"), e.get("col"),
                             "value %s" % m[e["row"]][e["col"]] if inside else "outside the matrix", "largest" if e.get("max") else "smallest", ext, m),
                          dict(kind="kernel", fn=fn, sd=o.get("sd", 0), r=e.get("rows"), k=0, c=e.get("cols"), exp=o.get("exp", 0)))
        else:
            ctx.violation("KERNEL:%s:order" % fn, "%s by column %s of %s (scale 2^%s) returned %s: not a permutation of the rows ordered by the key column"
                          % (fn, e.get("key"), e.get("m"), o.get("exp", "?"), e.get("res")),
                          dict(kind="kernel", fn=fn, sd=o.get("sd", 0), r=e.get("rows"), k=e.get("key"), c=e.get("cols"), exp=o.get("exp", 0)))
        return lambda x: x.get("fn") == fn
    trace.check_trace(ctx, "TraceKernels", "Trace_Kernels.cfg", "Trace_Kernels_prop.cfg", ev, on_reject, drop="event", label=label, timeout=1500)
    ctx.traces(sum(1 for e in ev if e["e"] != "Reset"))
    if not selftest:
        return
    if "Sort" in kinds:
        def corrupt(evs):
            for e in evs:
                if e["e"] == "Sort" and e["rows"] >= 3 and e["cols"] >= 2:
                    e["res"][0][e["cols"] - 1 if e["key"] != e["cols"] else 0] += 7      # a cell that is not the key: order stays, row multiset breaks
                    return True
            return False
        sub = [e for e in ev if e["e"] == "Sort" and e["rows"] >= 3 and e["cols"] >= 2][:30]
        trace.binding_selftest(ctx, "TraceKernels", "Trace_Kernels_prop.cfg", sub, corrupt, "binding_sort")
    if "Loc" in kinds:
        def corrupt_loc(evs):
            for e in evs:
                if e["e"] == "Loc":
                    e["res"] = 2000000          # 2e-6 relative: what a one-pass formula loses at this conditioning
                    return True
            return False
        sub = [e for e in ev if e["e"] == "Loc"][:30]
        trace.binding_selftest(ctx, "TraceKernels", "Trace_Kernels_prop.cfg", sub, corrupt_loc, "binding_loc")
    if "ArgExt" in kinds:
        def corrupt_arg(evs):
            for e in evs:
                if e["e"] == "ArgExt" and e["rows"] >= 2 and e["cols"] >= 2:
                    flat = [x for row in e["m"] for x in row]
                    if min(flat) == max(flat):
                        continue
                    # point at a cell that does not hold the extreme value
                    for i in range(e["rows"]):
                        for j in range(e["cols"]):
                            if e["m"][i][j] != e["m"][e["row"]][e["col"]]:
                                e["row"], e["col"] = i, j
                                return True
            return False
        def holds_extreme(e):
            flat = [x for row in e["m"] for x in row]
            return 0 <= e["row"] < e["rows"] and 0 <= e["col"] < e["cols"] and e["m"][e["row"]][e["col"]] == (max(flat) if e["max"] else min(flat))
        sub = [e for e in ev if e["e"] == "ArgExt" and e["rows"] >= 2 and e["cols"] >= 2 and holds_extreme(e)][:30]
        if not sub:
            raise InfraError("no ArgExt event large enough for the binding self-test")
        trace.binding_selftest(ctx, "TraceKernels", "Trace_Kernels_prop.cfg", sub, corrupt_arg, "binding_argext")


# ---- stateful layer: histories of kernel calls over an object store (KernelHist.tla / TraceKernelHist.tla, harness/c11_hist.c) ----
HIST_GROUPS = ["prod", "mv", "mt", "outer", "outer2", "stats", "cov", "scalar", "sort", "tensor"]
HIST_FNS = {"MatrixDotProduct", "MatrixDotProduct_", "MatrixDotProduct_LOOP_UNROLLING", "MatrixDVectorDotProduct", "MT_MatrixDVectorDotProduct", "DVectorMatrixDotProduct",
            "MT_DVectorMatrixDotProduct", "RowColOuterProduct", "DVectorTrasposedDVectorDotProduct", "MatrixTranspose", "MatrixTrace", "Matrixnorm", "MatrixColAverage",
            "MatrixRowAverage", "MatrixColVar", "MatrixColSDEV", "MatrixColRMS", "MatrixCovariance", "DVectorDVectorDotProd", "DvectorModule", "DVectorMean", "DVectorSDEV",
            "TransposedTensorDVectorProduct", "DvectorTensorDotProduct", "TensorMatrixDotProduct", "MatrixSort", "MatrixReverseSort"}
HIST_MISS_FNS = {"MatrixDVectorDotProduct", "DVectorMatrixDotProduct", "MT_MatrixDVectorDotProduct", "MT_DVectorMatrixDotProduct", "RowColOuterProduct", "DVectorTrasposedDVectorDotProduct",
                 "MatrixColAverage", "MatrixRowAverage", "MatrixColVar", "MatrixColSDEV", "MatrixColRMS", "DVectorDVectorDotProd", "DvectorModule"}
# one TLC run per bundle; the self-sizing outer product has a bundle of its own so that repeated rejections there never cut the examination of the others short
HIST_BUNDLES = [("A", ["prod", "mv", "mt"]), ("B", ["outer", "stats", "cov"]), ("C", ["scalar", "sort", "tensor"]), ("D", ["outer2"]), ("M", ["miss"])]
HIST_TRACE_KINDS = ("Reset", "Put", "Free", "Call", "CallM", "Law")
HIST_DROP = ("cls", "h", "om", "im", "how", "g")          # bookkeeping fields TLC does not need


def _hist_sig(fn, e):
    om, im, h = e.get("om", "?"), e.get("im", "?"), e.get("h", 0)
    if om not in ("fresh", "inplace"):
        return "KERNEL:%s:hist:out-%s" % (fn, om)          # the state of the output object decided
    if h and im == "inplace":
        return "KERNEL:%s:hist:in-place-operands" % fn
    if h:
        return "KERNEL:%s:hist:later-call" % fn
    return "KERNEL:%s:hist:first-call" % fn


def _hist_run(ctx, groups, rd):
    lib = build.build_lib("san")
    exe = build.build_harness("c11hist", ["c11_hist.c"], lib)
    # no quarantine: a freed object's address is handed out again at once, so address re-use really happens inside a history
    env = {"ASAN_OPTIONS": hrun.SAN_ENV["ASAN_OPTIONS"] + ":quarantine_size_mb=0"}
    jobs = [[os.path.join(rd, "hist-%s.ndjson" % g), g, ctx.seed, 0 if ctx.quick else 1] for g in groups]
    res = hrun.run_many(exe, jobs, timeout=1500, workers=W, env=env)
    out = {}
    for j, h in zip(jobs, res):
        g = j[1]
        if h.timed_out:
            if getattr(ctx, "_deferred", None) is None:
                raise InfraError("c11_hist timed out on group %s" % g)
            ctx._deferred.add("c11_hist timed out on group %s" % g)       # see _drive: the recorded histories are still judged
        if h.rc == 2:
            raise InfraError("c11_hist usage/format error on group %s: %s" % (g, h.err[-500:]))
        ev = hrun.read_ndjson(j[0])
        done = [e for e in ev if e.get("e") == "Done"]
        crashes = [e for e in ev if e.get("e") == "Crash"]
        extra = g == "miss"
        for c in crashes:
            fn = c.get("fn", "?")
            kind = ":".join((h.san or "crash:rc%d" % h.rc).split(":")[:2])
            sig = "%s:%s" % (_hist_sig(fn, c), kind)
            what = ("%s dies in call %s of a history (operands %s, output %s; classes %s): %s\n%s"
                    % (fn, c.get("h"), c.get("im"), c.get("om"), ", ".join(c.get("cls", [])), h.san or "rc %d" % h.rc, _san_brief(h.err)))
            if extra:
                ctx.extra(sig, what)
            else:
                ctx.violation(sig, what, dict(kind="hist", group=g, fn=fn))
        if not done and not h.timed_out:
            if not crashes:
                _report(ctx, "MatrixColDescStat@missing" if extra else "hist", "KERNEL:hist:%s:%s" % (g, ":".join((h.san or "crash:rc%d" % h.rc).split(":")[:2])),
                        "history group %s died (rc %d): %s\n%s" % (g, h.rc, h.san, _san_brief(h.err)), dict(kind="hist", group=g, fn="?"))
            ctx.note("history group %s did not finish: its remaining histories were not run" % g)
        calls = [e for e in ev if e.get("e") in ("Call", "CallM")]
        if done and not calls:
            raise InfraError("vacuous run: history group %s recorded no call" % g)
        if done and done[0]["calls"] < len(calls):
            raise InfraError("history group %s: Done counts %s calls, %d recorded" % (g, done[0]["calls"], len(calls)))
        for e in calls:
            ctx.case(("hist", e["fn"], e.get("om"), e.get("im"), e.get("h"), e["row"], e["col"], e.get("np"), tuple(e.get("cls", []))), e["row"] * e["col"] >= 1)
            for t in e.get("cls", []):
                ctx.cls(t)
        for e in ev:
            if e.get("e") == "Law":
                for t in e.get("cls", []):
                    if t.startswith("LAW:"):
                        ctx.cls(t)
        out[g] = [dict(e, g=g) for e in ev if e.get("e") in HIST_TRACE_KINDS]
    return out


def _hist_check(ctx, g, events, selftest=True):
    """one group's histories, judged by TLC against the store machine; a rejected history (Reset block) is reported and dropped"""
    if not any(e["e"] in ("Call", "CallM") for e in events):
        return
    ev = [{k: v for k, v in e.items() if k not in HIST_DROP} for e in events]
    src = {id(a): b for a, b in zip(ev, events)}
    extra = g == "M"
    seen = set()

    def on_reject(e, idx, block):
        o = src.get(id(e), e)
        grp = o.get("g", "?")
        fn = e.get("fn", e.get("law", "?"))
        if e.get("e") == "Law":
            sig = "KERNEL:law:%s" % e.get("law")
            what = "law %s does not hold on what the library returned: slots %s of the history hold %s" % (e.get("law"), e.get("s"), [b for b in block if b.get("e") == "Call"][-3:])
        elif e.get("e") in ("Call", "CallM"):
            sig = _hist_sig(fn, o) if not extra else "KERNEL:%s:missing-code" % fn
            ins = [b for b in block[:block.index(e)] if b.get("e") == "Put"]
            what = ("%s, call %s of a history in one process (operands %s, output object %s; classes %s): the output holds %dx%d %s%s after the call, "
                    "which is not the definition applied to the operands the store machine holds (last objects placed: %s)"
                    % (fn, o.get("h"), o.get("im"), o.get("om"), ", ".join(o.get("cls", [])), e.get("row"), e.get("col"), str(e.get("d"))[:300],
                       "" if e.get("exact") else " (cells that are not multiples of their unit)", str([(p.get("s"), p.get("row"), p.get("col"), p.get("d")) for p in ins[-3:]])[:600]))
        else:
            raise InfraError("history trace of bundle %s rejected at a bookkeeping event: %s" % (g, str(e)[:300]))
        if extra:
            ctx.extra(sig, what)
        else:
            ctx.violation(sig, what, dict(kind="hist", group=grp, fn=fn))
        dup = sig in seen
        seen.add(sig)
        return "dup" if dup else None
    trace.check_trace(ctx, "TraceKernelHist", "Trace_KernelHist.cfg", "Trace_KernelHist_prop.cfg", ev, on_reject, drop="block", label="trace_hist_%s" % g, timeout=1500)
    ctx.traces(sum(1 for e in ev if e["e"] in ("Call", "CallM")))
    if not selftest:
        return
    # binding self-tests: one corrupted field per event kind must be rejected
    def first_block_with(pred):
        for b in tlc.split_blocks(ev):
            if any(pred(e) for e in b):
                return b
        return None

    def corrupt_call(evs):
        for e in evs:
            if e["e"] in ("Call", "CallM") and e["row"] >= 1 and e["col"] >= 1:
                e["d"][0][0] += 3
                return True
        return False

    def corrupt_put(evs):
        # change an operand AFTER the fact: the recorded result no longer matches the store
        for i, e in enumerate(evs):
            if e["e"] == "Put" and e["s"] == 0 and e["row"] >= 1 and e["col"] >= 1 and e.get("t") != "t":
                e["d"][0][0] += 1 if e["d"][0][0] != 99999998 else -1
                return True
        return False
    b = first_block_with(lambda e: e["e"] in ("Call", "CallM") and e["row"] >= 1 and e["col"] >= 1 and e.get("fn") not in ("MatrixSort", "MatrixReverseSort"))
    if b and g in ("A", "M"):
        trace.binding_selftest(ctx, "TraceKernelHist", "Trace_KernelHist_prop.cfg", b, corrupt_call, "binding_hist_call_%s" % g)
    if g == "A":
        def corrupt_law(evs):
            for e in evs:
                if e["e"] == "Law" and e["law"] == "Distributive":
                    e["s"] = [e["s"][0], e["s"][1], e["s"][1]]
                    return True
            return False
        b = first_block_with(lambda e: e["e"] == "Law" and e.get("law") == "Distributive")
        if b is None:
            raise InfraError("no Distributive law event recorded")
        # only meaningful when AB # AC, which holds for every non-degenerate block; pick one with cells
        b2 = [blk for blk in tlc.split_blocks(ev) if any(e["e"] == "Law" and e.get("law") == "Distributive" for e in blk)
              and all(e["row"] >= 2 and e["col"] >= 2 for e in blk if e["e"] == "Call")]
        if b2:
            trace.binding_selftest(ctx, "TraceKernelHist", "Trace_KernelHist_prop.cfg", b2[0], corrupt_law, "binding_hist_law")
        # the contract's precondition is part of the judgement: an accumulating kernel handed a non-zero output must not be judged (pc = 1 insists)
        def corrupt_pre(evs):
            for e in evs:
                if e["e"] == "Put" and e["s"] == 3 and e["row"] >= 1 and e["col"] >= 1 and not any(x for row in e["d"] for x in row):
                    e["d"][0][0] = 1
                    return True
            return False
        b4 = [blk for blk in tlc.split_blocks(ev) if any(e["e"] == "Call" and e["fn"] == "MatrixDotProduct" and e["out"] == 3 and e["row"] >= 1 and e["col"] >= 1 for e in blk)]
        if not b4:
            raise InfraError("no MatrixDotProduct history for the precondition self-test")
        trace.binding_selftest(ctx, "TraceKernelHist", "Trace_KernelHist_prop.cfg", b4[0], corrupt_pre, "binding_hist_precond")
        b3 = [blk for blk in tlc.split_blocks(ev) if any(e["e"] == "Put" and e["s"] == 0 and e["row"] >= 2 and e["col"] >= 2 for e in blk)]
        if b3:
            trace.binding_selftest(ctx, "TraceKernelHist", "Trace_KernelHist_prop.cfg", b3[0], corrupt_put, "binding_hist_put")


def _hist_model(ctx):
    """the store machine itself, model-checked on a small universe: contracts and history independence as invariants"""
    r = tlc.run("KernelHist", "MC_KernelHist_quick.cfg" if ctx.quick else "MC_KernelHist.cfg", workers=2 if ctx.quick else min(W, 4), timeout=1500)
    ctx.add_tlc(r, "mc_kernelhist")
    if not r.ok:
        raise InfraError("KernelHist.tla: %s fails in the model itself:\n%s" % (r.violation, r.trace_text[:1500]))
    z = r.zero_actions(ignore=("TypeOK",))
    if z:
        raise InfraError("KernelHist.tla: actions never taken: %s" % z)
    ctx.note("KernelHist: %d states of the store machine, contracts ZeroContract / NoHiddenState / Idempotent / AccumulateTwice hold (%.1fs)" % (r.distinct, r.wall))


def _hist(ctx, rd):
    from concurrent.futures import ThreadPoolExecutor
    groups = HIST_GROUPS + ["miss"]
    evs = _hist_run(ctx, groups, rd)
    bundles = [(b, [e for g in gs for e in evs.get(g, [])]) for b, gs in HIST_BUNDLES]
    with ThreadPoolExecutor(max(1, min(W, 4))) as ex:
        list(ex.map(lambda be: _hist_check(ctx, be[0], be[1]), [be for be in bundles if be[1]]))
    # vacuity: every kernel of the store machine, every output / operand mode and every law really occurred
    seen_fn = set(e["fn"] for g in evs for e in evs[g] if e["e"] == "Call")
    miss_fn = set(e["fn"] for g in evs for e in evs[g] if e["e"] == "CallM")
    seen_om = set(e.get("om") for g in evs for e in evs[g] if e["e"] == "Call")
    seen_law = set(e.get("law") for g in evs for e in evs[g] if e["e"] == "Law")
    kinds = set(e["e"] for g in evs for e in evs[g])
    crashed = any(not any(e.get("e") == "Reset" for e in evs[g]) for g in evs)
    if not ctx.violations and not crashed:
        lacking = (HIST_FNS - seen_fn) | (HIST_MISS_FNS - miss_fn)
        if lacking:
            raise InfraError("vacuous run: no history recorded for %s" % sorted(lacking))
        if {"fresh", "rezero", "resize", "stale", "junk", "misshaped", "append", "inplace"} - seen_om:
            raise InfraError("vacuous run: output modes never exercised: %s" % sorted({"fresh", "rezero", "resize", "stale", "junk", "misshaped", "append", "inplace"} - seen_om))
        if {"ProductTranspose", "Distributive", "Involution", "CovSymPSD"} - seen_law:
            raise InfraError("vacuous run: laws never recorded: %s" % sorted({"ProductTranspose", "Distributive", "Involution", "CovSymPSD"} - seen_law))
        if {"Reset", "Put", "Free", "Call", "CallM", "Law"} - kinds:
            raise InfraError("vacuous run: trace actions never taken: %s" % sorted({"Reset", "Put", "Free", "Call", "CallM", "Law"} - kinds))
    ncall = sum(1 for g in evs for e in evs[g] if e["e"] in ("Call", "CallM"))
    ctx.note("histories: %d kernel calls in %d histories judged by TLC against the store machine (groups %s)"
             % (ncall, sum(1 for g in evs for e in evs[g] if e["e"] == "Reset"), ", ".join(groups)))
    for g in ("prod", "cov"):
        for e in evs.get(g, []):
            if e["e"] == "Call" and e.get("h") == 1 and e["row"] in (2, 3) and e["col"] in (2, 3):
                ctx.sample({k: v for k, v in e.items()}, 12)
                break


def run(ctx):
    ctx.assumptions += [
        "TLC's integer arithmetic and the IntMat/KernelDefs/Kernels definitions are the reference; shapes are exhaustive within the stated bounds, operand values are deterministic fills over -5..5 (1 per shape quick, 3 thorough) at scales 2^-19, 1, 2^17 (every value inside 1e-6..1e6)",
        "non-dyadic pass (K5): operands mantissa*u, u in {0.1, 1/3, 1e-3}, for sums of products and averages; tolerance (terms+4)*eps*sum|terms| absolute (twice the worst case of recursive summation incl. the rounding of the operands)",
        "location pass (K3): columns moved by +-(2^19 - 4096 (j mod 8)) units at scales <= 1 (|mean|/spread 1e5..5e5, every value still inside 1e-6..1e6); variance, sdev^2, covariance within 1e-8 relative as before, and the largest relative residual is judged by TLC against LocTol(n, offset, spread) = 1e-10 + n^2 (cond/1024)^2/200 * 1e-12 (TraceKernels.tla)",
        "stateful layer: a kernel call may depend on the values of its operands and, by its output contract, on the previous state of its output only; accumulating kernels are judged into zero-initialised outputs (their documented use), overwriting kernels into outputs of the right shape holding other data, self-sizing kernels into outputs of any shape and contents, appending kernels into empty vectors; the implementation-shaped expectations (previous output + definition, previous vector ++ definition, the permutation of the exchange sort) are SPEC-DRIFT only",
        "stateful layer tolerances: integer kernels (products, outer products, transpose, trace, dot, tensor contractions, sort) exact; averages, variances, covariance within 2^-sh and norms / standard deviations / RMS by the bracket (g-1)^2 den <= num 4^sh <= (g+1)^2 den, g = round(x 2^sh), sh chosen per call as large as 32-bit arithmetic allows (recorded in the event)",
        "a result without cells (0 x c, r x 0) is empty whatever its nominal shape",
        "integer-valued results are compared exactly; averages within 4 ulp; variances, SDEV^2, covariance within 1e-12 relative (floor 4^e); norms and SDEV through their squares",
        "outputs are pre-zeroed where the kernels accumulate with += ; variances/covariance need >= 2 rows, averages >= 1 row/column (outside: only memory safety is judged)",
        "ASan/UBSan build: any sanitizer report while a kernel runs on a conformable operand shape is a violation",
        "MatrixSort/MatrixReverseSort results are judged by TLC on the recorded input/output (any row permutation ordered by the key is accepted)",
        "second batch: every routine is fed inside its domain only (non-zero vector for DVectNorm, >= 1 entry for min/max/median, positive entries 1..6 for the harmonic mean and CV, >= 2 rows for sample statistics and correlations, "
        "non-constant columns for Pearson, tie-free columns for Spearman, rows with non-zero sum / non-constant rows for the row scalings, strictly diagonally dominant M for v/M, log10(x+1) on 0..999999 at the unit scale only); outside: memory safety only",
        "second batch tolerances: sums/differences/min/max/median/maps/transpose/Kronecker exact; averages and x/rowsum 4 ulp; harmonic mean 1e-13; variances, CV^2, SNV^2, r^2 1e-12; rho 1e-13 absolute; v/M 1e-9 max|x|; "
        "sqrt through its square (4 ulp) and floor bracket; log10(x+1) 4 ulp where x+1 is a power of ten, a 1/3-wide integer bracket elsewhere; the zero count of MatrixColDescStat is judged at scales >= 1 only "
        "(kept from the 2^-20 era although the 2^-19 unit now exceeds the routine's 1e-6 zero threshold)",
        "PearsonCorrelMatrix may return r or r^2 (the tree returns r^2: EXTRA-FINDING); MatrixColDescStat's column layout is the tree's (avg, median, harmonic, var pop/sample, sdev pop/sample, CV pop/sample, min, max, zeros, missing)",
        "MatrixGetMaxValueIndex/MatrixGetMinValueIndex results are judged by TLC on the recorded matrix and position (any cell holding the extreme value is accepted)",
    ]
    _unroll(ctx)
    ctx._deferred = Deferred(ctx)
    # the small model check of the store machine (2 TLC workers) runs beside the enumeration of Kernels.tla (W workers); the histories and
    # their validation then run beside the replay of the enumerated cases
    import threading
    side = {}

    def _guard(fn, *a):
        def run_():
            try:
                fn(*a)
            except BaseException as ex:      # re-raised in the main thread
                side.setdefault("err", ex)
        t = threading.Thread(target=run_)
        t.start()
        return t

    def _hist_side():
        rd0 = tlc.rundir()
        try:
            _hist(ctx, rd0)
        finally:
            shutil.rmtree(rd0, ignore_errors=True)
    t1 = _guard(_hist_model, ctx)
    t2 = None
    try:
        r = _gen(ctx, "MC_Kernels_quick.cfg" if ctx.quick else "MC_Kernels_thorough.cfg", "mc_gen_kernels")
        t2 = _guard(_hist_side)
        _run_replay(ctx, r)
    finally:
        t1.join()
        if t2:
            t2.join()
    if "err" in side:
        raise side["err"]
    ctx._deferred.settle()


def _run_replay(ctx, r):
    fams = {}
    for e in r.emits:
        fams[e["kern"]] = fams.get(e["kern"], 0) + 1
    missing = [f for f in FAMILIES if not fams.get(f)]
    if missing:
        raise InfraError("vacuous run: no case generated for families %s" % missing)
    ctx.steps["mc_gen_kernels"]["cases_per_family"] = fams
    ctx.note("Kernels: %d cases enumerated, %d laws hold on all of them (%.1fs)" % (len(r.emits), len(LAWS), r.wall))
    rd = tlc.rundir()
    try:
        sort_events = _drive(ctx, r.emits, FUNCS, rd)
        _check_recorded(ctx, sort_events)
    finally:
        shutil.rmtree(rd, ignore_errors=True)
    for e in r.emits:
        if e["kern"] == "MatrixDotProduct" and (e["r"], e["k"], e["c"]) in ((2, 5, 3), (1, 7, 2)):
            ctx.sample(e, 2)
    for e in r.emits:
        if (e["kern"], e["r"], e["c"]) in (("Covariance", 3, 2), ("Tensor", 2, 3)) and e["k"] in (0, 2):
            ctx.sample(e, 4)
    for e in sort_events:
        if e["e"] == "Sort" and e["rows"] == 4 and e["cols"] == 2 and e["exp"] == 0:
            ctx.sample(e, 6)
    for e in r.emits:
        if (e["kern"], e["r"], e["c"]) in (("Correl", 4, 2), ("DescStat", 3, 2), ("DVector2", 5, 1)):
            ctx.sample(e, 9)
    for e in sort_events:
        if e["e"] == "ArgExt" and e["rows"] == 3 and e["cols"] == 2 and e["exp"] == 0:
            ctx.sample(e, 10)
    ctx.cov["rule"] = ("TLC enumerates every operand shape (MatrixDotProduct: %s; other kernels: rows, columns 0..17; tensors 1..4 slices; sort 1..4 columns, every key; %d operand fill(s) per shape) "
                       "and each case is run through each library function of its family at 3 scales; second batch: vectors and divisors of size 0..17, matrices %s, additionally in mixed per-column units and "
                       "into stale outputs; a case is keyed by (function, fill, rows, inner mod 4, inner < 4, columns); "
                       "non-trivial = no empty dimension (inner dimension >= 1 for the products)"
                       % ("0..9 cubed plus inner 10..17 for rows, columns in {1,2,5}" if ctx.quick else "0..17 cubed", 1 if ctx.quick else 3,
                          "rows, columns in {0..7, 9, 12, 17}" if ctx.quick else "rows, columns 0..17"))
    ctx.cov["exhaustive"] = True


def replay(ctx, body):
    case = body.get("case") or {}
    if case.get("kind") == "hist" and case.get("group") in HIST_GROUPS + ["miss"]:
        rd = tlc.rundir()
        try:
            evs = _hist_run(ctx, [case["group"]], rd)
            _hist_check(ctx, "M" if case["group"] == "miss" else "R", evs[case["group"]], selftest=False)
            ctx.cov["rule"] = "replay of one group of kernel-call histories (same seed), judged by TLC against the store machine"
        finally:
            shutil.rmtree(rd, ignore_errors=True)
        return
    if case.get("kind") != "kernel" or case.get("r", -1) < 0:
        return run(ctx)
    fn = case["fn"]
    fam = dict(FUNCS)[fn]
    r_, k_, c_ = case["r"], case["k"], case["c"]
    rd = tlc.rundir()
    try:
        consts = dict(KernelSet='{"%s"}' % fam, RSet=[], KSet=[], CSet=[], XRC=[], XK=[], DSet=[], BSet=[], ESet=[], SliceSet=[], SortCols=[], SeedSet=[case.get("sd", 0)], DoEmit=True)
        if fam == "MatrixDotProduct":
            consts.update(RSet=[r_], KSet=[k_], CSet=[c_])
        elif fam == "Tensor":
            consts.update(DSet=sorted({r_, c_}), SliceSet=[k_])
        elif fam == "Sort":
            consts.update(DSet=[r_], SortCols=sorted({k_, c_}))
        elif fam in ("MatMaps", "DescStat", "DescStatMiss", "Correl"):
            consts.update(ESet=sorted({r_, c_}))
        else:
            consts.update(DSet=sorted({r_, c_}))
        cfg = tlc.write_cfg(os.path.join(rd, "replay.cfg"), spec="Spec", constants=consts, constraints=["EmitCase"], deadlock=False,
                            invariants=LAWS)
        g = _gen(ctx, cfg, "gen_replay")
        emits = [e for e in g.emits if (e["r"], e["k"], e["c"]) == (r_, k_, c_)]
        if not emits:
            raise InfraError("replay case not regenerated by TLC: %s" % case)
        sort_events = _drive(ctx, emits, [(fn, fam)], rd, "r")
        _check_recorded(ctx, sort_events, "trace_sort_replay", selftest=False)
        ctx.case(("replay", fn, r_, k_, c_))
        ctx.case(("replay2", fn, r_, k_, c_))
        ctx.sample(emits[0])
        ctx.cov["rule"] = "replay of one (function, shape) case regenerated by TLC"
    finally:
        shutil.rmtree(rd, ignore_errors=True)
