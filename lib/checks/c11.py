"""C11 - dense matrix/vector/tensor kernels compute their definitions for all shapes.

(M)  Unroll.tla: the unrolled inner loop of MatrixDotProduct (k < col-3 step 4, tail from col - col%4, dispatch on
     (int)col-3 > 0) visits every term exactly once for every inner dimension; the classic slip (tail from col%4) is
     run as a self-test and must be refuted.  Kernels.tla (over IntMat.tla): exact integer / rational definitions of
     every kernel, the algebraic laws of the property ((AB)' = B'A', A(B+C) = AB+AC, transpose involution, covariance =
     Gram matrix of the centred data hence symmetric PSD, sort = row permutation ordered by key, ...) checked as
     invariants over the whole enumerated shape space.
     Second batch (48 library functions in all): DVectNorm, DVectorDVectorDiff/Sum, DVectorMinMax, DVectorMedian,
     Matrix2Square/ABS/SQRT/LogMatrix, MatrixRowCenterScaling, MatrixSVNScaling, GenIdentityMatrix,
     MatrixGetMax/MinValueIndex, MatrixColDescStat (13 statistics), PearsonCorrelMatrix, SpearmanCorrelMatrix,
     DVectorTransposedMatrixDivision, TensorTranspose, KronekerProductVectorMatrix, TensorColAverage, TensorColSDEV.
     Their definitions: order statistics by counting (Kth, Median2), harmonic mean through the common multiple 60,
     r^2 = cov_ij^2/(cov_ii cov_jj), rho = (n(n^2-1) - 6 sum d^2)/(n(n^2-1)) over tie-free columns, v/M as the x with
     x M = v (Cramer's rule by cofactor expansion for n <= 4), integer brackets for sqrt and log10(x+1), the Kronecker
     product as a re-indexing of the block matrix.  Laws: sum(diff) = sum(a) - sum(b), min <= median <= max (and the
     order statistics are an ordered permutation), |v/|v||^2 = 1, sqrt(x^2) = |x|, SNV rows have mean 0 and variance 1,
     harmonic <= arithmetic mean, Pearson symmetric with r^2 <= 1, Spearman symmetric / unit diagonal / in [-1,1] /
     equal to the Pearson correlation of the ranks / invariant under strictly increasing maps of the columns, the
     tensor transpose is an involution that permutes indices, an extreme cell exists and the scan order singles out one.
(GEN) the same TLC run prints every case (every shape, operands from fixed fills) with the exact expected results.
(C)  replay: harness/c11_replay.c runs every case through the real library (ASan/UBSan build) with operands scaled by
     2^e, e in {-20,0,20}, one process per library function; the second batch also in mixed units (column j in unit
     2^{-20,0,20}[j mod 3]) and a second time into an already sized, non-zero output.  Integer results must be equal,
     quotients within 1e-12 / a few ulp, irrational results through their squares or integer brackets.
     validate: what MatrixSort/MatrixReverseSort and MatrixGetMax/MinValueIndex returned is recorded and judged by TLC
     (TraceKernels.tla: Prop = any row permutation ordered by the key / any extreme cell, Impl = the permutation of the
     present exchange sort / the last extreme cell of the column-major scan).
Outside the statement (EXTRA-FINDING only, see EXTRA_ONLY): MatrixColDescStat on columns holding the MISSING code (modelled as
     the statistics of the column without that cell); PearsonCorrelMatrix (also: it returns r^2 rather than r, both accepted) and
     SpearmanCorrelMatrix; GenIdentityMatrix; MatrixGetMax/MinValueIndex; the element-wise maps; the two row scalings; the
     right division.  The specification defines them exactly and the replay/trace validation runs for them like for the others,
     but no sentence of C11 promises them, so their deviations are reported and never judged.  On the present tree these are
     reported: extreme-cell scan skips row 0 of every column but the first (MatrixGetMax/MinValueIndex), PearsonCorrelMatrix's
     `(int)floor(a*b) == 0` guard (undefined behaviour at scale 2^20, zero at 2^-20), SpearmanCorrelMatrix matching ranks with an
     absolute 1e-3 tolerance, GenIdentityMatrix leaving stale off-diagonal cells in an already sized matrix (candidate repairs
     in fixes/C11-*.diff, NOT applied to /repo because no listed property is violated).
Excluded with reason: MatrixMatrixDistance and CovarianceDistanceMap (metricspace.h: the header comments do not fix a
     definition); statistics / extreme cell / median of EMPTY operands and normalising the zero vector (undefined);
     rows summing to zero (MatrixRowCenterScaling), constant rows (SNV) and constant columns (Pearson) are skipped.
"""
import os, shutil
from vf import build, tlc, trace
from vf import run as hrun
from vf.core import InfraError

LEVEL = "model_checking"
READY = True
TECHNIQUE = ("TLC as exact oracle: Kernels.tla/IntMat.tla define every dense kernel (48 library functions) over integers / exact rationals, TLC enumerates every operand shape, "
             "checks 24 algebraic laws as invariants and prints operands + exact expected results; a C driver replays every case through the real library "
             "(ASan/UBSan) at three dyadic scales, in mixed per-column units and into stale outputs; sorting results and extreme-cell positions are trace-validated by TLC; "
             "Unroll.tla model-checks the unrolled loop's index set")
LEVEL_TEXT = ("Every shape triple of the property's quantifier (0..17 cubed in the thorough tier; 0..9 cubed plus every inner-dimension residue up to 17 "
              "in the quick tier) is enumerated by TLC, the laws are invariants of that enumeration, and each case's exact result computed by TLC is "
              "compared with what the real kernel returns for operands scaled by 2^-20, 1 and 2^20; the index set of the unrolled loop is model-checked "
              "separately for every inner dimension. The second batch (norms, differences, order statistics, descriptive statistics, row scalings, element-wise maps, "
              "Pearson/Spearman matrices, right division, tensor transpose / Kronecker product / column statistics) is enumerated over every shape 0..17 x 0..17 in the "
              "thorough tier (11 x 11 representative sizes incl. 0, 1 and 17 in the quick tier), tensors of 1..4 slices, and additionally replayed in mixed per-column units "
              "and into already sized non-zero outputs.")
LEVEL_NOTE = ("Trusts TLC's integer arithmetic, the text conversion of TLC's output, the harness's comparison (exact for integer results, 1e-12 relative "
              "for quotients, squares for norms/SDEV, integer brackets for sqrt/log10) and ASan/UBSan as memory monitor. Operand VALUES are deterministic fills over -5..5 "
              "(1..6 for the harmonic mean, tie-free residues mod 19 for the rank correlation, strictly diagonally dominant divisors, 0..999999 for the logarithm; one per shape in the quick "
              "tier, three in the thorough tier, each at three scales), not all values; shapes are exhaustive within the stated bounds. Tie handling of SpearmanCorrelMatrix, "
              "the statistics of columns holding the MISSING code (EXTRA-FINDING only) and the r versus r^2 reading of PearsonCorrelMatrix are outside the verdict; "
              "MatrixMatrixDistance and CovarianceDistanceMap are not covered (no unambiguous definition in the header).")

W = int(os.environ.get("VERIF_WORKERS", "16"))


def _san_brief(err):
    """the stable part of a sanitizer report (no pids / addresses, so that the same defect gives the same replay file)"""
    import re
    out = []
    for line in err.splitlines():
        m = re.match(r"\s*(#\d+) 0x[0-9a-f]+ (in \S+ \S+)", line)
        if m and len(out) < 6:
            out.append("  %s %s" % (m.group(1), m.group(2)))
        elif line.startswith("SUMMARY:") or "runtime error:" in line:
            out.append(line.strip())
    return "\n".join(out)[:1500]

# library function -> case family of Kernels.tla
FUNCS = [
    ("MatrixDotProduct", "MatrixDotProduct"), ("MatrixDVectorDotProduct", "MatVec"), ("MT_MatrixDVectorDotProduct", "MatVec"),
    ("DVectorMatrixDotProduct", "VecMat"), ("MT_DVectorMatrixDotProduct", "VecMat"), ("RowColOuterProduct", "Outer"),
    ("DVectorTrasposedDVectorDotProduct", "Outer"), ("MatrixTranspose", "Transpose"), ("MatrixTrace", "Trace"),
    ("Matrixnorm", "Norm"), ("MatrixNorm", "Norm"), ("MatrixColAverage", "ColStats"), ("MatrixRowAverage", "ColStats"),
    ("MatrixColVar", "ColStats"), ("MatrixColSDEV", "ColStats"), ("MatrixColRMS", "ColStats"), ("MatrixCovariance", "Covariance"),
    ("DVectorDVectorDotProd", "DVector"), ("DvectorModule", "DVector"), ("DVectorMean", "DVector"), ("DVectorSDEV", "DVector"),
    ("TransposedTensorDVectorProduct", "Tensor"), ("DvectorTensorDotProduct", "Tensor"), ("TensorMatrixDotProduct", "Tensor"),
    ("MatrixSort", "Sort"), ("MatrixReverseSort", "Sort"),
    # second batch
    ("DVectNorm", "DVector2"), ("DVectorDVectorDiff", "DVector2"), ("DVectorDVectorSum", "DVector2"), ("DVectorMinMax", "DVector2"), ("DVectorMedian", "DVector2"),
    ("Matrix2SquareMatrix", "MatMaps"), ("Matrix2ABSMatrix", "MatMaps"), ("Matrix2SQRTMatrix", "MatMaps"), ("Matrix2LogMatrix", "MatMaps"),
    ("MatrixRowCenterScaling", "MatMaps"), ("MatrixSVNScaling", "MatMaps"), ("GenIdentityMatrix", "MatMaps"),
    ("MatrixGetMaxValueIndex", "MatMaps"), ("MatrixGetMinValueIndex", "MatMaps"),
    ("MatrixColDescStat", "DescStat"), ("MatrixColDescStat@missing", "DescStatMiss"),
    ("PearsonCorrelMatrix", "Correl"), ("SpearmanCorrelMatrix", "Correl"), ("DVectorTransposedMatrixDivision", "Division"),
    ("TensorTranspose", "Tensor"), ("KronekerProductVectorMatrix", "Tensor"), ("TensorColAverage", "Tensor"), ("TensorColSDEV", "Tensor"),
]
FAMILIES = sorted(set(f for _, f in FUNCS))
FIRST_BATCH = set(fn for fn, _ in FUNCS[:26])          # their signatures keep the two classes they always had
# results recorded for TLC (trace validation) instead of being compared with one expected value
RECORDED = {"MatrixSort": "Sort", "MatrixReverseSort": "Sort", "MatrixGetMaxValueIndex": "ArgExt", "MatrixGetMinValueIndex": "ArgExt"}
# behaviour the extended specification models exactly but the statement of C11 does not promise: deviations are EXTRA-FINDINGs, never a verdict
#   MatrixColDescStat@missing: the statistics of a column that holds the MISSING code (only the .c comment mentions missing values, no header documents skipping)
#   The statement of C11 names products, outer products, transpose, trace, norms, covariance, column/row statistics, sorting and the tensor contractions
#   (anchors: matrix.c MatrixColAverage..MatrixColVar, MatrixCovariance, Matrixnorm, MatrixSort, tensor.c contractions).  The routines below are dense
#   kernels the specification defines exactly as well, but no sentence of the statement promises them: identity generation, position of the extreme
#   cell, element-wise maps, row scalings, correlation matrices, right division.  Their deviations are reported, never judged.
EXTRA_ONLY = {"MatrixColDescStat@missing", "GenIdentityMatrix", "MatrixGetMaxValueIndex", "MatrixGetMinValueIndex",
              "Matrix2LogMatrix", "Matrix2SquareMatrix", "Matrix2SQRTMatrix", "Matrix2ABSMatrix", "MatrixRowCenterScaling", "MatrixSVNScaling",
              "PearsonCorrelMatrix", "SpearmanCorrelMatrix", "DVectorTransposedMatrixDivision"}
BATCH2 = {"DVector2", "MatMaps", "DescStat", "DescStatMiss", "Correl", "Division"}
LAWS = ["LawProductTranspose", "LawDistributive", "LawTraceCyclic", "LawShapes", "LawInvolution", "LawMatVec", "LawVecMat", "LawOuter", "LawTrace", "LawNorm",
        "LawCovariance", "LawColStats", "LawTensor", "LawSort", "LawVecDiffSum", "LawOrderStats", "LawUnitNorm", "LawMaps", "LawArgExt", "LawDescStat",
        "LawDescStatMiss", "LawCorrel", "LawDivision", "LawTensor2"]


def _flat(x, out):
    if isinstance(x, list):
        for y in x:
            _flat(y, out)
    else:
        out.append(int(x))
    return out


def _write_cases(path, emits, fam=None):
    with open(path, "w") as f:
        for e in emits:
            if fam is not None and e["kern"] != fam:
                continue
            f.write("%s %d %d %d %d %d %d\n" % (e["kern"], e["sd"], e["r"], e["k"], e["c"], len(e["inp"]), len(e["out"])))
            for a in list(e["inp"]) + list(e["out"]):
                v = _flat(a, [])
                f.write("%d %s\n" % (len(v), " ".join(map(str, v))))


def shape_class(fam, r, k, c):
    """descriptive shape class (goes into the text of a report)"""
    if fam == "MatrixDotProduct":
        inner = inner_class(k)
        return inner + (" with an empty outer dimension" if r == 0 or c == 0 else "")
    if fam in ("DVector", "DVector2", "Division"):
        return "empty" if r == 0 else "size %d" % r
    pre = "%d slices of " % k if fam == "Tensor" else ""
    if r == 0 or c == 0:
        return pre + "empty"
    if r == 1 or c == 1:
        return pre + ("1x1" if r == c else ("1xN" if r == 1 else "Nx1"))
    return pre + ("square" if r == c else ("wide" if c > r else "tall"))


def inner_class(k):
    return "inner0" if k == 0 else ("plain" if k < 4 else "unrolled-tail%d" % (k % 4))


def fail_class(fam, e):
    """signature class of a value mismatch: ONE per defect, independent of the operand shape except for the matrix product, where the
    class of the inner dimension (plain loop / unrolled loop with tail 0..3) is exactly what the property quantifies over"""
    if fam == "MatrixDotProduct":
        return inner_class(e["k"])
    sc = e.get("scales", 2)
    if e.get("fn") in FIRST_BATCH:
        return "tiny-scale" if sc == 1 else "value"      # fails only for operands scaled by 2^-20 / at the unit scale too
    if e.get("stale"):
        return "stale-output"                  # first seen in the second call into an already sized, non-zero output
    if sc & 2:
        return "value"                         # fails at the unit scale too
    if not sc & 4:
        return "tiny-scale"                    # fails only where operands are scaled by 2^-20 (alone or in the mixed-units pass)
    return "large-scale" if not sc & 1 else "scale"


def _scales_text(sc):
    names = [(1, "2^-20"), (2, "1"), (4, "2^20"), (8, "mixed per-column units")]
    bad = [n for b, n in names if sc & b]
    good = [n for b, n in names if not sc & b and b != 8]
    return "; fails at scales {%s}%s" % (", ".join(bad), (", correct at {%s}" % ", ".join(good)) if good else "")


def _nontrivial(fam, r, k, c):
    if fam == "MatrixDotProduct":
        return k >= 1 and r >= 1 and c >= 1
    if fam in ("DVector", "DVector2", "Division"):
        return r >= 1
    return r >= 1 and c >= 1


def _unroll(ctx):
    cfg = "MC_Unroll_quick.cfg" if ctx.quick else "MC_Unroll_thorough.cfg"
    r = tlc.run("Unroll", cfg, workers=2, timeout=300)
    ctx.add_tlc(r, "mc_unroll")
    if not r.ok:
        # the index model of the tree's loop is itself wrong: a design-level counterexample, reported with an implementation witness only
        # if the replay below also fails (DESIGN section 4 (V)); here it is the machinery's problem
        raise InfraError("Unroll.tla: %s fails for the variant the tree implements:\n%s" % (r.violation, r.trace_text[:1200]))
    m = tlc.run("Unroll", "MC_Unroll_mutant.cfg", workers=2, timeout=300)
    if m.ok or m.violation != "EachTermOnce":
        raise InfraError("Unroll.tla lost its teeth: the tail-from-col%4 variant is not refuted")
    ctx.steps["mc_unroll_mutant"] = dict(refuted="EachTermOnce", variant="TailFrom=mod")
    ctx.note("Unroll: every term visited exactly once and unrolled sum = definition for %d inner dimensions; variant tail-from-col%%4 refuted" % r.distinct)


def _gen(ctx, cfg, label):
    r = tlc.run("Kernels", cfg, workers=W, timeout=1500, coverage=False, xmx="8g")
    ctx.add_tlc(r, label)
    if not r.ok:
        raise InfraError("Kernels.tla: law %s fails in the model itself:\n%s" % (r.violation, r.trace_text[:1500]))
    return r


def _report(ctx, fn, sig, what, replay_case):
    """a deviation of an EXTRA_ONLY pseudo-function is reported as EXTRA-FINDING, everything else is a violation"""
    if fn in EXTRA_ONLY:
        ctx.extra(sig, what)
    else:
        ctx.violation(sig, what, replay_case)


def _drive(ctx, emits, funcs, rd, tag=""):
    """run the harness, one process per library function; returns the recorded Sort / ArgExt events"""
    fams = {}
    for e in emits:
        fams.setdefault(e["kern"], []).append(e)
    casefile = {}
    for fam in fams:
        casefile[fam] = os.path.join(rd, "cases%s-%s.txt" % (tag, fam))
        _write_cases(casefile[fam], fams[fam])
    lib = build.build_lib("san")
    exe = build.build_harness("c11", ["c11_replay.c"], lib)
    jobs = [[casefile[fam], os.path.join(rd, "o%s-%s.ndjson" % (tag, fn.replace("@", "_"))), fn] for fn, fam in funcs if fam in fams]
    res = hrun.run_many(exe, jobs, timeout=1500, workers=W)
    rec_events = []
    for j, h in zip(jobs, res):
        fn = j[2]
        fam = dict(FUNCS)[fn]
        ev = hrun.read_ndjson(j[1])
        if h.timed_out:
            raise InfraError("c11 harness timed out on %s" % fn)
        if h.rc == 2:
            raise InfraError("c11 harness usage/format error on %s: %s" % (fn, h.err[-500:]))
        done = [e for e in ev if e.get("e") == "Done"]
        crash = [e for e in ev if e.get("e") == "Crash"]
        nres = 0
        nrec = 0
        for e in ev:
            if e["e"] == "Res":
                nres += 1
                ctx.case((fn, e["sd"], e["r"], e["k"] % 4, e["k"] < 4, e["c"]), _nontrivial(fam, e["r"], e["k"], e["c"]))
                if e.get("drift"):
                    ctx.spec_drift("%s returns a non-zero value for a non-square %dx%d matrix (undefined by the property; only memory safety is judged)" % (fn, e["r"], e["c"]))
                if not e["ok"]:
                    exp_txt = "in mixed per-column units" if e["exp"] == 99 else "scaled by 2^%d" % e["exp"]
                    _report(ctx, fn, "KERNEL:%s:%s" % (fn, fail_class(fam, e)),
                            "%s on shape r=%d k=%d c=%d (%s), operands %s%s: cell %s is %s, the definition (%s) gives %s%s"
                            % (fn, e["r"], e["k"], e["c"], shape_class(fam, e["r"], e["k"], e["c"]), exp_txt,
                               ", second call into an already sized non-zero output" if e.get("stale") else "", e["at"], e["got"], e["what"], e["want"],
                               "; correct at scales 1 and 2^20" if e.get("scales") == 1 else (_scales_text(e["scales"]) if fam in BATCH2 or e.get("scales", 0) & 8 else "")),
                            dict(kind="kernel", fn=fn, sd=e["sd"], r=e["r"], k=e["k"], c=e["c"], exp=e["exp"]))
            elif e["e"] == "Sort":
                nrec += 1
                ctx.case((fn, e["sd"], e["rows"], e["key"], e["cols"], e["exp"]), e["rows"] >= 2)
                rec_events.append(e)
            elif e["e"] == "ArgExt":
                nrec += 1
                ctx.case((fn, e["sd"], e["rows"], e["cols"], e["exp"]), e["rows"] * e["cols"] >= 2)
                rec_events.append(e)
            elif e["e"] == "Reset":
                nres += 1
                rec_events.append(e)
            elif e["e"] == "Note" and e.get("what") == "rsq":
                ctx.extra("KERNEL:%s:r-squared" % fn,
                          "%s returns the SQUARE of the Pearson coefficient (cell %s of a %dx%d operand: %s, Pearson r = %s): the sign of a negative correlation is lost; the header says "
                          "'pearson correlation matrix', the .c comment names the quantity RSQ - the specification accepts either reading" % (fn, e["at"], e["r"], e["c"], e["got"], e["pearson"]))
        if h.rc != 0 or not done:
            last = crash[-1] if crash else {}
            r_, k_, c_ = last.get("r", -1), last.get("k", -1), last.get("c", -1)
            sc = shape_class(fam, r_, k_, c_) if crash else "unknown"
            kind = h.san or "crash:rc%d" % h.rc
            _report(ctx, fn, "KERNEL:%s:%s" % (fn, ":".join(kind.split(":")[:2])),
                    "%s on shape r=%s k=%s c=%s (%s; %s): %s\n%s" % (fn, r_, k_, c_, sc, "mixed per-column units" if last.get("exp") == 99 else "scale 2^%s" % last.get("exp", "?"), kind, _san_brief(h.err)),
                    dict(kind="kernel", fn=fn, sd=last.get("sd", 0), r=r_, k=k_, c=c_, exp=last.get("exp", 0)))
        elif done[0]["cases"] != len(fams[fam]) or nres < len(fams[fam]):
            raise InfraError("c11 harness ran %s cases of %s, %d were generated" % (done[0]["cases"], fn, len(fams[fam])))
        elif fn in RECORDED and nrec == 0 and any(_nontrivial(fam, e["r"], e["k"], e["c"]) for e in fams[fam]):
            raise InfraError("c11 harness recorded no %s event for %s" % (RECORDED[fn], fn))
    return rec_events


def _check_recorded(ctx, rec_events, label="trace_sort", selftest=True):
    """Sort and ArgExt events, one trace, judged by TLC (TraceKernels.tla)"""
    kinds = set(e["e"] for e in rec_events) - {"Reset"}
    if not kinds:
        return
    ev = [{k: v for k, v in e.items() if k not in ("exp", "sd")} for e in rec_events]
    src = {id(a): b for a, b in zip(ev, rec_events)}

    def on_reject(e, idx, block):
        o = src.get(id(e), e)
        fn = e.get("fn", "MatrixSort")
        if e.get("e") == "ArgExt":
            m = e.get("m") or [[0]]
            flat = [x for row in m for x in row]
            ext = max(flat) if e.get("max") else min(flat)
            inside = 0 <= e.get("row", -1) < e.get("rows", 0) and 0 <= e.get("col", -1) < e.get("cols", 0)
            _report(ctx, fn, "KERNEL:%s:position" % fn,
                          "%s on a %dx%d matrix (scale 2^%s) returned position [%s][%s] (%s) but the %s value is %s: %s"
                          % (fn, e.get("rows"), e.get("cols"), o.get("exp", "?"), e.get("row"), e.get("col"),
                             "value %s" % m[e["row"]][e["col"]] if inside else "outside the matrix", "largest" if e.get("max") else "smallest", ext, m),
                          dict(kind="kernel", fn=fn, sd=o.get("sd", 0), r=e.get("rows"), k=0, c=e.get("cols"), exp=o.get("exp", 0)))
        else:
            ctx.violation("KERNEL:%s:order" % fn, "%s by column %s of %s (scale 2^%s) returned %s: not a permutation of the rows ordered by the key column"
                          % (fn, e.get("key"), e.get("m"), o.get("exp", "?"), e.get("res")),
                          dict(kind="kernel", fn=fn, sd=o.get("sd", 0), r=e.get("rows"), k=e.get("key"), c=e.get("cols"), exp=o.get("exp", 0)))
        return lambda x: x.get("fn") == fn
    trace.check_trace(ctx, "TraceKernels", "Trace_Kernels.cfg", "Trace_Kernels_prop.cfg", ev, on_reject, drop="event", label=label, timeout=1500)
    ctx.traces(sum(1 for e in ev if e["e"] != "Reset"))
    if not selftest:
        return
    if "Sort" in kinds:
        def corrupt(evs):
            for e in evs:
                if e["e"] == "Sort" and e["rows"] >= 3 and e["cols"] >= 2:
                    e["res"][0][e["cols"] - 1 if e["key"] != e["cols"] else 0] += 7      # a cell that is not the key: order stays, row multiset breaks
                    return True
            return False
        sub = [e for e in ev if e["e"] == "Sort" and e["rows"] >= 3 and e["cols"] >= 2][:30]
        trace.binding_selftest(ctx, "TraceKernels", "Trace_Kernels_prop.cfg", sub, corrupt, "binding_sort")
    if "ArgExt" in kinds:
        def corrupt_arg(evs):
            for e in evs:
                if e["e"] == "ArgExt" and e["rows"] >= 2 and e["cols"] >= 2:
                    flat = [x for row in e["m"] for x in row]
                    if min(flat) == max(flat):
                        continue
                    # point at a cell that does not hold the extreme value
                    for i in range(e["rows"]):
                        for j in range(e["cols"]):
                            if e["m"][i][j] != e["m"][e["row"]][e["col"]]:
                                e["row"], e["col"] = i, j
                                return True
            return False
        def holds_extreme(e):
            flat = [x for row in e["m"] for x in row]
            return 0 <= e["row"] < e["rows"] and 0 <= e["col"] < e["cols"] and e["m"][e["row"]][e["col"]] == (max(flat) if e["max"] else min(flat))
        sub = [e for e in ev if e["e"] == "ArgExt" and e["rows"] >= 2 and e["cols"] >= 2 and holds_extreme(e)][:30]
        if not sub:
            raise InfraError("no ArgExt event large enough for the binding self-test")
        trace.binding_selftest(ctx, "TraceKernels", "Trace_Kernels_prop.cfg", sub, corrupt_arg, "binding_argext")


def run(ctx):
    ctx.assumptions += [
        "TLC's integer arithmetic and the IntMat/Kernels definitions are the reference; shapes are exhaustive within the stated bounds, operand values are deterministic fills over -5..5 (1 per shape quick, 3 thorough) at scales 2^-20, 1, 2^20",
        "integer-valued results are compared exactly; averages within 4 ulp; variances, SDEV^2, covariance within 1e-12 relative (floor 4^e); norms and SDEV through their squares",
        "outputs are pre-zeroed where the kernels accumulate with += ; variances/covariance need >= 2 rows, averages >= 1 row/column (outside: only memory safety is judged)",
        "ASan/UBSan build: any sanitizer report while a kernel runs on a conformable operand shape is a violation",
        "MatrixSort/MatrixReverseSort results are judged by TLC on the recorded input/output (any row permutation ordered by the key is accepted)",
        "second batch: every routine is fed inside its domain only (non-zero vector for DVectNorm, >= 1 entry for min/max/median, positive entries 1..6 for the harmonic mean and CV, >= 2 rows for sample statistics and correlations, "
        "non-constant columns for Pearson, tie-free columns for Spearman, rows with non-zero sum / non-constant rows for the row scalings, strictly diagonally dominant M for v/M, log10(x+1) on 0..999999 at the unit scale only); outside: memory safety only",
        "second batch tolerances: sums/differences/min/max/median/maps/transpose/Kronecker exact; averages and x/rowsum 4 ulp; harmonic mean 1e-13; variances, CV^2, SNV^2, r^2 1e-12; rho 1e-13 absolute; v/M 1e-9 max|x|; "
        "sqrt through its square (4 ulp) and floor bracket; log10(x+1) 4 ulp where x+1 is a power of ten, a 1/3-wide integer bracket elsewhere; the zero count of MatrixColDescStat is judged at scales >= 1 only "
        "(the routine's own 1e-6 zero threshold exceeds the 2^-20 unit)",
        "PearsonCorrelMatrix may return r or r^2 (the tree returns r^2: EXTRA-FINDING); MatrixColDescStat's column layout is the tree's (avg, median, harmonic, var pop/sample, sdev pop/sample, CV pop/sample, min, max, zeros, missing)",
        "MatrixGetMaxValueIndex/MatrixGetMinValueIndex results are judged by TLC on the recorded matrix and position (any cell holding the extreme value is accepted)",
    ]
    _unroll(ctx)
    r = _gen(ctx, "MC_Kernels_quick.cfg" if ctx.quick else "MC_Kernels_thorough.cfg", "mc_gen_kernels")
    fams = {}
    for e in r.emits:
        fams[e["kern"]] = fams.get(e["kern"], 0) + 1
    missing = [f for f in FAMILIES if not fams.get(f)]
    if missing:
        raise InfraError("vacuous run: no case generated for families %s" % missing)
    ctx.steps["mc_gen_kernels"]["cases_per_family"] = fams
    ctx.note("Kernels: %d cases enumerated, %d laws hold on all of them (%.1fs)" % (len(r.emits), len(LAWS), r.wall))
    rd = tlc.rundir()
    try:
        sort_events = _drive(ctx, r.emits, FUNCS, rd)
        _check_recorded(ctx, sort_events)
    finally:
        shutil.rmtree(rd, ignore_errors=True)
    for e in r.emits:
        if e["kern"] == "MatrixDotProduct" and (e["r"], e["k"], e["c"]) in ((2, 5, 3), (1, 7, 2)):
            ctx.sample(e, 2)
    for e in r.emits:
        if (e["kern"], e["r"], e["c"]) in (("Covariance", 3, 2), ("Tensor", 2, 3)) and e["k"] in (0, 2):
            ctx.sample(e, 4)
    for e in sort_events:
        if e["e"] == "Sort" and e["rows"] == 4 and e["cols"] == 2 and e["exp"] == 0:
            ctx.sample(e, 6)
    for e in r.emits:
        if (e["kern"], e["r"], e["c"]) in (("Correl", 4, 2), ("DescStat", 3, 2), ("DVector2", 5, 1)):
            ctx.sample(e, 9)
    for e in sort_events:
        if e["e"] == "ArgExt" and e["rows"] == 3 and e["cols"] == 2 and e["exp"] == 0:
            ctx.sample(e, 10)
    ctx.cov["rule"] = ("TLC enumerates every operand shape (MatrixDotProduct: %s; other kernels: rows, columns 0..17; tensors 1..4 slices; sort 1..4 columns, every key; %d operand fill(s) per shape) "
                       "and each case is run through each library function of its family at 3 scales; second batch: vectors and divisors of size 0..17, matrices %s, additionally in mixed per-column units and "
                       "into stale outputs; a case is keyed by (function, fill, rows, inner mod 4, inner < 4, columns); "
                       "non-trivial = no empty dimension (inner dimension >= 1 for the products)"
                       % ("0..9 cubed plus inner 10..17 for rows, columns in {1,2,5}" if ctx.quick else "0..17 cubed", 1 if ctx.quick else 3,
                          "rows, columns in {0..7, 9, 12, 17}" if ctx.quick else "rows, columns 0..17"))
    ctx.cov["exhaustive"] = True


def replay(ctx, body):
    case = body.get("case") or {}
    if case.get("kind") != "kernel" or case.get("r", -1) < 0:
        return run(ctx)
    fn = case["fn"]
    fam = dict(FUNCS)[fn]
    r_, k_, c_ = case["r"], case["k"], case["c"]
    rd = tlc.rundir()
    try:
        consts = dict(KernelSet='{"%s"}' % fam, RSet=[], KSet=[], CSet=[], XRC=[], XK=[], DSet=[], ESet=[], SliceSet=[], SortCols=[], SeedSet=[case.get("sd", 0)], DoEmit=True)
        if fam == "MatrixDotProduct":
            consts.update(RSet=[r_], KSet=[k_], CSet=[c_])
        elif fam == "Tensor":
            consts.update(DSet=sorted({r_, c_}), SliceSet=[k_])
        elif fam == "Sort":
            consts.update(DSet=[r_], SortCols=sorted({k_, c_}))
        elif fam in ("MatMaps", "DescStat", "DescStatMiss", "Correl"):
            consts.update(ESet=sorted({r_, c_}))
        else:
            consts.update(DSet=sorted({r_, c_}))
        cfg = tlc.write_cfg(os.path.join(rd, "replay.cfg"), spec="Spec", constants=consts, constraints=["EmitCase"], deadlock=False,
                            invariants=LAWS)
        g = _gen(ctx, cfg, "gen_replay")
        emits = [e for e in g.emits if (e["r"], e["k"], e["c"]) == (r_, k_, c_)]
        if not emits:
            raise InfraError("replay case not regenerated by TLC: %s" % case)
        sort_events = _drive(ctx, emits, [(fn, fam)], rd, "r")
        _check_recorded(ctx, sort_events, "trace_sort_replay", selftest=False)
        ctx.case(("replay", fn, r_, k_, c_))
        ctx.case(("replay2", fn, r_, k_, c_))
        ctx.sample(emits[0])
        ctx.cov["rule"] = "replay of one (function, shape) case regenerated by TLC"
    finally:
        shutil.rmtree(rd, ignore_errors=True)
