"""C11 - dense matrix/vector/tensor kernels compute their definitions for all shapes.

(M)  Unroll.tla: the unrolled inner loop of MatrixDotProduct (k < col-3 step 4, tail from col - col%4, dispatch on
     (int)col-3 > 0) visits every term exactly once for every inner dimension; the classic slip (tail from col%4) is
     run as a self-test and must be refuted.  Kernels.tla (over IntMat.tla): exact integer definitions of every kernel,
     the algebraic laws of the property ((AB)' = B'A', A(B+C) = AB+AC, transpose involution, covariance = Gram matrix of
     the centred data hence symmetric PSD, sort = row permutation ordered by key, ...) checked as invariants over the
     whole enumerated shape space.
(GEN) the same TLC run prints every case (every shape triple, operands from a fixed fill over -5..5) together with the
     exact expected results.
(C)  replay: harness/c11_replay.c runs every case through the real library (ASan/UBSan build) with operands scaled by
     2^e, e in {-20,0,20}, one process per library function; integer results must be equal, quotients within 1e-12.
     validate: what MatrixSort/MatrixReverseSort returned is recorded and judged by TLC (TraceKernels.tla: Prop = any
     row permutation ordered by the key, Impl = the permutation of the present exchange sort).
"""
import os, shutil
from vf import build, tlc, trace
from vf import run as hrun
from vf.core import InfraError

LEVEL = "model_checking"
READY = True
TECHNIQUE = ("TLC as exact oracle: Kernels.tla/IntMat.tla define every dense kernel over integers, TLC enumerates every operand shape, checks the "
             "algebraic laws as invariants and prints operands + exact expected results; a C driver replays every case through the real library "
             "(ASan/UBSan) at three dyadic scales; sorting results are trace-validated by TLC; Unroll.tla model-checks the unrolled loop's index set")
LEVEL_TEXT = ("Every shape triple of the property's quantifier (0..17 cubed in the thorough tier; 0..9 cubed plus every inner-dimension residue up to 17 "
              "in the quick tier) is enumerated by TLC, the laws are invariants of that enumeration, and each case's exact result computed by TLC is "
              "compared with what the real kernel returns for operands scaled by 2^-20, 1 and 2^20; the index set of the unrolled loop is model-checked "
              "separately for every inner dimension.")
LEVEL_NOTE = ("Trusts TLC's integer arithmetic, the text conversion of TLC's output, the harness's comparison (exact for integer results, 1e-12 relative "
              "for quotients, squares for norms/SDEV) and ASan/UBSan as memory monitor. Operand VALUES are deterministic fills over -5..5 (one per shape in the quick "
              "tier, three in the thorough tier, each at three scales), not all values; shapes are exhaustive within the stated bounds.")

W = int(os.environ.get("VERIF_WORKERS", "16"))


def _san_brief(err):
    """the stable part of a sanitizer report (no pids / addresses, so that the same defect gives the same replay file)"""
    import re
    out = []
    for line in err.splitlines():
        m = re.match(r"\s*(#\d+) 0x[0-9a-f]+ (in \S+ \S+)", line)
        if m and len(out) < 6:
            out.append("  %s %s" % (m.group(1), m.group(2)))
        elif line.startswith("SUMMARY:") or "runtime error:" in line:
            out.append(line.strip())
    return "\n".join(out)[:1500]

# library function -> case family of Kernels.tla
FUNCS = [
    ("MatrixDotProduct", "MatrixDotProduct"), ("MatrixDVectorDotProduct", "MatVec"), ("MT_MatrixDVectorDotProduct", "MatVec"),
    ("DVectorMatrixDotProduct", "VecMat"), ("MT_DVectorMatrixDotProduct", "VecMat"), ("RowColOuterProduct", "Outer"),
    ("DVectorTrasposedDVectorDotProduct", "Outer"), ("MatrixTranspose", "Transpose"), ("MatrixTrace", "Trace"),
    ("Matrixnorm", "Norm"), ("MatrixNorm", "Norm"), ("MatrixColAverage", "ColStats"), ("MatrixRowAverage", "ColStats"),
    ("MatrixColVar", "ColStats"), ("MatrixColSDEV", "ColStats"), ("MatrixColRMS", "ColStats"), ("MatrixCovariance", "Covariance"),
    ("DVectorDVectorDotProd", "DVector"), ("DvectorModule", "DVector"), ("DVectorMean", "DVector"), ("DVectorSDEV", "DVector"),
    ("TransposedTensorDVectorProduct", "Tensor"), ("DvectorTensorDotProduct", "Tensor"), ("TensorMatrixDotProduct", "Tensor"),
    ("MatrixSort", "Sort"), ("MatrixReverseSort", "Sort"),
]
FAMILIES = sorted(set(f for _, f in FUNCS))


def _flat(x, out):
    if isinstance(x, list):
        for y in x:
            _flat(y, out)
    else:
        out.append(int(x))
    return out


def _write_cases(path, emits):
    with open(path, "w") as f:
        for e in emits:
            f.write("%s %d %d %d %d %d %d\n" % (e["kern"], e["sd"], e["r"], e["k"], e["c"], len(e["inp"]), len(e["out"])))
            for a in list(e["inp"]) + list(e["out"]):
                v = _flat(a, [])
                f.write("%d %s\n" % (len(v), " ".join(map(str, v))))


def shape_class(fam, r, k, c):
    """descriptive shape class (goes into the text of a report)"""
    if fam == "MatrixDotProduct":
        inner = inner_class(k)
        return inner + (" with an empty outer dimension" if r == 0 or c == 0 else "")
    if fam == "DVector":
        return "empty" if r == 0 else "size %d" % r
    pre = "%d slices of " % k if fam == "Tensor" else ""
    if r == 0 or c == 0:
        return pre + "empty"
    if r == 1 or c == 1:
        return pre + ("1x1" if r == c else ("1xN" if r == 1 else "Nx1"))
    return pre + ("square" if r == c else ("wide" if c > r else "tall"))


def inner_class(k):
    return "inner0" if k == 0 else ("plain" if k < 4 else "unrolled-tail%d" % (k % 4))


def fail_class(fam, e):
    """signature class of a value mismatch: ONE per defect, independent of the operand shape except for the matrix product, where the
    class of the inner dimension (plain loop / unrolled loop with tail 0..3) is exactly what the property quantifies over"""
    if fam == "MatrixDotProduct":
        return inner_class(e["k"])
    return "tiny-scale" if e.get("scales") == 1 else "value"      # fails only for operands scaled by 2^-20 / at the unit scale too


def _nontrivial(fam, r, k, c):
    if fam == "MatrixDotProduct":
        return k >= 1 and r >= 1 and c >= 1
    if fam == "DVector":
        return r >= 1
    return r >= 1 and c >= 1


def _unroll(ctx):
    cfg = "MC_Unroll_quick.cfg" if ctx.quick else "MC_Unroll_thorough.cfg"
    r = tlc.run("Unroll", cfg, workers=2, timeout=300)
    ctx.add_tlc(r, "mc_unroll")
    if not r.ok:
        # the index model of the tree's loop is itself wrong: a design-level counterexample, reported with an implementation witness only
        # if the replay below also fails (DESIGN section 4 (V)); here it is the machinery's problem
        raise InfraError("Unroll.tla: %s fails for the variant the tree implements:\n%s" % (r.violation, r.trace_text[:1200]))
    m = tlc.run("Unroll", "MC_Unroll_mutant.cfg", workers=2, timeout=300)
    if m.ok or m.violation != "EachTermOnce":
        raise InfraError("Unroll.tla lost its teeth: the tail-from-col%4 variant is not refuted")
    ctx.steps["mc_unroll_mutant"] = dict(refuted="EachTermOnce", variant="TailFrom=mod")
    ctx.note("Unroll: every term visited exactly once and unrolled sum = definition for %d inner dimensions; variant tail-from-col%%4 refuted" % r.distinct)


def _gen(ctx, cfg, label):
    r = tlc.run("Kernels", cfg, workers=W, timeout=1500, coverage=False, xmx="8g")
    ctx.add_tlc(r, label)
    if not r.ok:
        raise InfraError("Kernels.tla: law %s fails in the model itself:\n%s" % (r.violation, r.trace_text[:1500]))
    return r


def _drive(ctx, emits, funcs, rd, tag=""):
    """run the harness, one process per library function; returns the recorded Sort events"""
    fams = {}
    for e in emits:
        fams.setdefault(e["kern"], []).append(e)
    cases = os.path.join(rd, "cases%s.txt" % tag)
    _write_cases(cases, emits)
    lib = build.build_lib("san")
    exe = build.build_harness("c11", ["c11_replay.c"], lib)
    jobs = [[cases, os.path.join(rd, "o%s-%s.ndjson" % (tag, fn)), fn] for fn, fam in funcs if fam in fams]
    res = hrun.run_many(exe, jobs, timeout=1500, workers=W)
    sort_events = []
    for j, h in zip(jobs, res):
        fn = j[2]
        fam = dict(FUNCS)[fn]
        ev = hrun.read_ndjson(j[1])
        if h.timed_out:
            raise InfraError("c11 harness timed out on %s" % fn)
        if h.rc == 2:
            raise InfraError("c11 harness usage/format error on %s: %s" % (fn, h.err[-500:]))
        done = [e for e in ev if e.get("e") == "Done"]
        crash = [e for e in ev if e.get("e") == "Crash"]
        nres = 0
        for e in ev:
            if e["e"] == "Res":
                nres += 1
                ctx.case((fn, e["sd"], e["r"], e["k"] % 4, e["k"] < 4, e["c"]), _nontrivial(fam, e["r"], e["k"], e["c"]))
                if e.get("drift"):
                    ctx.spec_drift("%s returns a non-zero value for a non-square %dx%d matrix (undefined by the property; only memory safety is judged)" % (fn, e["r"], e["c"]))
                if not e["ok"]:
                    ctx.violation("KERNEL:%s:%s" % (fn, fail_class(fam, e)),
                                  "%s on shape r=%d k=%d c=%d (%s), operands scaled by 2^%d: cell %s is %s, the definition (%s) gives %s%s"
                                  % (fn, e["r"], e["k"], e["c"], shape_class(fam, e["r"], e["k"], e["c"]), e["exp"], e["at"], e["got"], e["what"], e["want"],
                                     "; correct at scales 1 and 2^20" if e.get("scales") == 1 else ""),
                                  dict(kind="kernel", fn=fn, sd=e["sd"], r=e["r"], k=e["k"], c=e["c"], exp=e["exp"]))
            elif e["e"] == "Sort":
                nres += 1
                ctx.case((fn, e["sd"], e["rows"], e["key"], e["cols"], e["exp"]), e["rows"] >= 2)
                sort_events.append(e)
            elif e["e"] == "Reset":
                sort_events.append(e)
        if h.rc != 0 or not done:
            last = crash[-1] if crash else {}
            r_, k_, c_ = last.get("r", -1), last.get("k", -1), last.get("c", -1)
            sc = shape_class(fam, r_, k_, c_) if crash else "unknown"
            kind = h.san or "crash:rc%d" % h.rc
            ctx.violation("KERNEL:%s:%s" % (fn, ":".join(kind.split(":")[:2])),
                          "%s on shape r=%s k=%s c=%s (%s; scale 2^%s): %s\n%s" % (fn, r_, k_, c_, sc, last.get("exp", "?"), kind, _san_brief(h.err)),
                          dict(kind="kernel", fn=fn, sd=last.get("sd", 0), r=r_, k=k_, c=c_, exp=last.get("exp", 0)))
        elif done[0]["cases"] != len(fams[fam]) or nres < len(fams[fam]):
            raise InfraError("c11 harness ran %s cases of %s, %d were generated" % (done[0]["cases"], fn, len(fams[fam])))
    return sort_events


def _check_sort(ctx, sort_events, label="trace_sort", selftest=True):
    if not any(e["e"] == "Sort" for e in sort_events):
        return
    ev = [{k: v for k, v in e.items() if k not in ("exp", "sd")} for e in sort_events]
    src = {id(a): b for a, b in zip(ev, sort_events)}

    def on_reject(e, idx, block):
        o = src.get(id(e), e)
        fn = e.get("fn", "MatrixSort")
        ctx.violation("KERNEL:%s:order" % fn, "%s by column %s of %s (scale 2^%s) returned %s: not a permutation of the rows ordered by the key column"
                      % (fn, e.get("key"), e.get("m"), o.get("exp", "?"), e.get("res")),
                      dict(kind="kernel", fn=fn, sd=o.get("sd", 0), r=e.get("rows"), k=e.get("key"), c=e.get("cols"), exp=o.get("exp", 0)))
        return lambda x: x.get("fn") == fn
    trace.check_trace(ctx, "TraceKernels", "Trace_Kernels.cfg", "Trace_Kernels_prop.cfg", ev, on_reject, drop="event", label=label, timeout=1500)
    ctx.traces(sum(1 for e in ev if e["e"] == "Sort"))
    if selftest:
        def corrupt(evs):
            for e in evs:
                if e["e"] == "Sort" and e["rows"] >= 3 and e["cols"] >= 2:
                    e["res"][0][e["cols"] - 1 if e["key"] != e["cols"] else 0] += 7      # a cell that is not the key: order stays, row multiset breaks
                    return True
            return False
        sub = [e for e in ev if e["e"] == "Sort" and e["rows"] >= 3 and e["cols"] >= 2][:30]
        trace.binding_selftest(ctx, "TraceKernels", "Trace_Kernels_prop.cfg", sub, corrupt, "binding_sort")


def run(ctx):
    ctx.assumptions += [
        "TLC's integer arithmetic and the IntMat/Kernels definitions are the reference; shapes are exhaustive within the stated bounds, operand values are deterministic fills over -5..5 (1 per shape quick, 3 thorough) at scales 2^-20, 1, 2^20",
        "integer-valued results are compared exactly; averages within 4 ulp; variances, SDEV^2, covariance within 1e-12 relative (floor 4^e); norms and SDEV through their squares",
        "outputs are pre-zeroed where the kernels accumulate with += ; variances/covariance need >= 2 rows, averages >= 1 row/column (outside: only memory safety is judged)",
        "ASan/UBSan build: any sanitizer report while a kernel runs on a conformable operand shape is a violation",
        "MatrixSort/MatrixReverseSort results are judged by TLC on the recorded input/output (any row permutation ordered by the key is accepted)",
    ]
    _unroll(ctx)
    r = _gen(ctx, "MC_Kernels_quick.cfg" if ctx.quick else "MC_Kernels_thorough.cfg", "mc_gen_kernels")
    fams = {}
    for e in r.emits:
        fams[e["kern"]] = fams.get(e["kern"], 0) + 1
    missing = [f for f in FAMILIES if not fams.get(f)]
    if missing:
        raise InfraError("vacuous run: no case generated for families %s" % missing)
    ctx.steps["mc_gen_kernels"]["cases_per_family"] = fams
    ctx.note("Kernels: %d cases enumerated, 14 laws hold on all of them (%.1fs)" % (len(r.emits), r.wall))
    rd = tlc.rundir()
    try:
        sort_events = _drive(ctx, r.emits, FUNCS, rd)
        _check_sort(ctx, sort_events)
    finally:
        shutil.rmtree(rd, ignore_errors=True)
    for e in r.emits:
        if e["kern"] == "MatrixDotProduct" and (e["r"], e["k"], e["c"]) in ((2, 5, 3), (1, 7, 2)):
            ctx.sample(e, 2)
    for e in r.emits:
        if (e["kern"], e["r"], e["c"]) in (("Covariance", 3, 2), ("Tensor", 2, 3)) and e["k"] in (0, 2):
            ctx.sample(e, 4)
    for e in sort_events:
        if e["e"] == "Sort" and e["rows"] == 4 and e["cols"] == 2 and e["exp"] == 0:
            ctx.sample(e, 6)
    ctx.cov["rule"] = ("TLC enumerates every operand shape (MatrixDotProduct: %s; other kernels: rows, columns 0..17; tensors 1..4 slices; sort 1..4 columns, every key; %d operand fill(s) per shape) "
                       "and each case is run through each library function of its family at 3 scales; a case is keyed by (function, fill, rows, inner mod 4, inner < 4, columns); "
                       "non-trivial = no empty dimension (inner dimension >= 1 for the products)"
                       % ("0..9 cubed plus inner 10..17 for rows, columns in {1,2,5}" if ctx.quick else "0..17 cubed", 1 if ctx.quick else 3))
    ctx.cov["exhaustive"] = True


def replay(ctx, body):
    case = body.get("case") or {}
    if case.get("kind") != "kernel" or case.get("r", -1) < 0:
        return run(ctx)
    fn = case["fn"]
    fam = dict(FUNCS)[fn]
    r_, k_, c_ = case["r"], case["k"], case["c"]
    rd = tlc.rundir()
    try:
        consts = dict(KernelSet='{"%s"}' % fam, RSet=[], KSet=[], CSet=[], XRC=[], XK=[], DSet=[], SliceSet=[], SortCols=[], SeedSet=[case.get("sd", 0)], DoEmit=True)
        if fam == "MatrixDotProduct":
            consts.update(RSet=[r_], KSet=[k_], CSet=[c_])
        elif fam == "Tensor":
            consts.update(DSet=sorted({r_, c_}), SliceSet=[k_])
        elif fam == "Sort":
            consts.update(DSet=[r_], SortCols=sorted({k_, c_}))
        else:
            consts.update(DSet=sorted({r_, c_}))
        cfg = tlc.write_cfg(os.path.join(rd, "replay.cfg"), spec="Spec", constants=consts, constraints=["EmitCase"], deadlock=False,
                            invariants=["LawProductTranspose", "LawDistributive", "LawInvolution", "LawCovariance", "LawSort"])
        g = _gen(ctx, cfg, "gen_replay")
        emits = [e for e in g.emits if (e["r"], e["k"], e["c"]) == (r_, k_, c_)]
        if not emits:
            raise InfraError("replay case not regenerated by TLC: %s" % case)
        sort_events = _drive(ctx, emits, [(fn, fam)], rd, "r")
        _check_sort(ctx, sort_events, "trace_sort_replay", selftest=False)
        ctx.case(("replay", fn, r_, k_, c_))
        ctx.case(("replay2", fn, r_, k_, c_))
        ctx.sample(emits[0])
        ctx.cov["rule"] = "replay of one (function, shape) case regenerated by TLC"
    finally:
        shutil.rmtree(rd, ignore_errors=True)
