"""C14 - containers stay memory-safe and shape-consistent under any operation history.

(M)   Containers.tla (+ ContainerLaws.tla), one TLC run per container family (dvector, uivector, ivector, strvector, matrix,
      tensor, dvectorlist): exhaustive BFS over every API call of the alphabet with small constants (pool 2), checking the
      state invariants Shape / TypeOK / DeadIsEmpty / KindsOff / Theorems (append-then-delete is the identity, the sort
      representative satisfies and is fixed by the sort contract, a tie-free sort has exactly one admissible result) and the
      action laws GuardLaw (no call on a dead container), FrameLaw (a call changes only what it declares: mutating a copy never
      changes the source), OorLaw, ReadOnlyLaw, CopyLaw, GrowthLaw (old cells kept, new cells zero), ShrinkLaw, SortLaw,
      ExtendLaw, ResizeLaw.
(GEN) the same module in simulate mode (GenSpec): histories of 40 calls over a pool of 4 per kind, operand lengths drawn
      shorter / equal / longer / zero around the current dimension, exported through CONSTRAINT Emit together with the input
      classes (INPUT-CLASSES.md) each call belongs to.  Three generator modes: small dimensions (<= 5/6), block-size mode
      (MaxDim 66: sizes at 4/8/16/32/64 and one off, operands one off the current dimension), and the self-copy mode.
(C)   c14_replay executes every history twice - on the ASan/UBSan build and on the plain gcc build under glibc's
      MALLOC_PERTURB_ (freed addresses are handed out again at once: address reuse, stale memory is never zero) - one child
      process per history, comparing liveness, dims and every cell with the spec's post-state after every call, checking that
      no two live containers share an owned pointer, and classifying sanitizer reports / aborts / signals by call.  Cell
      values are CODES in the specification; the harness maps them through a strictly increasing palette (identity; "huge":
      2^31+5, 2^32+1, INT_MAX ...; "frac": tenths) chosen per history.
(T)   every sort call (MatrixSort, MatrixReverseSort, DVectorSort, SortUIVector) additionally records the container as the
      library left it; TLC validates these observations against the sort contracts (TraceContainers.tla): the order among
      equal keys is free, so the harness cannot compare cell by cell there.

Clause table (statement of C14 -> what decides it -> what carries it)
  "any sequence of valid operations ... create, resize, copy, append rows or columns shorter / equal / longer, delete rows /
   columns, set / get, extend, sort, remove"
        -> the alphabet: one action of Containers.tla per public call (table below); Next / GenNext; GenRefinesNext
        -> O-lines of the replay script; coverage.alphabet, coverage.op_mix, coverage.size_relations (every call executed at least once)
  "never reads or writes outside the memory it owns"
        -> AddressSanitizer / UBSan on the san build, per call (signature asan:<kind>:<function>); on the plain build a crash
           or a wrong cell of ANY pool slot after the call (compare_all covers all slots, not only the touched ones)
        -> result line of the history (res = san / signal / mismatch), the child's stderr
  "never uses or frees memory it has already released"
        -> ASan use-after-free / double-free / bad-free, also while deleting every remaining container at the end of a history;
           alias_check (no pointer owned by two live containers); plain build with MALLOC_PERTURB_ (stale reads differ from the model)
        -> result line (res = san / alias / mismatch), step = call or cleanup
  "leaves the container with the row / column / size counts ... the operation defines"
        -> post-state of the action (E-lines: liveness, dims), invariants Shape / TypeOK, laws ResizeLaw / GrowthLaw / ShrinkLaw / ExtendLaw
        -> compare_all after every call
  "... and cell contents (old cells preserved, newly exposed cells zero)"
        -> GrowthLaw, ShrinkLaw, ResizeLaw, CopyLaw, SortLaw (+ Theorems); E-lines carry every cell as a value code
        -> compare_all through the palette; SortMx / SortVec observation events judged by TLC (SortContract / VecSortContract)
  "out-of-range accessors fail safely (an error, the documented sentinel, or a clean abort)"
        -> the *Oor actions + OorLaw (state unchanged); indices just past the end, one further, mid-range (MaxDim+8, MaxDim+65) and far
           ((size_t)-1, 2^63, 2^63+1, 2^32)
        -> the call runs in a grandchild: returns with the state unchanged (NULL for getMatrixRow/Column), or SIGABRT without a sanitizer report
  "copies are deep: mutating a copy never changes the source"
        -> FrameLaw + CopyLaw; every later call on the copy is followed by a comparison of ALL slots, the source included; alias_check
  quantifier: "length 40, pool of 4 per kind, operand lengths around the current dimensions (shorter / equal / longer / zero)"
        -> GenSpec: Depth = 40, Pool of 4, AroundLen; coverage.size_relations

Input classes (INPUT-CLASSES.md; measured per executed call in coverage.classes, required ones are topped up until reached)
  K1 shape relations        emitted (was: by chance, uncounted): tall / wide / square / n=p+-1 / single row / single column / zero rows / zero columns / empty,
                            tensor layers of different shapes, delete at the first / last / only index, append onto a matrix that has rows but no
                            column (columns but no row)
  K2 block boundaries       NEW: sizes 3..5, 7..9, 15..17, 31..33, 63..65 for vectors, matrix rows / columns, list elements (block-size generator mode,
                            MaxDim 66), strings of 255 / 256 / 257 characters, out-of-range indices in mid range (MaxDim+8, MaxDim+65)
  K3 location               outside the quantifier (container calls do no arithmetic on the cells)
  K4 magnitude              NEW: "huge" palette (1, 2^31+5, 2^32+1 as double / size_t; 65537, INT_MAX as int; signed), far indices (size_t)-1, 2^63, 2^63+1, 2^32;
                            long number text (K4:long-number-text): StrVectorAppendDouble with +-1e24, 1e25, -1e30, 1e55..1e57, +-1e120, 1e121, -1e247, 1e248,
                            1e250, 1e300, +-DBL_MAX (text of 31 / 32 / 33, 39, 63..65, 127..129, 255..257, 308, 316 / 317 characters) and DBL_MIN / 1e-300 ("0.000000"),
                            StrVectorAppendInt with INT_MIN / INT_MAX: the model's cell is the number's code, the harness expands it to the "%f" / "%d"
                            text with snprintf into a buffer of the required size and compares length and content
  K5 non-representable      NEW: "frac" palette (0.1, 0.2, 0.3)
  K6 processor counts       not applicable (no container routine reaches an MT_* kernel)
  K7 in-process histories   40 calls per process with slots deleted and re-created, append after resize to 0, Extend(a, a); NEW: the operand is a member of
                            the destination (own string / layer / element), the plain build where a freed address is handed out again at once
                            (measured: coverage.plain_build), self-copies (EXTRA only)
  K8 degenerate             NEW: sort keys tied between identical and between different rows; duplicate rows, empty strings, constant vectors
  K9 missing-value code     outside the statement (not mentioned by C14)
  K10 label alphabets       not applicable

Operation alphabet against the public headers (vector.h, matrix.h, tensor.h, list.h)
  modelled (action of Containers.tla): New/init/Del/Resize/Append/RemoveAt/Copy/Extend/set/get/HasValue/IndexOf/Set(fill)/Sort/Print
      of dvector, uivector, ivector (each where the header has it); init/New/Del/Resize/Append/AppendInt/AppendDouble (small values and the
      long-number-text set)/setStr/getStr/
      Extend/Print of strvector and SplitString, StrVectorAppend / setStr also with one of the vector's OWN strings (the pointer getStr
      returns) as the argument; init/New/Del/Resize/MatrixSet/MatrixCopy/set/get/getMatrixRow/getMatrixColumn/
      MatrixAppendRow/Col/UIRow/UICol/MatrixDeleteRowAt/ColAt/MatrixSort/MatrixReverseSort/MatrixColumnMinMax/ValInMatrix/PrintMatrix;
      init/New/NewTensorMatrix/AddTensorMatrix/Del/set/get/TensorAppendMatrix (operand built for the call or one of the tensor's own
      layers)/TensorAppendColumn/TensorSet/TensorCopy/PrintTensor; init/New(0)/New(n)+fill/Append (operand built or an own element)/Del
      of dvectorlist.  With "self": DVectorCopy / MatrixCopy / TensorCopy of a container onto itself (identity; EXTRA findings only).
  not modelled, with the reason: coverage.excluded_ops (numeric kernels of C11/C15 - dot products, norms, means, inversions,
      decompositions; TensorAppendRow / TensorAppendMatrixAt / DVectNorm (contract unclear); MatrixCheck / FindNan / MatrixInitRandom*
      (no shape contract, random); MatrixGetMax/MinValueIndex (skip row 0, tie rule undocumented, read data[0][0] of an empty matrix);
      Trim (string helper, exercised through SplitString)).
"""
import collections, copy, hashlib, json, os, re, shutil
from concurrent.futures import ThreadPoolExecutor
from vf import build, tlc
from vf import run as hrun
from vf.core import InfraError

LEVEL = "model_checking"
READY = True
TECHNIQUE = ("TLC model checking of Containers.tla / ContainerLaws.tla (shadow state machine of dvector/uivector/ivector/strvector/matrix/tensor/dvectorlist, "
             "one action per public API call incl. sort, reverse sort, column min/max, SplitString, Print*, self- and member-aliased operands (own string / layer / element); shape invariants, "
             "algebraic theorems and guard/frame/read-only/copy/growth/shrink/sort/extend/resize laws) + replay of TLC-simulated operation histories (small, "
             "block-size and self-copy generator modes; value codes mapped to small / huge / fractional cell values) against the ASan/UBSan build and against "
             "the plain build under MALLOC_PERTURB_ (address reuse) with the spec's post-state compared after every call + TLC trace validation "
             "(TraceContainers.tla) of every observed sort result against the sort contract")
LEVEL_TEXT = ("The shadow model is checked exhaustively by TLC (breadth-first, every call of the alphabet, pool of 2, small dimensions and signed values, "
              "bounded depth) for shape consistency, guards on dead containers, framing (deep copies), the growth/shrink/sort/extend/resize laws and the "
              "algebraic theorems; the real library is bound to it by replaying TLC-generated histories (length 40, pool of 4 per kind, operand lengths "
              "around the current dimensions, dimensions up to 66 with sizes around 4/8/16/32/64, cell values up to 2^32+1 / INT_MAX and non-representable "
              "tenths, strings of 255..257 characters, numbers whose decimal text has 31..317 characters) under AddressSanitizer/UBSan and on the plain build with freed addresses reused, with liveness, "
              "dimensions, every cell and pointer ownership compared with the model after every call, and every observed sort result validated by TLC.")
LEVEL_NOTE = ("Model checking covers the specification within the stated bounds; the implementation is bound to it by sampled histories (counts in "
              "the evidence), not exhaustively. Trusts TLC, ASan/UBSan as the memory monitor, and the harness's comparison code. Operations whose "
              "contract is ambiguous are outside the alphabet and listed in coverage.excluded_ops. Input classes of INPUT-CLASSES.md: K1 K2 K4 K5 K7 K8 are "
              "emitted and counted (coverage.classes); outside the quantifier of C14 and therefore not generated: K3 (location / conditioning: no arithmetic "
              "in container calls), K6 (no container routine reaches an MT_* kernel or spawns workers), K9 (the property does not mention the missing-value "
              "code; MatrixColumnMinMax's MISSING skip belongs to C10), K10 (no label alphabets). Self-copies (X.Copy(x, x)), the return values of "
              "ValInMatrix / MatrixColumnMinMax and the tokenisation of SplitString are modelled exactly but lie outside the statement: deviations are "
              "EXTRA findings, never verdicts. Calls on a deleted container, deletes / sorts with an invalid index and setStr/getStr out of range are not valid "
              "operations and stay excluded.")


def _jobs():
    if os.environ.get("VERIF_JOBS"):
        return max(1, int(os.environ["VERIF_JOBS"]))
    if os.environ.get("VERIF_WORKERS"):
        return max(4, 2 * int(os.environ["VERIF_WORKERS"]))
    return 16


JOBS = _jobs()
ALL_KINDS = ["dv", "uv", "iv", "sv", "mx", "tn", "dl"]
KIDX = {k: i for i, k in enumerate(ALL_KINDS)}
UNSET = "<unset>"
NUMVAL = {"DBL_MAX": "1.7976931348623157e308", "-DBL_MAX": "-1.7976931348623157e308", "DBL_MIN": "2.2250738585072014e-308",
          "INT_MIN": "-2147483648", "INT_MAX": "2147483647"}
LONGSTR = {"<L255>": "x" * 255, "<L256>": "y" * 256, "<L257>": "z" * 257}

EXCLUDED_OPS = [
    dict(op="TensorAppendRow", why="its guard compares the row length with the row COUNT of the layer and aborts on what looks like valid input; contract unclear (observation, not judged)"),
    dict(op="TensorAppendMatrixAt", why="aborts with 'Module not developed' for order < t->order; otherwise identical to TensorAppendMatrix"),
    dict(op="TensorAppendMatrix with a row count different from the last layer", why="documented precondition (tensor.c:162), aborts by design; only the valid case is in the alphabet"),
    dict(op="TensorAppendColumn / NewTensorMatrix with an out-of-range layer", why="not accessors; abort / message by design, no container state defined"),
    dict(op="NewTensorMatrix on an already created layer", why="overwrites the pointer (leak); no documented contract"),
    dict(op="any call on a tensor that still has NULL layers from NewTensor(n), except NewTensorMatrix", why="NULL layers are dereferenced by design until created"),
    dict(op="NewDVectorList(n > 0) WITHOUT filling the slots", why="leaves n uninitialised pointers; Del would free garbage by design. The composite 'NewDVectorList(n) + NewDVector on every slot' (the only valid use) IS in the alphabet as NewDVectorListFilled"),
    dict(op="DVectNorm with a shorter destination", why="writes past the destination by its own size test; arithmetic kernel, contract ambiguous"),
    dict(op="MatrixDeleteRowAt / MatrixDeleteColAt / MatrixSort / MatrixReverseSort with an invalid index or on an empty dimension", why="not accessors; read / write out of bounds (observation), outside 'valid operations'"),
    dict(op="setStr / getStr out of range", why="no bounds check and none documented; the property's accessor clause is anchored on the numeric vectors, matrix and tensor"),
    dict(op="getStr / StrVectorAppend / StrVectorExtend / PrintStrVector / SplitString on a slot of NewStrVector(n) that was never set", why="the slot is one uninitialised byte; the test suite sets every slot first"),
    dict(op="DVectorDVectorDiff/Sum, DVectorMedian/Mean/SDEV/MinMax, DvectorModule, DVectorDVectorDotProd, the Matrix*DotProduct family, MatrixTranspose, inversions, "
            "decompositions, column statistics, Matrix2*Matrix, MeanCenteredTensor, TensorColAverage/SDEV, TensorTranspose, the tensor products", why="numeric kernels, covered by C11/C15; not container-shape operations"),
    dict(op="MatrixGetMaxValueIndex / MatrixGetMinValueIndex", why="skip row 0 of every column but the first, undocumented tie rule (EPSILON), read data[0][0] of an empty matrix: contract unclear"),
    dict(op="MatrixCheck, FindNan, MatrixInitRandomInt, MatrixInitRandomFloat", why="no shape contract (cells stay finite here) / random content"),
    dict(op="DVectorSort / SortUIVector on an EMPTY vector in generated histories", why="a vector made by init* has data == NULL and qsort(NULL, 0, ..) trips UBSan's nonnull-attribute check although no memory is touched; the model keeps the call, the generator sorts non-empty vectors only"),
    dict(op="Trim", why="string helper; exercised through SplitString only"),
]

# ------------------------------------------------------------------------------------------------ (M)
# group -> (Kinds switches, MaxDim, Vals, Depth [operations], workers)
VEC_ACTS = {"dv": ["VNew", "VInit", "VDel", "VResize", "VAppend", "VRemoveAt", "VCopy", "VExtend", "VSet", "VSetOor", "VGet", "VGetOor", "VHas", "VFill", "VSort", "VPrint"],
            "uv": ["VNew", "VInit", "VDel", "VResize", "VAppend", "VRemoveAt", "VExtend", "VSet", "VSetOor", "VGet", "VGetOor", "VHas", "VIndexOf", "VFill", "VSort", "VPrint"],
            "iv": ["VNew", "VInit", "VDel", "VAppend", "VRemoveAt", "VExtend", "VSet", "VSetOor", "VGet", "VGetOor", "VHas", "VFill", "VPrint"]}
GROUP_PREFIX = {"sv": "Sv", "mx": "Mx", "tn": "Tn", "dl": "Dl"}
MC_QUICK = [("dv", "dv", ["neg", "self"], 3, [0, 1], 6, 2), ("uv", "uv", [], 3, [0, 1, 2], 6, 2), ("iv", "iv", ["neg"], 3, [0, 1], 6, 2), ("sv", "sv", ["neg", "bignum-mc"], 2, [0, 1], 5, 2),
            ("dl", "dl", [], 2, [0, 1, 2], 5, 2), ("mx", "mx", ["neg", "self"], 2, [0, 1], 4, 4), ("tn", "tn", ["self"], 2, [0, 1], 4, 4)]
MC_THOROUGH = [("dv", "dv", ["neg", "self"], 4, [0, 1], 8, 3), ("uv", "uv", [], 4, [0, 1, 2], 8, 3), ("iv", "iv", ["neg"], 4, [0, 1], 8, 3), ("sv", "sv", ["neg", "long", "bignum-mc"], 3, [0, 1], 5, 3),
               ("dl", "dl", ["neg"], 2, [0, 1], 8, 3), ("dl_shapes", "dl", [], 3, [0], 7, 2),      # values on lists of <= 2 vectors; shapes (lengths 0..3, zeros only) one level deeper
               ("mx", "mx", ["neg", "self"], 2, [0, 1], 6, 8), ("tn", "tn", ["self"], 2, [0, 1, 2], 4, 8)]
INVARIANTS = ["Shape", "TypeOK", "DeadIsEmpty", "KindsOff", "DepthBound", "Theorems"]
LAWS = ["GuardLaw", "FrameLaw", "OorLaw", "ReadOnlyLaw", "CopyLaw", "GrowthLaw", "ShrinkLaw", "SortLaw", "ExtendLaw", "ResizeLaw"]


def _kinds_cfg(kinds):
    return "{" + ", ".join('"%s"' % k for k in kinds) + "}"


def model_check(ctx, rd):
    table = MC_QUICK if ctx.quick else MC_THOROUGH

    def one(row):
        lab, g, sw, maxdim, vals, depth, workers = row
        cfg = tlc.write_cfg(os.path.join(rd, "MC_Containers_%s.cfg" % lab), spec="Spec",
                            constants=dict(Pool='{"a", "b"}', MaxDim=maxdim, Vals=set(vals), Kinds=_kinds_cfg([g] + sw), Depth=depth),
                            invariants=INVARIANTS, properties=LAWS, view="View", deadlock=False)
        return tlc.run("Containers", cfg, workers=min(workers, JOBS), timeout=1700, xmx="6g")

    with ThreadPoolExecutor(max(1, min(len(table), JOBS // 2))) as ex:
        results = list(ex.map(one, table))
    total = 0
    for row, r in zip(table, results):
        lab, g, sw, maxdim, vals, depth, _ = row
        ctx.add_tlc(r, "mc_%s" % lab)
        ctx.steps["mc_%s" % lab]["coverage"] = {a: list(v) for a, v in r.coverage.items() if v[1] > 0}
        if not r.ok:
            # a counterexample of the model alone is never reported as a violation of the code (DESIGN section 4)
            raise InfraError("Containers.tla (%s): %s fails in the model itself:\n%s" % (g, r.violation, r.trace_text[:2500]))
        if r.depth != depth + 1:
            raise InfraError("model %s: search depth %d, expected %d calls + 1" % (g, r.depth, depth))
        must = VEC_ACTS[g] if g in VEC_ACTS else [a for a in r.coverage if a.startswith(GROUP_PREFIX[g])]
        if not must:
            raise InfraError("no coverage lines for group %s" % g)
        dead = [a for a in must if r.coverage.get(a, (0, 0))[1] == 0]
        if dead:
            raise InfraError("vacuous model check (%s): actions never taken: %s" % (g, dead))
        ctx.steps["mc_%s" % lab].update(dict(MaxDim=maxdim, Vals=vals, switches=sw, depth_ops=depth, pool=2, search_depth=r.depth))
        total += r.distinct
        ctx.note("model %-2s: pool 2, dims<=%d, values %s%s, %d operations deep: %d distinct pool states, %d transitions, %.1fs - invariants, theorems and laws hold"
                 % (lab, maxdim, vals, " +" + "+".join(sw) if sw else "", depth, r.distinct, r.generated, r.wall))
    return total


# ------------------------------------------------------------------------------------------------ (GEN)
# (Kinds incl. switches, histories, MaxDim, mode)   mode: "small" | "big" (K2 block sizes) | "self" (self-copies: EXTRA only)
SW = ["neg", "long", "bignum"]
GEN_QUICK = [(ALL_KINDS + SW, 96, 5, "small"), (["mx", "dv"] + SW, 48, 5, "small"), (["tn"] + SW, 40, 5, "small"), (["sv"] + SW, 28, 5, "small"),
             (["dv"] + SW, 10, 5, "small"), (["uv"] + SW, 10, 5, "small"), (["iv"] + SW, 10, 5, "small"), (["dl"] + SW, 10, 5, "small"),
             (["dv", "uv", "iv"] + SW, 24, 66, "big"), (["mx", "dv"] + SW, 24, 66, "big"), (["mx"] + SW, 16, 66, "big"), (["tn"] + SW, 8, 34, "big"), (["sv", "dl"] + SW, 10, 66, "big"),
             (["dv", "mx", "tn"] + SW + ["self"], 16, 5, "self")]


def _family_of(op):
    """container family (Kinds value) whose generator emits the library call `op`"""
    for pre, fam in (("Tensor", "tn"), ("NewTensor", "tn"), ("DelTensor", "tn"), ("setTensor", "tn"), ("getTensor", "tn"),
                     ("Matrix", "mx"), ("NewMatrix", "mx"), ("DelMatrix", "mx"), ("ResizeMatrix", "mx"), ("initMatrix", "mx"), ("setMatrix", "mx"), ("getMatrix", "mx"),
                     ("StrVector", "sv"), ("NewStrVector", "sv"), ("DelStrVector", "sv"), ("setStr", "sv"), ("getStr", "sv"), ("SplitString", "sv"),
                     ("DVectorList", "dl"), ("NewDVectorList", "dl"), ("DelDVectorList", "dl"),
                     ("UIVector", "uv"), ("NewUIVector", "uv"), ("DelUIVector", "uv"), ("setUIVector", "uv"), ("getUIVector", "uv"), ("SortUIVector", "uv"),
                     ("IVector", "iv"), ("NewIVector", "iv"), ("DelIVector", "iv"), ("setIVector", "iv"), ("getIVector", "iv"),
                     ("DVector", "dv"), ("NewDVector", "dv"), ("DelDVector", "dv"), ("setDVector", "dv"), ("getDVector", "dv")):
        if op.startswith(pre) or pre in op:
            return fam
    return None


def _gen_plan(ctx):
    if ctx.quick:
        return list(GEN_QUICK)
    plan = []
    for kinds, n, chunk, dims, mode in [(ALL_KINDS, 7000, 1000, (5, 6), "small"), (["mx", "dv"], 3500, 700, (5, 6), "small"), (["tn"], 2800, 700, (5, 6), "small"),
                                        (["sv"], 1800, 900, (5, 6), "small"), (["dv"], 800, 800, (5, 6), "small"), (["uv"], 800, 800, (5, 6), "small"),
                                        (["iv"], 800, 800, (5, 6), "small"), (["dl"], 600, 600, (5, 6), "small"),
                                        (["dv", "uv", "iv"], 1000, 250, (66, 40), "big"), (["mx", "dv"], 800, 100, (66, 36), "big"), (["mx"], 400, 100, (66, 34), "big"),
                                        (["tn"], 240, 40, (34, 20), "big"), (["sv", "dl"], 400, 100, (66, 40), "big"), (ALL_KINDS, 600, 200, (66, 18), "big"),
                                        (["dv", "mx", "tn", "self"], 300, 300, (5, 6), "self")]:
        i = 0
        while n > 0:
            plan.append((kinds + [k for k in SW if k not in kinds], min(chunk, n), dims[i % 2], mode))
            n -= chunk
            i += 1
    return plan


def gen_one(ctx, rd, i, kinds, num, maxdim):
    """one simulate-mode TLC run -> (TlcResult without its text, list of histories)"""
    cfg = tlc.write_cfg(os.path.join(rd, "GEN_Containers_%d.cfg" % i), spec="GenSpec",
                        constants=dict(Pool='{"a", "b", "c", "d"}', MaxDim=maxdim, Vals={0, 1, 2, 3}, Kinds=_kinds_cfg(kinds), Depth=40),
                        constraints=["Emit"], deadlock=False)
    r = tlc.run("Containers", cfg, workers=1, timeout=1500, simulate="num=%d" % num, depth=40, seed=(ctx.seed + 7919 * i) & 0x7FFFFFFF, xmx="3g")
    if not r.ok:
        raise InfraError("generator run failed: %s" % r.violation)
    hs = split_histories(r.emits)
    r.emits, r.out = [], ""
    if len(hs) < num:
        raise InfraError("generator produced %d histories, wanted %d (kinds %s)" % (len(hs), num, kinds))
    return r, hs[:num]


def refinement_run(ctx, rd):
    """simulated GenSpec behaviours checked against [][Next]_vars: the generator only produces steps of the model-checked relation"""
    cfg = tlc.write_cfg(os.path.join(rd, "REF_Containers.cfg"), spec="GenSpec",
                        constants=dict(Pool='{"a", "b", "c"}', MaxDim=3, Vals={0, 1}, Kinds=_kinds_cfg(ALL_KINDS + ["neg", "self", "long", "bignum"]), Depth=40),
                        invariants=["Shape", "TypeOK", "DeadIsEmpty"], properties=["GenRefinesNext"] + LAWS, deadlock=False)
    r = tlc.run("Containers", cfg, workers=1, timeout=1500, simulate="num=%d" % (10 if ctx.quick else 100), depth=40, seed=ctx.seed & 0x7FFFFFFF, xmx="3g")
    if not r.ok:
        raise InfraError("GenSpec leaves the model-checked next-state relation or breaks a law: %s\n%s" % (r.violation, r.trace_text[:2000]))
    return r


def split_histories(emits):
    """TLC prints one record per state of every simulated behaviour; a behaviour starts where the level is 2"""
    hs, cur, prev = [], None, None
    for rec in emits:
        lvl = rec["lvl"]
        if lvl == 1:
            cur, prev = None, 1
            continue
        if lvl == 2:
            cur = []
            hs.append(cur)
        elif cur is None or lvl != prev + 1:
            raise InfraError("generator output out of order: level %s after %s (one successor per action expected)" % (lvl, prev))
        cur.append(dict(op=rec["op"], cls=rec.get("cls") if isinstance(rec.get("cls"), list) else [],
                        post={k: v for k, v in rec["post"].items() if isinstance(v, dict)}))
        prev = lvl
    return hs


# ------------------------------------------------------------------------------------------------ palettes (value codes -> cell values)
UI_MATRIX_OPS = {"MatrixAppendUIRow", "MatrixAppendUICol"}


def palette_of(hid, steps, mode):
    """deterministic per history: half small, a quarter huge, a quarter tenths; tenths need the double and the size_t reading of a code to
    agree, so histories that push uivector operands into matrices take the huge palette instead"""
    q = hid % 4
    if q < 2:
        return "small"
    if q == 2:
        return "huge"
    return "huge" if any(s["op"]["name"] in UI_MATRIX_OPS for s in steps) else "frac"


# ------------------------------------------------------------------------------------------------ script writer
# argument layout per call: s slot, i int, V vector, S string id, W list of string ids, F matrix cells, R returned int (in-range only), T returned string
VEC_LAYOUT = {"cNew": "x:s n:i", "cInit": "x:s", "cDel": "x:s", "cResize": "x:s n:i", "cAppend": "x:s v:i", "cRemoveAt": "x:s i:i", "cCopy": "src:s dst:s",
              "cExtend": "a:s b:s y:s", "cSet": "x:s i:i v:i", "cGet": "x:s i:i ret:R", "cHas": "x:s v:i ret:R", "cIndexOf": "x:s v:i ret:R", "cFill": "x:s v:i", "cSort": "x:s",
              "cPrint": "x:s"}
VEC_NAMES = {
    "dv": dict(cNew="NewDVector", cInit="initDVector", cDel="DelDVector", cResize="DVectorResize", cAppend="DVectorAppend", cRemoveAt="DVectorRemoveAt", cCopy="DVectorCopy",
               cExtend="DVectorExtend", cSet="setDVectorValue", cGet="getDVectorValue", cHas="DVectorHasValue", cFill="DVectorSet", cSort="DVectorSort", cPrint="PrintDVector"),
    "uv": dict(cNew="NewUIVector", cInit="initUIVector", cDel="DelUIVector", cResize="UIVectorResize", cAppend="UIVectorAppend", cRemoveAt="UIVectorRemoveAt",
               cExtend="UIVectorExtend", cSet="setUIVectorValue", cGet="getUIVectorValue", cHas="UIVectorHasValue", cIndexOf="UIVectorIndexOf", cFill="UIVectorSet", cSort="SortUIVector",
               cPrint="PrintUIVector"),
    "iv": dict(cNew="NewIVector", cInit="initIVector", cDel="DelIVector", cAppend="IVectorAppend", cRemoveAt="IVectorRemoveAt", cExtend="IVectorExtend",
               cSet="setIVectorValue", cGet="getIVectorValue", cHas="IVectorHasValue", cFill="IVectorSet", cPrint="PrintIVector"),
}
LAYOUT = {
    "initStrVector": "x:s", "NewStrVector": "x:s n:i", "DelStrVector": "x:s", "StrVectorResize": "x:s n:i", "StrVectorAppend": "x:s s:S", "StrVectorAppendInt": "x:s v:i",
    "StrVectorAppendDouble": "x:s v:i", "setStr": "x:s i:i s:S", "getStr": "x:s i:i rets:T", "StrVectorExtend": "a:s b:s y:s", "PrintStrVector": "x:s",
    "StrVectorAppend:own": "x:s k:i", "setStr:own": "x:s i:i k:i", "StrVectorAppendInt:big": "x:s c:S", "StrVectorAppendDouble:big": "x:s c:S",
    "SplitString": "x:s toks:W decor:i",
    "initMatrix": "x:s", "NewMatrix": "x:s r:i c:i", "DelMatrix": "x:s", "ResizeMatrix": "x:s r:i c:i", "MatrixSet": "x:s v:i", "MatrixCopy": "src:s dst:s",
    "setMatrixValue": "x:s i:i j:i v:i", "getMatrixValue": "x:s i:i j:i ret:R", "getMatrixRow": "x:s i:i y:s?", "getMatrixColumn": "x:s j:i y:s?",
    "MatrixAppendRow": "x:s vs:V", "MatrixAppendCol": "x:s vs:V", "MatrixAppendUIRow": "x:s vs:V", "MatrixAppendUICol": "x:s vs:V", "MatrixDeleteRowAt": "x:s k:i", "MatrixDeleteColAt": "x:s k:i",
    "MatrixSort": "x:s j:i", "MatrixReverseSort": "x:s j:i", "MatrixColumnMinMax": "x:s j:i lo:R hi:R", "ValInMatrix": "x:s v:i ret:R", "PrintMatrix": "x:s",
    "initTensor": "x:s", "NewTensor": "x:s n:i", "NewTensorMatrix": "x:s k:i r:i c:i", "AddTensorMatrix": "x:s r:i c:i", "DelTensor": "x:s",
    "setTensorValue": "x:s k:i i:i j:i v:i", "getTensorValue": "x:s k:i i:i j:i ret:R", "TensorAppendMatrix": "x:s r:i c:i f:F", "TensorAppendMatrix:own": "x:s k:i",
    "TensorAppendColumn": "x:s k:i vs:V", "TensorSet": "x:s v:i", "TensorCopy": "src:s dst:s", "PrintTensor": "x:s",
    "initDVectorList": "x:s", "NewDVectorList": "x:s n:i", "NewDVectorListFilled": "x:s vss:L", "DVectorListAppend": "x:s vs:V", "DVectorListAppend:own": "x:s k:i", "DelDVectorList": "x:s",
}
for _k, _names in VEC_NAMES.items():
    for _call, _name in _names.items():
        LAYOUT[_name] = VEC_LAYOUT[_call]
ALPHABET = sorted(LAYOUT)
SLOT = {"a": 0, "b": 1, "c": 2, "d": 3}
CREATES = {"x": {n for n in LAYOUT if n.startswith("New") or n.startswith("init")}, "y": {n for n in LAYOUT if n.endswith("Extend") or n in ("getMatrixRow", "getMatrixColumn")}}
APPENDS = {n for n in LAYOUT if "Append" in n or n == "SplitString"}
EXTRA_RETURN_OPS = {"ValInMatrix", "MatrixColumnMinMax"}       # queries outside the statement: the harness records a deviating return value as an extra
SELF_COPY_OPS = {"DVectorCopy", "MatrixCopy", "TensorCopy"}     # X.Copy(x, x): modelled as the identity, outside the statement
# calls whose operand is a member of the destination (StrVectorAppend:own, setStr:own, TensorAppendMatrix:own, DVectorListAppend:own) ARE judged:
# each is a valid call on a valid argument (the pointer a valid accessor returned), and what the statement forbids - using memory the library
# itself released during the call - does not depend on where the argument came from.  To demote one to an EXTRA finding add its name here.
OUT_OF_STATEMENT_OPS = set()
EXTRA_STATE_OPS = {"SplitString"}                              # tokenisation is string parsing, not a container clause: a wrong token list is an extra


class Script:
    def __init__(self):
        self.strs = {}
        self.lines = []

    def sid(self, s):
        if s == UNSET:
            return -1
        if s not in self.strs:
            self.strs[s] = len(self.strs)
        return self.strs[s]

    def _mat(self, m):
        if not m["live"]:
            return [0]
        out = [1, m["row"], m["col"]]
        cell = m["cell"] if isinstance(m["cell"], list) else []
        for i in range(m["row"]):
            row = cell[i] if i < len(cell) and isinstance(cell[i], list) else []
            if len(row) != m["col"]:
                raise InfraError("spec post-state: row %d of a %dx%d matrix has %d cells" % (i, m["row"], m["col"], len(row)))
            out += row
        return out

    def history(self, hid, steps, pal="small"):
        self.lines.append("H %d %s" % (hid, pal))
        for n, st in enumerate(steps, 1):
            op = st["op"]
            a = op["a"]
            toks = ["O", n, op["name"], op["rel"], 1 if op["oor"] else 0]
            for fld in LAYOUT[op["name"]].split():
                key, typ = fld.split(":")
                if typ.endswith("?"):
                    if key not in a:
                        continue
                    typ = typ[:-1]
                if typ == "s":
                    toks.append(SLOT[a[key]])
                elif typ == "i":
                    toks.append(a[key])
                elif typ == "V":
                    v = a[key] if isinstance(a[key], list) else []
                    toks += [len(v)] + v
                elif typ == "W":
                    v = a[key] if isinstance(a[key], list) else []
                    toks += [len(v)] + [self.sid(s) for s in v]
                elif typ == "L":
                    vs = a[key] if isinstance(a[key], list) else []
                    toks.append(len(vs))
                    for v in vs:
                        v = v if isinstance(v, list) else []
                        toks += [len(v)] + v
                elif typ == "S":
                    toks.append(self.sid(a[key]))
                elif typ == "F":
                    f = a[key] if isinstance(a[key], list) else []
                    for i in range(a["r"]):
                        row = f[i] if i < len(f) and isinstance(f[i], list) else []
                        if len(row) != a["c"]:
                            raise InfraError("operand matrix row has %d cells, want %d" % (len(row), a["c"]))
                        toks += row
                elif typ == "R":
                    if not op["oor"]:
                        toks.append(a[key])
                elif typ == "T":
                    toks.append(self.sid(a[key]))
            self.lines.append(" ".join(str(t) for t in toks))
            for kind in ALL_KINDS:
                p = st["post"].get(kind)
                if not isinstance(p, dict):
                    continue
                for slot in sorted(p):
                    v = p[slot]
                    e = ["E", KIDX[kind], SLOT[slot]]
                    if kind in ("dv", "uv", "iv"):
                        d = v["d"] if isinstance(v["d"], list) else []
                        e += [1, len(d)] + d if v["live"] else [0]
                    elif kind == "sv":
                        d = v["d"] if isinstance(v["d"], list) else []
                        e += [1, len(d)] + [self.sid(s) for s in d] if v["live"] else [0]
                    elif kind == "mx":
                        e += self._mat(v)
                    elif kind == "tn":
                        ms = v["m"] if isinstance(v["m"], list) else []
                        if v["live"]:
                            e += [1, len(ms)]
                            for m in ms:
                                e += self._mat(m)
                        else:
                            e += [0]
                    elif kind == "dl":
                        ds = v["d"] if isinstance(v["d"], list) else []
                        if v["live"]:
                            e += [1, len(ds)]
                            for d in ds:
                                d = d if isinstance(d, list) else []
                                e += [len(d)] + d
                        else:
                            e += [0]
                    self.lines.append(" ".join(str(t) for t in e))

    def text(self):
        head = []
        for s, i in self.strs.items():
            if s.startswith("<D:") or s.startswith("<I:"):
                # a number of the K4 long-number-text set: the harness formats the reference text itself (snprintf) and passes the value to the call
                head.append("NUM %d %s %s" % (i, s[1].lower(), NUMVAL.get(s[3:-1], s[3:-1])))
            else:
                head.append("STR %d %s" % (i, LONGSTR.get(s, s).encode().hex() or "-"))
        return "\n".join(head + self.lines) + "\n"


# ------------------------------------------------------------------------------------------------ (C)
LIBSRC = {"vector.c", "matrix.c", "tensor.c", "list.c", "memwrapper.c"}
_RE_FRAME = re.compile(r"#\d+ 0x[0-9a-f]+ in (\w+) (?:\S*/)?([\w.-]+\.c):(\d+)")
PLAIN_ENV = {"MALLOC_PERTURB_": "165"}     # glibc: fresh memory is filled with ~0xA5.., freed memory with 0xA5..: never zero, never the old content


def san_kind(err):
    """-> 'asan:<error>:<first library function on the stack>' / 'ubsan:...' / None"""
    m = re.search(r"ERROR: AddressSanitizer: ([\w-]+)", err)
    if m:
        kind = m.group(1)
        if kind == "attempting":
            m2 = re.search(r"AddressSanitizer: attempting (double-free|free on address which was not malloc)", err)
            kind = "double-free" if m2 and m2.group(1) == "double-free" else "bad-free"
        first = err[m.start():].split("\n\n")[0]
        fn = None
        for f in _RE_FRAME.finditer(first):
            if f.group(2) in LIBSRC:
                fn = f.group(1)
                break
        if fn is None:
            f = _RE_FRAME.search(first)
            fn = f.group(1) if f else "?"
        return "asan:%s:%s" % (kind, fn)
    m = re.search(r"(\S+\.c):(\d+):\d+: runtime error: (.*)", err)
    if m:
        return "ubsan:%s:%s" % (os.path.basename(m.group(1)), re.sub(r"[^a-z ]", "", m.group(3).lower())[:40].strip().replace(" ", "-"))
    if "Sanitizer" in err:
        return "asan:other"
    return None


def _brief(err):
    """summary line + the first frames of the first stack of a sanitizer report"""
    keep = [ln.strip() for ln in err.splitlines() if re.search(r"ERROR: AddressSanitizer|runtime error:|^(READ|WRITE) of size|is located", ln.strip())][:3]
    frames = [ln.strip() for ln in err.split("\n\n")[0].splitlines() if re.match(r"\s*#\d+ ", ln)][:5]
    return " | ".join(keep + frames)[:1200]


def classify(res):
    """harness result line -> (signature suffix, text)"""
    r, err = res["res"], res.get("err", "")
    sk = san_kind(err)
    if r == "san" or (sk and r in ("exit", "signal", "abort")):
        return sk or "asan:other", "sanitizer report %s %s" % (res.get("what", ""), _brief(err))
    if r == "obs":
        return "sort-contract", "TLC rejects the observed result (TraceContainers.tla): %s" % res["what"]
    if r == "mismatch":
        return "state", "state differs from the model: %s" % res["what"]
    if r == "alias":
        return "alias", "two live containers own the same memory (copy is not deep): %s" % res["what"]
    if r == "abort":
        return "abort", "the library aborted on a valid call: %s" % (err.strip()[-300:] or "(glibc / abort() without a message)")
    if r == "signal":
        return "signal%d" % res.get("sig", 0), "killed by signal %d %s" % (res.get("sig", 0), res.get("what", ""))
    if r == "timeout":
        return "hang", "the history did not finish within the watchdog"
    return "exit%d" % res.get("rc", -1), "child exited with %d: %s" % (res.get("rc", -1), err[-300:])


def replay_histories(ctx, rd, exe, histories, label="replay", parts=None, pals=None, env=None):
    """-> ({hid: result line}, [observation events with 'h' = hid])"""
    parts = parts or max(1, min(JOBS, (len(histories) + 19) // 20))
    jobs = []
    for p in range(parts):
        sc = Script()
        ids = list(range(p, len(histories), parts))
        for hid in ids:
            sc.history(hid, histories[hid], pals[hid] if pals else "small")
        sp, op = os.path.join(rd, "%s-%d.script" % (label, p)), os.path.join(rd, "%s-%d.ndjson" % (label, p))
        open(sp, "w").write(sc.text())
        jobs.append(([sp, op, 60], ids))
    res = hrun.run_many(exe, [j[0] for j in jobs], timeout=3000, workers=JOBS, env=env)
    out, obs = {}, []
    for (args, ids), h in zip(jobs, res):
        lines = hrun.read_ndjson(args[1])
        if h.rc != 0 or len(lines) != len(ids):
            raise InfraError("c14_replay driver failed (rc=%s, %d/%d results): %s" % (h.rc, len(lines), len(ids), (h.err or h.out)[-800:]))
        for ln in lines:
            if ln["res"] == "script":
                raise InfraError("c14_replay rejected its script: %s" % ln.get("what"))
            out[ln["h"]] = ln
        obs += hrun.read_ndjson(args[1] + ".obs")
        for f in (args[0], args[1], args[1] + ".obs"):
            try:
                os.remove(f)
            except OSError:
                pass
    return out, obs


def _is_size_case(st):
    return st["op"]["rel"] in ("shorter", "longer", "zero", "diff-shape", "src-empty", "out", "tie-distinct", "tie-dup", "self") or st["op"]["oor"]


SORT_OPS = {"MatrixSort", "MatrixReverseSort", "DVectorSort", "SortUIVector"}


def validate_obs(events, max_rounds=8):
    """TLC judges the observed sort results -> (list of rejected events, summed TLC counters, number validated)"""
    rejected, agg = [], dict(distinct=0, generated=0, wall=0.0, runs=0)
    ev = [dict(e="Reset")] + list(events)
    if len(ev) == 1:
        return rejected, agg, 0
    for _ in range(max_rounds):
        ok, n, r = tlc.validate_trace("TraceContainers", "Trace_Containers.cfg", ev, timeout=1200, xmx="3g")
        agg["distinct"] += r.distinct; agg["generated"] += r.generated; agg["wall"] += r.wall; agg["runs"] += 1
        if ok:
            break
        if n >= len(ev) or n == 0:
            raise InfraError("TraceContainers rejects the observation trace at line %d of %d without a sort event to blame" % (n, len(ev)))
        bad = ev[n]
        rejected.append(bad)
        # every further observation of the same routine on the same build would repeat the signature: drop them, keep judging the others
        same = lambda e: e.get("e") == bad["e"] and e.get("kind") == bad.get("kind") and e.get("rev") == bad.get("rev") and e.get("b") == bad.get("b")
        ev = [e for e in ev if not same(e)]
    # (more than max_rounds rejected observations of different routines / builds in one chunk: a tree whose sorts are broken everywhere.  The rejected ones are
    # reported as violations by the caller; the rest of this chunk's observations stays unjudged - not an infrastructure failure)
    return rejected, agg, len(events)


class Tally:
    """what is kept of a replayed chunk once its histories are dropped"""
    def __init__(self):
        self.opmix, self.relmix, self.gen_ops, self.classes = collections.Counter(), collections.Counter(), collections.Counter(), collections.Counter()
        self.cases = []          # (key, nontrivial, calls executed)
        self.failures = []       # (step, hid, result line, history prefix, is_cleanup, build)
        self.extras = []         # (signature, text)
        self.ok = self.aborts = self.rets = self.histories = self.calls_generated = self.reuse = self.plain_calls = self.obs_n = 0
        self.samples = []
        self.tlc = dict(distinct=0, generated=0, wall=0.0, runs=0)
        self.obs_sample = {}

    def add(self, other):
        self.opmix.update(other.opmix); self.relmix.update(other.relmix); self.gen_ops.update(other.gen_ops); self.classes.update(other.classes)
        self.cases += other.cases; self.failures += other.failures; self.samples += other.samples; self.extras += other.extras
        self.ok += other.ok; self.aborts += other.aborts; self.rets += other.rets
        self.histories += other.histories; self.calls_generated += other.calls_generated
        self.reuse += other.reuse; self.plain_calls += other.plain_calls; self.obs_n += other.obs_n
        for k in self.tlc:
            self.tlc[k] += other.tlc[k]
        for k, v in other.obs_sample.items():
            self.obs_sample.setdefault(k, v)


def history_classes(steps, done, pal, cls):
    """class tags of the executed calls: the tags TLC computed per call (cls), the palette, and the history-level K7 motifs"""
    deleted, emptied = set(), set()
    for st in steps[:done]:
        op = st["op"]
        name, a = op["name"], op["a"]
        for t in st.get("cls", ()):
            cls[t] += 1
        if pal == "huge":
            cls["K4:huge-values"] += 1
        elif pal == "frac":
            cls["K5:tenths"] += 1
        fam = _family_of(name)
        for fld, names in CREATES.items():
            if name in names and fld in a and not op["oor"]:
                f2 = "dv" if name in ("getMatrixRow", "getMatrixColumn") else fam
                if (f2, a[fld]) in deleted:
                    cls["K7:recreate-in-freed-slot"] += 1
                    deleted.discard((f2, a[fld]))
        if name.startswith("Del") and "x" in a:
            deleted.add((fam, a["x"]))
        for kind, p in st["post"].items():
            for slot, v in p.items():
                if not v.get("live"):
                    emptied.discard((kind, slot))
                    continue
                size = (v["row"] * v["col"]) if kind == "mx" else len(v["m"] if kind == "tn" else v["d"])
                if name in APPENDS and (kind, slot) in emptied:
                    cls["K7:append-after-resize0"] += 1
                if size == 0 and "Resize" in name:
                    emptied.add((kind, slot))
                elif size > 0 or "Resize" not in name:
                    emptied.discard((kind, slot))


def summarise(histories, results, pals, base=0, build_name="san", t=None, count_cases=True):
    t = t or Tally()
    for hid, steps in enumerate(histories):
        res = results[hid]
        done = res["ops"]
        if count_cases:
            t.histories += 1
            t.calls_generated += len(steps)
            for st in steps:
                t.gen_ops[st["op"]["name"]] += 1
            for st in steps[:done]:
                t.opmix[st["op"]["name"]] += 1
                if st["op"]["rel"] != "na":
                    t.relmix["%s:%s" % (st["op"]["name"], st["op"]["rel"])] += 1
            history_classes(steps, done, pals[hid], t.classes)
            t.aborts += res["oor_abort"]
            t.rets += res["oor_ret"]
            if res["res"] == "ok":
                t.ok += 1
        else:
            t.plain_calls += done
            t.reuse += res.get("reuse", 0)
            if res.get("reuse", 0):
                t.classes["K7:address-reuse"] += done
        key = hashlib.sha1(json.dumps([s["op"] for s in steps] + [pals[hid], build_name], sort_keys=True).encode()).hexdigest()[:16]
        t.cases.append((key, any(_is_size_case(s) for s in steps[:done]), max(done, 1)))
        for x in res.get("extras", []):
            opn = x.split("(")[0].split(" ")[0]
            t.extras.append(("CONTAINER:%s:%s-values:return" % (opn, pals[hid]), "%s [history %d, %s palette, %s build]" % (x, base + hid, pals[hid], build_name)))
        if res["res"] != "ok":
            step = res.get("step", 0)
            cleanup = res.get("rel") == "cleanup"
            t.failures.append((step, base + hid, res, steps if cleanup else steps[:step], cleanup, build_name, pals[hid]))
    if histories and count_cases:
        t.samples.append(dict(history=base, palette=pals[0], calls=[dict(name=s["op"]["name"], rel=s["op"]["rel"], a=s["op"]["a"]) for s in histories[0][:6]]))
    return t


def obs_failures(t, histories, pals, rejected, base, build_name):
    for ev in rejected:
        hid, step = ev["h"], ev["step"]
        st = histories[hid][step - 1]
        what = "%s of %s: before %s after %s" % (st["op"]["name"], json.dumps(st["op"]["a"], sort_keys=True), json.dumps(ev["pre"])[:300], json.dumps(ev["post"])[:300])
        res = dict(res="obs", step=step, op=st["op"]["name"], rel=st["op"]["rel"], what=what)
        t.failures.append((step, base + hid, res, histories[hid][:step], False, build_name, pals[hid]))


def report(ctx, t):
    """turn the failures of a tally into violations (shortest prefix first, one per signature)"""
    for key, nontrivial, n in t.cases:
        ctx.case(key, nontrivial, n=n)
    for tag, n in sorted(t.classes.items()):
        ctx.cls(tag, n)
    for sig, text in t.extras:
        ctx.extra(sig, text)
    notjudged = nfail = 0
    for step, hid, res, prefix, cleanup, build_name, pal in sorted(t.failures, key=lambda f: (f[0], f[1])):
        kind, text = classify(res)
        if build_name == "plain" and (kind in ("abort", "hang") or kind.startswith("signal") or kind.startswith("exit")):
            # without a sanitizer a heap corruption surfaces where glibc notices it, possibly calls after the one that caused it
            kind += "@plain-build"
            text += " [plain build: the call named here is where the damage surfaced, not necessarily the call that caused it]"
        if kind.startswith("ubsan:") and "null pointer passed as argument" in res.get("err", "") and res.get("op") in ("DVectorSort", "SortUIVector"):
            # qsort(NULL, 0, ...) on a vector made by init*: UBSan's nonnull-attribute check, no memory is touched - outside what C14 states
            notjudged += 1
            continue
        sig = "CONTAINER:%s:%s:%s" % (res.get("op", "?"), res.get("rel", "?"), kind)
        what = "history %d (%s palette, %s build), call %d%s: %s(%s) [%s] - %s" % (
            hid, pal, build_name, step, " (deleting the remaining containers)" if cleanup else "", res.get("op"),
            "" if cleanup or not prefix else json.dumps(prefix[-1]["op"]["a"], sort_keys=True)[:400], res.get("rel"), text)
        if (res.get("rel") == "self" and res.get("op") in SELF_COPY_OPS) or (res.get("op") in EXTRA_STATE_OPS and kind == "state") or res.get("op") in OUT_OF_STATEMENT_OPS:
            # modelled exactly, but not a clause of C14's statement (a copy of a container onto itself has no documented meaning; tokenisation is string parsing)
            ctx.extra(sig, what)
            continue
        nfail += 1
        ctx.violation(sig, what, dict(kind="history", history=prefix, palette=pal, build=build_name, failed_step=step, harness=dict(res=res["res"], what=res.get("what", ""))))
    if notjudged:
        ctx.cov["not_judged"] = dict(zero_length_qsort_on_null_data=notjudged)
    return nfail


def binding_selftest(ctx, rd, exe, histories, results, pals, obs):
    """corrupt one expected cell of a history that replays cleanly: the harness must report a state mismatch at that call;
    corrupt one field of a recorded SortMx and SortVec observation: TLC must reject the trace"""
    done = False
    for hid, h in enumerate(histories):
        if results[hid]["res"] != "ok" or done:
            continue
        for n, st in enumerate(h):
            for kind in ("dv", "uv", "iv"):
                p = st["post"].get(kind)
                if isinstance(p, dict) and not done:
                    for slot, v in p.items():
                        if v["live"] and isinstance(v["d"], list) and v["d"] and 0 <= v["d"][-1] < 3:
                            bad = copy.deepcopy(h)
                            bad[n]["post"][kind][slot]["d"][-1] += 1
                            r = replay_histories(ctx, rd, exe, [bad], label="selftest", parts=1, pals=[pals[hid]])[0][0]
                            if r["res"] != "mismatch" or r["step"] != n + 1:
                                raise InfraError("binding self-test: a corrupted expected cell at call %d was not reported (%s)" % (n + 1, r))
                            ctx.steps["binding_selftest"] = dict(history=hid, call=n + 1, palette=pals[hid], corrupted="%s[%s] last cell +1" % (kind, slot), reported=r["what"])
                            done = True
                            break
    if not done:
        if ctx.violations:
            ctx.note("binding self-test skipped: no history of the first chunk replayed cleanly")
        else:
            raise InfraError("binding self-test: no clean history with a non-empty vector to corrupt")
    for kind in ("SortMx", "SortVec"):
        ev = obs.get(kind)
        if ev is None:
            if ctx.violations:
                continue
            raise InfraError("binding self-test: no %s observation was recorded" % kind)
        ok, n, r = tlc.validate_trace("TraceContainers", "Trace_Containers.cfg", [dict(e="Reset"), ev])
        if not ok:
            continue        # this observation is itself one of the reported violations
        bad = copy.deepcopy(ev)
        if kind == "SortMx":
            bad["post"][0][0] = bad["post"][0][0] + 7
        else:
            bad["post"] = bad["post"][:-1] + [bad["post"][-1] - 9]
        ok, n, r = tlc.validate_trace("TraceContainers", "Trace_Containers.cfg", [dict(e="Reset"), bad])
        if ok:
            raise InfraError("binding lost: a corrupted %s observation is accepted by TraceContainers" % kind)
        ctx.steps["binding_selftest_" + kind] = dict(rejected_at=n, corrupted="one cell of post")


REQUIRED_CLASSES = {   # class -> (family, MaxDim) of the generator run that tops it up when the planned runs did not reach it
    "K1:wide": ("mx", 5), "K1:tall": ("mx", 5), "K1:square": ("mx", 5), "K1:single-row": ("mx", 5), "K1:single-col": ("mx", 5), "K1:rows0": ("mx", 5), "K1:cols0": ("mx", 5),
    "K1:n=p+-1": ("mx", 5), "K1:append-row-onto-cols0": ("mx", 5), "K1:append-col-onto-rows0": ("mx", 5), "K1:layers-differ": ("tn", 5), "K1:delete-first": ("mx", 5), "K1:delete-last": ("mx", 5), "K1:delete-only": ("mx", 5),
    "K2:size31|K2:size32|K2:size33": ("dv", 66), "K2:size63|K2:size64|K2:size65": ("dv", 66), "K2:rows31|K2:rows32|K2:rows33|K2:cols31|K2:cols32|K2:cols33": ("mx", 66),
    "K2:rows63|K2:rows64|K2:rows65|K2:cols63|K2:cols64|K2:cols65": ("mx", 66), "K2:string-256": ("sv", 5), "K2:oor-mid-range": ("mx", 5), "K4:oor-far-index": ("mx", 5),
    "K4:huge-values": ("mx", 5), "K4:long-number-text": ("sv", 5), "K5:tenths": ("dv", 5), "K7:extend-self": ("dv", 5), "K7:operand-inside-destination": ("tn", 5), "K7:recreate-in-freed-slot": ("dv", 5),
    "K7:append-after-resize0": ("dv", 5), "K7:address-reuse": ("dv", 5), "K8:sort-tie-distinct": ("mx", 5), "K8:sort-tie-dup": ("mx", 5), "K8:duplicate-rows": ("mx", 5),
    "K8:empty-string": ("sv", 5),
}


def _missing_classes(classes):
    return [k for k in REQUIRED_CLASSES if not any(classes.get(a, 0) > 0 for a in k.split("|"))]


def run(ctx):
    ctx.assumptions += [
        "TLC explores Containers.tla exhaustively only within the stated constants (pool 2, dims/values/depth per family in coverage.steps)",
        "the implementation is bound to the model by replaying sampled TLC-generated histories (counts in coverage.steps.gen), not exhaustively",
        "ASan/UBSan is the monitor for reads/writes outside owned memory, use after free and double free; the harness compares liveness, dims, every cell and pointer ownership after every call",
        "cell values are value codes in the specification; the harness maps them through a strictly increasing palette with 0 -> 0 (small: identity; huge: 1, 2^31+5, 2^32+1 / 65537, INT_MAX; frac: tenths), so order, equality and zero fill are preserved",
        "out-of-range accessors are accepted when they return with the state unchanged (NULL for getMatrixRow/getMatrixColumn, any value for the scalar getters) or abort() cleanly; a sanitizer report or a changed state is a violation",
        "the order of rows with equal sort keys is not part of the sort contract; TLC judges every observed sort result (permutation + ordered key), and the replay continues from the model's representative",
        "operations outside the alphabet (coverage.excluded_ops) are not judged; self-copies, ValInMatrix / MatrixColumnMinMax return values and SplitString tokenisation are reported as EXTRA findings only",
    ]
    ctx.cov["excluded_ops"] = EXCLUDED_OPS
    rd = tlc.rundir()
    try:
        lib = build.build_lib("san")
        exe = build.build_harness("c14", ["c14_replay.c"], lib)
        plib = build.build_lib("plain")
        pexe = build.build_harness("c14", ["c14_replay.c"], plib)
        plan = _gen_plan(ctx)
        offsets, o = [], 0
        for kinds, num, maxdim, mode in plan:
            offsets.append(o)
            o += num
        first = {}

        def chunk(i):
            kinds, num, maxdim, mode = plan[i]
            r, hs = gen_one(ctx, rd, i, kinds, num, maxdim)
            pals = [palette_of(offsets[i] + h, hs[h], mode) for h in range(len(hs))]
            results, obs = replay_histories(ctx, rd, exe, hs, label="c%d" % i, parts=1, pals=pals)
            t = summarise(hs, results, pals, offsets[i], "san")
            presults, pobs = replay_histories(ctx, rd, pexe, hs, label="p%d" % i, parts=1, pals=pals, env=PLAIN_ENV)
            summarise(hs, presults, pals, offsets[i], "plain", t=t, count_cases=False)
            for ev in obs:
                ev["b"] = "san"
            for ev in pobs:
                ev["b"] = "plain"
            rej, agg, n = validate_obs(obs + pobs)          # one TLC run per chunk judges the sort results observed on both builds
            for bname in ("san", "plain"):
                obs_failures(t, hs, pals, [e for e in rej if e["b"] == bname], offsets[i], bname)
            t.obs_n += n
            for k in t.tlc:
                t.tlc[k] += agg[k]
            for ev in obs:
                if ev["post"] and (ev["e"] == "SortVec" or ev["post"][0]):      # the binding self-test needs a cell to corrupt
                    t.obs_sample.setdefault(ev["e"], ev)
            if i == 0:
                first["h"], first["r"], first["p"] = hs, results, pals
            return t

        total = Tally()
        with ThreadPoolExecutor(max(1, min(len(plan) + 2, JOBS))) as ex:
            mc = ex.submit(model_check, ctx, rd)
            ref = ex.submit(refinement_run, ctx, rd)
            for t in ex.map(chunk, range(len(plan))):
                total.add(t)
            rr = ref.result()
            mc.result()
        ctx.steps["gen_refines_next"] = dict(behaviours=10 if ctx.quick else 100, depth=40, wall_s=round(rr.wall, 2), pool=3, MaxDim=3)
        ctx.cov["transitions"] += total.calls_generated
        topups = 0
        while topups < 10:
            # alphabet and class coverage must not depend on seed luck: draw further histories (fresh generator seed, family of the missing
            # call / class) until every operation of the alphabet and every required class has been executed; all are replayed and judged like the others
            missing = [o_ for o_ in ALPHABET if total.gen_ops[o_] == 0]
            mcls = _missing_classes(total.classes)
            if not missing and not mcls:
                break
            if ctx.violations or total.failures:
                break           # a failing tree ends histories early: coverage of the remaining calls is not the point any more
            topups += 1
            if missing:
                fam, md, mode = _family_of(missing[0]), 5, "small"
            else:
                fam, md = REQUIRED_CLASSES[mcls[0]]
                mode = "big" if md > 16 else "small"
            j = len(plan)
            plan.append(([fam] + SW if fam else ALL_KINDS + SW, 40, md, mode))
            offsets.append(o)
            o += 40
            total.add(chunk(j))
        if topups:
            ctx.steps["gen_topups"] = topups
        missing = [o_ for o_ in ALPHABET if total.gen_ops[o_] == 0]
        mcls = _missing_classes(total.classes)
        if (missing or mcls) and not total.failures:
            raise InfraError("generated histories never reach: calls %s classes %s (after %d top-up rounds)" % (missing, mcls, topups))
        ctx.steps["gen"] = dict(runs=len(plan), histories=total.histories, calls=total.calls_generated, depth=40, pool=4,
                                plan=[dict(kinds=k, histories=n, MaxDim=d, mode=m) for k, n, d, m in plan])
        ctx.steps["sort_observations"] = dict(events=total.obs_n, tlc_runs=total.tlc["runs"], distinct=total.tlc["distinct"], generated=total.tlc["generated"], wall_s=round(total.tlc["wall"], 2))
        ctx.cov["states"] += total.tlc["distinct"]
        ctx.cov["transitions"] += total.tlc["generated"]
        ctx.note("generated %d histories / %d calls over %d operations of the alphabet; %d sort observations validated by TLC" % (total.histories, total.calls_generated, len(ALPHABET), total.obs_n))
        nfail = report(ctx, total)
        okh, opmix, relmix, aborts, rets = total.ok, total.opmix, total.relmix, total.aborts, total.rets
        ctx.traces(okh)
        binding_selftest(ctx, rd, exe, first["h"], first["r"], first["p"], total.obs_sample)
        ctx.cov["rule"] = ("a case is one generated history (40 calls over pools of 4 containers per kind, one value palette) replayed call by call against one build "
                           "(ASan/UBSan, or plain gcc under MALLOC_PERTURB_); evaluations = calls executed and compared with the model's post-state; non-trivial = the "
                           "history contains at least one call whose operand is shorter/longer/empty relative to the current dimension, a copy onto another shape, a sort "
                           "with tied keys, or an out-of-range accessor; distinct by call sequence, palette and build")
        ctx.cov["exhaustive"] = False
        ctx.cov["alphabet"] = ALPHABET
        ctx.cov["op_mix"] = dict(opmix)
        ctx.cov["size_relations"] = dict(relmix)
        ctx.cov["out_of_range_accessors"] = dict(clean_abort=aborts, returned_unchanged=rets)
        ctx.cov["histories"] = dict(replayed=total.histories, completed=okh, failed=nfail)
        ctx.cov["plain_build"] = dict(calls=total.plain_calls, creations_at_a_freed_address=total.reuse, env=PLAIN_ENV)
        ctx.cov["class_table"] = {
            "K1": "emitted: tall / wide / square / n=p+-1 / single row / single column / zero rows / zero columns / empty, tensor layers of different shapes, delete at first / last / only index",
            "K2": "emitted: sizes 3..5, 7..9, 15..17, 31..33, 63..65 (vectors, matrix rows / columns, list elements), strings of 255..257 characters, mid-range out-of-range indices",
            "K3": "outside the quantifier: container calls do no arithmetic on cell values",
            "K4": "emitted: huge palette (2^31+5, 2^32+1, 65537, INT_MAX, signed), far out-of-range indices ((size_t)-1, 2^63, 2^63+1, 2^32), numbers with long or degenerate decimal text for StrVectorAppendDouble / StrVectorAppendInt (1e24 .. DBL_MAX: 31 .. 317 characters, DBL_MIN, INT_MIN / INT_MAX)",
            "K5": "emitted: tenths palette (0.1, 0.2, 0.3: not representable)",
            "K6": "not applicable: no container routine reaches an MT_* kernel",
            "K7": "emitted: 40 calls in one process with slots deleted and re-created, append after resize to 0, Extend(a, a), an own layer / element as the operand, plain build with freed addresses reused at once (measured), self-copies (EXTRA only)",
            "K8": "emitted: sort keys tied between identical and between different rows, duplicate rows, empty strings, constant vectors",
            "K9": "outside the statement: the property does not mention the missing-value code",
            "K10": "not applicable: no label alphabets",
        }
        for smp in total.samples[:4]:
            ctx.sample(smp, 4)
        if sum(opmix.values()) == 0:
            raise InfraError("no call was replayed")
        if aborts + rets == 0 and not nfail:
            raise InfraError("no out-of-range accessor was exercised")
        if total.reuse == 0 and not nfail:
            raise InfraError("the plain build never handed out a freed address again: the K7 address-reuse pass is vacuous")
        if total.obs_n == 0 and not nfail:
            raise InfraError("no sort observation was recorded")
        ctx.note("replayed %d histories (%d completed) on both builds, %d + %d calls, out-of-range accessors: %d clean aborts, %d safe returns; plain build: %d creations at a freed address"
                 % (total.histories, okh, sum(opmix.values()), total.plain_calls, aborts, rets, total.reuse))
    finally:
        shutil.rmtree(rd, ignore_errors=True)


def replay(ctx, body):
    case = body.get("case") or {}
    if case.get("kind") != "history":
        return run(ctx)
    rd = tlc.rundir()
    try:
        bname = case.get("build", "san")
        lib = build.build_lib(bname)
        exe = build.build_harness("c14", ["c14_replay.c"], lib)
        histories = [case["history"]]
        pals = [case.get("palette", "small")]
        results, obs = replay_histories(ctx, rd, exe, histories, label="stored", parts=1, pals=pals, env=PLAIN_ENV if bname == "plain" else None)
        t = summarise(histories, results, pals, 0, bname)
        rej, agg, n = validate_obs(obs)
        obs_failures(t, histories, pals, rej, 0, bname)
        ctx.cov["states"] += agg["distinct"]
        ctx.cov["transitions"] += agg["generated"]
        report(ctx, t)
        okh = t.ok if not rej else 0
        ctx.traces(okh)
        ctx.cov["rule"] = "re-execution of one stored history prefix against the current tree"
        ctx.sample(dict(calls=[s["op"]["name"] for s in histories[0]][-8:]))
        ctx.note("stored history: %d calls, %s" % (len(histories[0]), "completed" if okh else "failed again"))
    finally:
        shutil.rmtree(rd, ignore_errors=True)
