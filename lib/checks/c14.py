"""C14 - containers stay memory-safe and shape-consistent under any operation history.

(M)   Containers.tla, one TLC run per container family (dvector, uivector, ivector, strvector, matrix, tensor,
      dvectorlist): exhaustive BFS over every API call of the alphabet with small constants (pool 2), checking the
      state invariants Shape / TypeOK / DeadIsEmpty / KindsOff and the action laws GuardLaw (no call on a dead
      container), FrameLaw (a call changes only what it declares: mutating a copy never changes the source),
      OorLaw, CopyLaw, GrowthLaw (old cells kept, new cells zero), ShrinkLaw.
(GEN) the same module in simulate mode (GenSpec): histories of 40 calls over a pool of 4 per kind, operand lengths
      drawn shorter / equal / longer / zero around the current dimension, exported through CONSTRAINT Emit.
(C)   c14_replay executes every history on the ASan/UBSan build, one child process per history, comparing
      liveness, dims and every cell with the spec's post-state after every call, checking that no two live
      containers share an owned pointer, and classifying sanitizer reports / aborts / signals by call.
"""
import collections, hashlib, json, os, re, shutil
from concurrent.futures import ThreadPoolExecutor
from vf import build, tlc
from vf import run as hrun
from vf.core import InfraError

LEVEL = "model_checking"
READY = True
TECHNIQUE = ("TLC model checking of Containers.tla (shadow state machine of dvector/uivector/ivector/strvector/matrix/tensor/dvectorlist, "
             "one action per API call; shape invariants and guard/frame/copy/growth/shrink laws) + replay of TLC-simulated operation histories "
             "against the ASan/UBSan build with the spec's post-state compared after every call")
LEVEL_TEXT = ("The shadow model is checked exhaustively by TLC (breadth-first, every call of the alphabet, pool of 2, small dimensions and values, "
              "bounded depth) for shape consistency, guards on dead containers, framing (deep copies) and the growth/shrink laws; the real library "
              "is bound to it by replaying TLC-generated histories (length 40, pool of 4 per kind, operand lengths around the current dimensions) "
              "under AddressSanitizer/UBSan with liveness, dimensions, every cell and pointer ownership compared with the model after every call.")
LEVEL_NOTE = ("Model checking covers the specification within the stated bounds; the implementation is bound to it by sampled histories (counts in "
              "the evidence), not exhaustively. Trusts TLC, ASan/UBSan as the memory monitor, and the harness's comparison code. Operations whose "
              "contract is ambiguous are outside the alphabet and listed in coverage.excluded_ops.")

JOBS = max(1, int(os.environ.get("VERIF_JOBS", "16") or 16))
ALL_KINDS = ["dv", "uv", "iv", "sv", "mx", "tn", "dl"]
KIDX = {k: i for i, k in enumerate(ALL_KINDS)}
UNSET = "<unset>"

EXCLUDED_OPS = [
    dict(op="TensorAppendRow", why="its guard compares the row length with the row COUNT of the layer and aborts on what looks like valid input; contract unclear (observation, not judged)"),
    dict(op="TensorAppendMatrixAt", why="aborts with 'Module not developed' for order < t->order; otherwise identical to TensorAppendMatrix"),
    dict(op="TensorAppendMatrix with a row count different from the last layer", why="documented precondition (tensor.c:162), aborts by design; only the valid case is in the alphabet"),
    dict(op="TensorAppendColumn / NewTensorMatrix with an out-of-range layer", why="not accessors; abort / message by design, no container state defined"),
    dict(op="NewTensorMatrix on an already created layer", why="overwrites the pointer (leak); no documented contract"),
    dict(op="any call on a tensor that still has NULL layers from NewTensor(n), except NewTensorMatrix", why="NULL layers are dereferenced by design until created"),
    dict(op="NewDVectorList(n > 0) WITHOUT filling the slots", why="leaves n uninitialised pointers; Del would free garbage by design. The composite 'NewDVectorList(n) + NewDVector on every slot' (the only valid use) IS in the alphabet as NewDVectorListFilled"),
    dict(op="DVectNorm with a shorter destination", why="writes past the destination by its own size test; arithmetic kernel, contract ambiguous"),
    dict(op="MatrixDeleteRowAt / MatrixDeleteColAt with an invalid index or on an empty dimension", why="not an accessor; writes out of bounds (observation), outside 'valid operations'"),
    dict(op="setStr / getStr out of range", why="no bounds check and none documented; the property's accessor clause is anchored on the numeric vectors, matrix and tensor"),
    dict(op="getStr / StrVectorAppend / StrVectorExtend on a slot of NewStrVector(n) that was never set", why="the slot is one uninitialised byte; the test suite sets every slot first"),
    dict(op="MatrixCopy / DVectorCopy / TensorCopy with source == destination", why="self-copy has no documented meaning"),
    dict(op="DVectorDVectorDiff/Sum, DVectorMedian/Mean/SDEV/MinMax, DvectorModule, MatrixTranspose and the other arithmetic routines", why="numeric kernels, covered by C11/C15; not container-shape operations"),
    dict(op="DVectorSort / SortUIVector on an EMPTY vector in generated histories", why="a vector made by init* has data == NULL and qsort(NULL, 0, ..) trips UBSan's nonnull-attribute check although no memory is touched; the model keeps the call, the generator sorts non-empty vectors only"),
    dict(op="SplitString, Trim, Print*", why="string parsing / printing, no container contract beyond StrVectorAppend"),
]

# ------------------------------------------------------------------------------------------------ (M)
# group -> (Kinds, MaxDim, Vals, Depth [operations], workers, actions that must fire)
VEC_ACTS = {"dv": ["VNew", "VInit", "VDel", "VResize", "VAppend", "VRemoveAt", "VCopy", "VExtend", "VSet", "VSetOor", "VGet", "VGetOor", "VHas", "VFill", "VSort"],
            "uv": ["VNew", "VInit", "VDel", "VResize", "VAppend", "VRemoveAt", "VExtend", "VSet", "VSetOor", "VGet", "VGetOor", "VHas", "VIndexOf", "VFill", "VSort"],
            "iv": ["VNew", "VInit", "VDel", "VAppend", "VRemoveAt", "VExtend", "VSet", "VSetOor", "VGet", "VGetOor", "VHas", "VFill"]}
GROUP_PREFIX = {"sv": "Sv", "mx": "Mx", "tn": "Tn", "dl": "Dl"}
MC_QUICK = [("dv", 3, [0, 1, 2], 6, 2), ("uv", 3, [0, 1, 2], 6, 2), ("iv", 3, [0, 1, 2], 6, 2), ("sv", 2, [0, 1, 2], 6, 2),
            ("dl", 2, [0, 1, 2], 6, 2), ("mx", 2, [0, 1, 2], 4, 4), ("tn", 2, [0, 1], 4, 4)]
MC_THOROUGH = [("dv", 4, [0, 1, 2], 8, 3), ("uv", 4, [0, 1, 2], 8, 3), ("iv", 4, [0, 1, 2], 8, 3), ("sv", 3, [0, 1, 2], 6, 3),
               ("dl", 3, [0, 1, 2], 5, 3), ("mx", 2, [0, 1, 2], 6, 8), ("tn", 2, [0, 1, 2], 4, 8)]
INVARIANTS = ["Shape", "TypeOK", "DeadIsEmpty", "KindsOff", "DepthBound"]
LAWS = ["GuardLaw", "FrameLaw", "OorLaw", "CopyLaw", "GrowthLaw", "ShrinkLaw"]


def _kinds_cfg(kinds):
    return "{" + ", ".join('"%s"' % k for k in kinds) + "}"


def model_check(ctx, rd):
    table = MC_QUICK if ctx.quick else MC_THOROUGH
    all_actions = None

    def one(row):
        g, maxdim, vals, depth, workers = row
        cfg = tlc.write_cfg(os.path.join(rd, "MC_Containers_%s.cfg" % g), spec="Spec",
                            constants=dict(Pool='{"a", "b"}', MaxDim=maxdim, Vals=set(vals), Kinds=_kinds_cfg([g]), Depth=depth),
                            invariants=INVARIANTS, properties=LAWS, view="View", deadlock=False)
        return tlc.run("Containers", cfg, workers=min(workers, JOBS), timeout=1700, xmx="6g")

    with ThreadPoolExecutor(max(1, min(len(table), JOBS // 2))) as ex:
        results = list(ex.map(one, table))
    total = 0
    for row, r in zip(table, results):
        g, maxdim, vals, depth, _ = row
        ctx.add_tlc(r, "mc_%s" % g)
        ctx.steps["mc_%s" % g]["coverage"] = {a: list(v) for a, v in r.coverage.items() if v[1] > 0}
        if not r.ok:
            # a counterexample of the model alone is never reported as a violation of the code (DESIGN section 4)
            raise InfraError("Containers.tla (%s): %s fails in the model itself:\n%s" % (g, r.violation, r.trace_text[:2500]))
        if r.depth != depth + 1:
            raise InfraError("model %s: search depth %d, expected %d calls + 1" % (g, r.depth, depth))
        must = VEC_ACTS[g] if g in VEC_ACTS else [a for a in r.coverage if a.startswith(GROUP_PREFIX[g])]
        if not must:
            raise InfraError("no coverage lines for group %s" % g)
        dead = [a for a in must if r.coverage.get(a, (0, 0))[1] == 0]
        if dead:
            raise InfraError("vacuous model check (%s): actions never taken: %s" % (g, dead))
        ctx.steps["mc_%s" % g].update(dict(MaxDim=maxdim, Vals=vals, depth_ops=depth, pool=2, search_depth=r.depth))
        total += r.distinct
        ctx.note("model %-2s: pool 2, dims<=%d, values %s, %d operations deep: %d distinct pool states, %d transitions, %.1fs - invariants and laws hold"
                 % (g, maxdim, vals, depth, r.distinct, r.generated, r.wall))
    return total


# ------------------------------------------------------------------------------------------------ (GEN)
GEN_QUICK = [(ALL_KINDS, 120, 5), (["mx", "dv"], 60, 5), (["tn"], 50, 5), (["sv"], 30, 5), (["dv"], 10, 5), (["uv"], 10, 5), (["iv"], 10, 5), (["dl"], 10, 5)]


def _family_of(op):
    """container family (Kinds value) whose generator emits the library call `op`"""
    for pre, fam in (("Tensor", "tn"), ("NewTensor", "tn"), ("DelTensor", "tn"), ("setTensor", "tn"), ("getTensor", "tn"),
                     ("Matrix", "mx"), ("NewMatrix", "mx"), ("DelMatrix", "mx"), ("ResizeMatrix", "mx"), ("initMatrix", "mx"), ("setMatrix", "mx"), ("getMatrix", "mx"),
                     ("StrVector", "sv"), ("NewStrVector", "sv"), ("DelStrVector", "sv"), ("setStr", "sv"), ("getStr", "sv"),
                     ("DVectorList", "dl"), ("NewDVectorList", "dl"), ("DelDVectorList", "dl"),
                     ("UIVector", "uv"), ("NewUIVector", "uv"), ("DelUIVector", "uv"), ("setUIVector", "uv"), ("getUIVector", "uv"), ("SortUIVector", "uv"),
                     ("IVector", "iv"), ("NewIVector", "iv"), ("DelIVector", "iv"), ("setIVector", "iv"), ("getIVector", "iv"),
                     ("DVector", "dv"), ("NewDVector", "dv"), ("DelDVector", "dv"), ("setDVector", "dv"), ("getDVector", "dv")):
        if op.startswith(pre) or pre in op:
            return fam
    return None


def _gen_plan(ctx):
    if ctx.quick:
        return list(GEN_QUICK)
    plan = []
    for kinds, n, chunk in [(ALL_KINDS, 8000, 1000), (["mx", "dv"], 4000, 1000), (["tn"], 3000, 1000), (["sv"], 2000, 1000),
                            (["dv"], 800, 800), (["uv"], 800, 800), (["iv"], 800, 800), (["dl"], 600, 600)]:
        i = 0
        while n > 0:
            plan.append((kinds, min(chunk, n), 5 if i % 2 == 0 else 6))
            n -= chunk
            i += 1
    return plan


def gen_one(ctx, rd, i, kinds, num, maxdim):
    """one simulate-mode TLC run -> (TlcResult without its text, list of histories)"""
    cfg = tlc.write_cfg(os.path.join(rd, "GEN_Containers_%d.cfg" % i), spec="GenSpec",
                        constants=dict(Pool='{"a", "b", "c", "d"}', MaxDim=maxdim, Vals={0, 1, 2, 3}, Kinds=_kinds_cfg(kinds), Depth=40),
                        constraints=["Emit"], deadlock=False)
    r = tlc.run("Containers", cfg, workers=1, timeout=1500, simulate="num=%d" % num, depth=40, seed=(ctx.seed + 7919 * i) & 0x7FFFFFFF, xmx="3g")
    if not r.ok:
        raise InfraError("generator run failed: %s" % r.violation)
    hs = split_histories(r.emits)
    r.emits, r.out = [], ""
    if len(hs) < num:
        raise InfraError("generator produced %d histories, wanted %d (kinds %s)" % (len(hs), num, kinds))
    return r, hs[:num]


def refinement_run(ctx, rd):
    """simulated GenSpec behaviours checked against [][Next]_vars: the generator only produces steps of the model-checked relation"""
    cfg = tlc.write_cfg(os.path.join(rd, "REF_Containers.cfg"), spec="GenSpec",
                        constants=dict(Pool='{"a", "b", "c"}', MaxDim=3, Vals={0, 1}, Kinds=_kinds_cfg(ALL_KINDS), Depth=40),
                        invariants=["Shape", "TypeOK", "DeadIsEmpty"], properties=["GenRefinesNext"] + LAWS, deadlock=False)
    r = tlc.run("Containers", cfg, workers=1, timeout=1500, simulate="num=%d" % (10 if ctx.quick else 100), depth=40, seed=ctx.seed & 0x7FFFFFFF, xmx="3g")
    if not r.ok:
        raise InfraError("GenSpec leaves the model-checked next-state relation or breaks a law: %s\n%s" % (r.violation, r.trace_text[:2000]))
    return r


def split_histories(emits):
    """TLC prints one record per state of every simulated behaviour; a behaviour starts where the level is 2"""
    hs, cur, prev = [], None, None
    for rec in emits:
        lvl = rec["lvl"]
        if lvl == 1:
            cur, prev = None, 1
            continue
        if lvl == 2:
            cur = []
            hs.append(cur)
        elif cur is None or lvl != prev + 1:
            raise InfraError("generator output out of order: level %s after %s (one successor per action expected)" % (lvl, prev))
        cur.append(dict(op=rec["op"], post={k: v for k, v in rec["post"].items() if isinstance(v, dict)}))
        prev = lvl
    return hs


# ------------------------------------------------------------------------------------------------ script writer
# argument layout per call: s slot, i int, V vector, S string id, F matrix cells, R returned int (in-range only), T returned string
VEC_LAYOUT = {"cNew": "x:s n:i", "cInit": "x:s", "cDel": "x:s", "cResize": "x:s n:i", "cAppend": "x:s v:i", "cRemoveAt": "x:s i:i", "cCopy": "src:s dst:s",
              "cExtend": "a:s b:s y:s", "cSet": "x:s i:i v:i", "cGet": "x:s i:i ret:R", "cHas": "x:s v:i ret:R", "cIndexOf": "x:s v:i ret:R", "cFill": "x:s v:i", "cSort": "x:s"}
VEC_NAMES = {
    "dv": dict(cNew="NewDVector", cInit="initDVector", cDel="DelDVector", cResize="DVectorResize", cAppend="DVectorAppend", cRemoveAt="DVectorRemoveAt", cCopy="DVectorCopy",
               cExtend="DVectorExtend", cSet="setDVectorValue", cGet="getDVectorValue", cHas="DVectorHasValue", cFill="DVectorSet", cSort="DVectorSort"),
    "uv": dict(cNew="NewUIVector", cInit="initUIVector", cDel="DelUIVector", cResize="UIVectorResize", cAppend="UIVectorAppend", cRemoveAt="UIVectorRemoveAt",
               cExtend="UIVectorExtend", cSet="setUIVectorValue", cGet="getUIVectorValue", cHas="UIVectorHasValue", cIndexOf="UIVectorIndexOf", cFill="UIVectorSet", cSort="SortUIVector"),
    "iv": dict(cNew="NewIVector", cInit="initIVector", cDel="DelIVector", cAppend="IVectorAppend", cRemoveAt="IVectorRemoveAt", cExtend="IVectorExtend",
               cSet="setIVectorValue", cGet="getIVectorValue", cHas="IVectorHasValue", cFill="IVectorSet"),
}
LAYOUT = {
    "initStrVector": "x:s", "NewStrVector": "x:s n:i", "DelStrVector": "x:s", "StrVectorResize": "x:s n:i", "StrVectorAppend": "x:s s:S", "StrVectorAppendInt": "x:s v:i",
    "StrVectorAppendDouble": "x:s v:i", "setStr": "x:s i:i s:S", "getStr": "x:s i:i rets:T", "StrVectorExtend": "a:s b:s y:s",
    "initMatrix": "x:s", "NewMatrix": "x:s r:i c:i", "DelMatrix": "x:s", "ResizeMatrix": "x:s r:i c:i", "MatrixSet": "x:s v:i", "MatrixCopy": "src:s dst:s",
    "setMatrixValue": "x:s i:i j:i v:i", "getMatrixValue": "x:s i:i j:i ret:R", "getMatrixRow": "x:s i:i y:s?", "getMatrixColumn": "x:s j:i y:s?",
    "MatrixAppendRow": "x:s vs:V", "MatrixAppendCol": "x:s vs:V", "MatrixAppendUIRow": "x:s vs:V", "MatrixAppendUICol": "x:s vs:V", "MatrixDeleteRowAt": "x:s k:i", "MatrixDeleteColAt": "x:s k:i",
    "initTensor": "x:s", "NewTensor": "x:s n:i", "NewTensorMatrix": "x:s k:i r:i c:i", "AddTensorMatrix": "x:s r:i c:i", "DelTensor": "x:s",
    "setTensorValue": "x:s k:i i:i j:i v:i", "getTensorValue": "x:s k:i i:i j:i ret:R", "TensorAppendMatrix": "x:s r:i c:i f:F", "TensorAppendColumn": "x:s k:i vs:V",
    "TensorSet": "x:s v:i", "TensorCopy": "src:s dst:s",
    "initDVectorList": "x:s", "NewDVectorList": "x:s n:i", "NewDVectorListFilled": "x:s vss:L", "DVectorListAppend": "x:s vs:V", "DelDVectorList": "x:s",
}
for _k, _names in VEC_NAMES.items():
    for _call, _name in _names.items():
        LAYOUT[_name] = VEC_LAYOUT[_call]
ALPHABET = sorted(LAYOUT)
SLOT = {"a": 0, "b": 1, "c": 2, "d": 3}


class Script:
    def __init__(self):
        self.strs = {}
        self.lines = []

    def sid(self, s):
        if s == UNSET:
            return -1
        if s not in self.strs:
            self.strs[s] = len(self.strs)
        return self.strs[s]

    def _mat(self, m):
        if not m["live"]:
            return [0]
        out = [1, m["row"], m["col"]]
        cell = m["cell"] if isinstance(m["cell"], list) else []
        for i in range(m["row"]):
            row = cell[i] if i < len(cell) and isinstance(cell[i], list) else []
            if len(row) != m["col"]:
                raise InfraError("spec post-state: row %d of a %dx%d matrix has %d cells" % (i, m["row"], m["col"], len(row)))
            out += row
        return out

    def history(self, hid, steps):
        self.lines.append("H %d" % hid)
        for n, st in enumerate(steps, 1):
            op = st["op"]
            a = op["a"]
            toks = ["O", n, op["name"], op["rel"], 1 if op["oor"] else 0]
            for fld in LAYOUT[op["name"]].split():
                key, typ = fld.split(":")
                if typ.endswith("?"):
                    if key not in a:
                        continue
                    typ = typ[:-1]
                if typ == "s":
                    toks.append(SLOT[a[key]])
                elif typ == "i":
                    toks.append(a[key])
                elif typ == "V":
                    v = a[key] if isinstance(a[key], list) else []
                    toks += [len(v)] + v
                elif typ == "L":
                    vs = a[key] if isinstance(a[key], list) else []
                    toks.append(len(vs))
                    for v in vs:
                        v = v if isinstance(v, list) else []
                        toks += [len(v)] + v
                elif typ == "S":
                    toks.append(self.sid(a[key]))
                elif typ == "F":
                    f = a[key] if isinstance(a[key], list) else []
                    for i in range(a["r"]):
                        row = f[i] if i < len(f) and isinstance(f[i], list) else []
                        if len(row) != a["c"]:
                            raise InfraError("operand matrix row has %d cells, want %d" % (len(row), a["c"]))
                        toks += row
                elif typ == "R":
                    if not op["oor"]:
                        toks.append(a[key])
                elif typ == "T":
                    toks.append(self.sid(a[key]))
            self.lines.append(" ".join(str(t) for t in toks))
            for kind in ALL_KINDS:
                p = st["post"].get(kind)
                if not isinstance(p, dict):
                    continue
                for slot in sorted(p):
                    v = p[slot]
                    e = ["E", KIDX[kind], SLOT[slot]]
                    if kind in ("dv", "uv", "iv"):
                        d = v["d"] if isinstance(v["d"], list) else []
                        e += [1, len(d)] + d if v["live"] else [0]
                    elif kind == "sv":
                        d = v["d"] if isinstance(v["d"], list) else []
                        e += [1, len(d)] + [self.sid(s) for s in d] if v["live"] else [0]
                    elif kind == "mx":
                        e += self._mat(v)
                    elif kind == "tn":
                        ms = v["m"] if isinstance(v["m"], list) else []
                        if v["live"]:
                            e += [1, len(ms)]
                            for m in ms:
                                e += self._mat(m)
                        else:
                            e += [0]
                    elif kind == "dl":
                        ds = v["d"] if isinstance(v["d"], list) else []
                        if v["live"]:
                            e += [1, len(ds)]
                            for d in ds:
                                d = d if isinstance(d, list) else []
                                e += [len(d)] + d
                        else:
                            e += [0]
                    self.lines.append(" ".join(str(t) for t in e))

    def text(self):
        head = ["STR %d %s" % (i, s.encode().hex() or "-") for s, i in self.strs.items()]
        return "\n".join(head + self.lines) + "\n"


# ------------------------------------------------------------------------------------------------ (C)
LIBSRC = {"vector.c", "matrix.c", "tensor.c", "list.c"}
_RE_FRAME = re.compile(r"#\d+ 0x[0-9a-f]+ in (\w+) (?:\S*/)?([\w.-]+\.c):(\d+)")


def san_kind(err):
    """-> 'asan:<error>:<first library function on the stack>' / 'ubsan:...' / None"""
    m = re.search(r"ERROR: AddressSanitizer: ([\w-]+)", err)
    if m:
        kind = m.group(1)
        if kind == "attempting":
            m2 = re.search(r"AddressSanitizer: attempting (double-free|free on address which was not malloc)", err)
            kind = "double-free" if m2 and m2.group(1) == "double-free" else "bad-free"
        first = err[m.start():].split("\n\n")[0]
        fn = None
        for f in _RE_FRAME.finditer(first):
            if f.group(2) in LIBSRC:
                fn = f.group(1)
                break
        if fn is None:
            f = _RE_FRAME.search(first)
            fn = f.group(1) if f else "?"
        return "asan:%s:%s" % (kind, fn)
    m = re.search(r"(\S+\.c):(\d+):\d+: runtime error: (.*)", err)
    if m:
        return "ubsan:%s:%s" % (os.path.basename(m.group(1)), re.sub(r"[^a-z ]", "", m.group(3).lower())[:40].strip().replace(" ", "-"))
    if "Sanitizer" in err:
        return "asan:other"
    return None


def _brief(err):
    """summary line + the first frames of the first stack of a sanitizer report"""
    keep = [ln.strip() for ln in err.splitlines() if re.search(r"ERROR: AddressSanitizer|runtime error:|^(READ|WRITE) of size|is located", ln.strip())][:3]
    frames = [ln.strip() for ln in err.split("\n\n")[0].splitlines() if re.match(r"\s*#\d+ ", ln)][:5]
    return " | ".join(keep + frames)[:1200]


def classify(res):
    """harness result line -> (signature suffix, text)"""
    r, err = res["res"], res.get("err", "")
    sk = san_kind(err)
    if r == "san" or (sk and r in ("exit", "signal", "abort")):
        return sk or "asan:other", "sanitizer report %s %s" % (res.get("what", ""), _brief(err))
    if r == "mismatch":
        return "state", "state differs from the model: %s" % res["what"]
    if r == "alias":
        return "alias", "two live containers own the same memory (copy is not deep): %s" % res["what"]
    if r == "abort":
        return "abort", "the library aborted on a valid call: %s" % err.strip()[-300:]
    if r == "signal":
        return "signal%d" % res.get("sig", 0), "killed by signal %d %s" % (res.get("sig", 0), res.get("what", ""))
    if r == "timeout":
        return "hang", "the history did not finish within the watchdog"
    return "exit%d" % res.get("rc", -1), "child exited with %d: %s" % (res.get("rc", -1), err[-300:])


def replay_histories(ctx, rd, exe, histories, label="replay", parts=None):
    parts = parts or max(1, min(JOBS, (len(histories) + 19) // 20))
    jobs = []
    for p in range(parts):
        sc = Script()
        ids = list(range(p, len(histories), parts))
        for hid in ids:
            sc.history(hid, histories[hid])
        sp, op = os.path.join(rd, "%s-%d.script" % (label, p)), os.path.join(rd, "%s-%d.ndjson" % (label, p))
        open(sp, "w").write(sc.text())
        jobs.append(([sp, op, 30], ids))
    res = hrun.run_many(exe, [j[0] for j in jobs], timeout=3000, workers=JOBS)
    out = {}
    for (args, ids), h in zip(jobs, res):
        lines = hrun.read_ndjson(args[1])
        if h.rc != 0 or len(lines) != len(ids):
            raise InfraError("c14_replay driver failed (rc=%s, %d/%d results): %s" % (h.rc, len(lines), len(ids), (h.err or h.out)[-800:]))
        for ln in lines:
            if ln["res"] == "script":
                raise InfraError("c14_replay rejected its script: %s" % ln.get("what"))
            out[ln["h"]] = ln
    return out


def _is_size_case(st):
    return st["op"]["rel"] in ("shorter", "longer", "zero", "diff-shape", "src-empty", "out") or st["op"]["oor"]


class Tally:
    """what is kept of a replayed chunk once its histories are dropped"""
    def __init__(self):
        self.opmix, self.relmix, self.gen_ops = collections.Counter(), collections.Counter(), collections.Counter()
        self.cases = []          # (key, nontrivial, calls executed)
        self.failures = []       # (step, hid, result line, history prefix, is_cleanup)
        self.ok = self.aborts = self.rets = self.histories = self.calls_generated = 0
        self.samples = []

    def add(self, other):
        self.opmix.update(other.opmix); self.relmix.update(other.relmix); self.gen_ops.update(other.gen_ops)
        self.cases += other.cases; self.failures += other.failures; self.samples += other.samples
        self.ok += other.ok; self.aborts += other.aborts; self.rets += other.rets
        self.histories += other.histories; self.calls_generated += other.calls_generated


def summarise(histories, results, base=0):
    t = Tally()
    for hid, steps in enumerate(histories):
        res = results[hid]
        done = res["ops"]
        t.histories += 1
        t.calls_generated += len(steps)
        for st in steps:
            t.gen_ops[st["op"]["name"]] += 1
        for st in steps[:done]:
            t.opmix[st["op"]["name"]] += 1
            if st["op"]["rel"] != "na":
                t.relmix["%s:%s" % (st["op"]["name"], st["op"]["rel"])] += 1
        key = hashlib.sha1(json.dumps([s["op"] for s in steps], sort_keys=True).encode()).hexdigest()[:16]
        t.cases.append((key, any(_is_size_case(s) for s in steps[:done]), max(done, 1)))
        t.aborts += res["oor_abort"]
        t.rets += res["oor_ret"]
        if res["res"] == "ok":
            t.ok += 1
        else:
            step = res.get("step", 0)
            cleanup = res.get("rel") == "cleanup"
            t.failures.append((step, base + hid, res, steps if cleanup else steps[:step], cleanup))
    if histories:
        t.samples.append(dict(history=base, calls=[dict(name=s["op"]["name"], rel=s["op"]["rel"], a=s["op"]["a"]) for s in histories[0][:6]]))
    return t


def report(ctx, t):
    """turn the failures of a tally into violations (shortest prefix first, one per signature)"""
    for key, nontrivial, n in t.cases:
        ctx.case(key, nontrivial, n=n)
    notjudged = nfail = 0
    for step, hid, res, prefix, cleanup in sorted(t.failures, key=lambda f: (f[0], f[1])):
        kind, text = classify(res)
        if kind.startswith("ubsan:") and "null pointer passed as argument" in res.get("err", "") and res.get("op") in ("DVectorSort", "SortUIVector"):
            # qsort(NULL, 0, ...) on a vector made by init*: UBSan's nonnull-attribute check, no memory is touched - outside what C14 states
            notjudged += 1
            continue
        nfail += 1
        sig = "CONTAINER:%s:%s:%s" % (res.get("op", "?"), res.get("rel", "?"), kind)
        what = "history %d, call %d%s: %s(%s) [%s] - %s" % (
            hid, step, " (deleting the remaining containers)" if cleanup else "", res.get("op"),
            "" if cleanup or not prefix else json.dumps(prefix[-1]["op"]["a"], sort_keys=True), res.get("rel"), text)
        ctx.violation(sig, what, dict(kind="history", history=prefix, failed_step=step, harness=dict(res=res["res"], what=res.get("what", ""))))
    if notjudged:
        ctx.cov["not_judged"] = dict(zero_length_qsort_on_null_data=notjudged)
    return nfail


def binding_selftest(ctx, rd, exe, histories, results):
    """corrupt one expected cell of a history that replays cleanly: the harness must report a state mismatch at that call"""
    import copy
    for hid, h in enumerate(histories):
        if results[hid]["res"] != "ok":
            continue
        for n, st in enumerate(h):
            for kind in ("dv", "uv", "iv"):
                p = st["post"].get(kind)
                if isinstance(p, dict):
                    for slot, v in p.items():
                        if v["live"] and isinstance(v["d"], list) and v["d"]:
                            bad = copy.deepcopy(h)
                            bad[n]["post"][kind][slot]["d"][-1] += 1
                            r = replay_histories(ctx, rd, exe, [bad], label="selftest", parts=1)[0]
                            if r["res"] != "mismatch" or r["step"] != n + 1:
                                raise InfraError("binding self-test: a corrupted expected cell at call %d was not reported (%s)" % (n + 1, r))
                            ctx.steps["binding_selftest"] = dict(history=hid, call=n + 1, corrupted="%s[%s] last cell +1" % (kind, slot), reported=r["what"])
                            return
    if ctx.violations:
        ctx.note("binding self-test skipped: no history of the first chunk replayed cleanly")
        return
    raise InfraError("binding self-test: no clean history with a non-empty vector to corrupt")


def run(ctx):
    ctx.assumptions += [
        "TLC explores Containers.tla exhaustively only within the stated constants (pool 2, dims/values/depth per family in coverage.steps)",
        "the implementation is bound to the model by replaying sampled TLC-generated histories (counts in coverage.steps.gen), not exhaustively",
        "ASan/UBSan is the monitor for reads/writes outside owned memory, use after free and double free; the harness compares liveness, dims, every cell and pointer ownership after every call",
        "out-of-range accessors are accepted when they return with the state unchanged (NULL for getMatrixRow/getMatrixColumn, any value for the scalar getters) or abort() cleanly; a sanitizer report or a changed state is a violation",
        "operations outside the alphabet (coverage.excluded_ops) are not judged",
    ]
    ctx.cov["excluded_ops"] = EXCLUDED_OPS
    rd = tlc.rundir()
    try:
        lib = build.build_lib("san")
        exe = build.build_harness("c14", ["c14_replay.c"], lib)
        model_check(ctx, rd)
        plan = _gen_plan(ctx)
        offsets, o = [], 0
        for kinds, num, maxdim in plan:
            offsets.append(o)
            o += num
        first = {}

        def chunk(i):
            kinds, num, maxdim = plan[i]
            r, hs = gen_one(ctx, rd, i, kinds, num, maxdim)
            results = replay_histories(ctx, rd, exe, hs, label="c%d" % i, parts=1)
            if i == 0:
                first["h"], first["r"] = hs, results
            return summarise(hs, results, offsets[i])

        total = Tally()
        with ThreadPoolExecutor(max(1, min(len(plan) + 1, JOBS))) as ex:
            ref = ex.submit(refinement_run, ctx, rd)
            for t in ex.map(chunk, range(len(plan))):
                total.add(t)
            rr = ref.result()
        ctx.steps["gen_refines_next"] = dict(behaviours=10 if ctx.quick else 100, depth=40, wall_s=round(rr.wall, 2), pool=3, MaxDim=3)
        ctx.steps["gen"] = dict(runs=len(plan), histories=total.histories, calls=total.calls_generated, depth=40, pool=4,
                                plan=[dict(kinds=k, histories=n, MaxDim=d) for k, n, d in plan])
        ctx.cov["transitions"] += total.calls_generated
        missing = [o_ for o_ in ALPHABET if total.gen_ops[o_] == 0]
        topups = 0
        while missing and topups < 8:
            # alphabet coverage must not depend on seed luck: draw further histories (fresh generator seed, family of the missing call)
            # until every operation of the alphabet has been executed at least once; all of them are replayed and judged like the others
            topups += 1
            fam = _family_of(missing[0])
            j = len(plan)
            plan.append(([fam] if fam else ALL_KINDS, 40, 5))
            offsets.append(o)
            o += 40
            total.add(chunk(j))
            missing = [o_ for o_ in ALPHABET if total.gen_ops[o_] == 0]
        if topups:
            ctx.steps["gen_topups"] = topups
        if missing:
            raise InfraError("generated histories never call: %s (after %d top-up rounds)" % (missing, topups))
        ctx.note("generated %d histories / %d calls over %d operations of the alphabet" % (total.histories, total.calls_generated, len(ALPHABET)))
        nfail = report(ctx, total)
        okh, opmix, relmix, aborts, rets = total.ok, total.opmix, total.relmix, total.aborts, total.rets
        ctx.traces(okh)
        binding_selftest(ctx, rd, exe, first["h"], first["r"])
        ctx.cov["rule"] = ("a case is one generated history (40 calls over pools of 4 containers per kind) replayed call by call against the ASan/UBSan build; "
                           "evaluations = calls executed and compared with the model's post-state; non-trivial = the history contains at least one call whose operand "
                           "is shorter/longer/empty relative to the current dimension, a copy onto another shape, or an out-of-range accessor; distinct by call sequence")
        ctx.cov["exhaustive"] = False
        ctx.cov["alphabet"] = ALPHABET
        ctx.cov["op_mix"] = dict(opmix)
        ctx.cov["size_relations"] = dict(relmix)
        ctx.cov["out_of_range_accessors"] = dict(clean_abort=aborts, returned_unchanged=rets)
        ctx.cov["histories"] = dict(replayed=total.histories, completed=okh, failed=nfail)
        for smp in total.samples[:4]:
            ctx.sample(smp, 4)
        if sum(opmix.values()) == 0:
            raise InfraError("no call was replayed")
        if aborts + rets == 0:
            raise InfraError("no out-of-range accessor was exercised")
        ctx.note("replayed %d histories (%d completed), %d calls, out-of-range accessors: %d clean aborts, %d safe returns"
                 % (total.histories, okh, sum(opmix.values()), aborts, rets))
    finally:
        shutil.rmtree(rd, ignore_errors=True)


def replay(ctx, body):
    case = body.get("case") or {}
    if case.get("kind") != "history":
        return run(ctx)
    rd = tlc.rundir()
    try:
        lib = build.build_lib("san")
        exe = build.build_harness("c14", ["c14_replay.c"], lib)
        histories = [case["history"]]
        results = replay_histories(ctx, rd, exe, histories, label="stored", parts=1)
        t = summarise(histories, results)
        report(ctx, t)
        okh = t.ok
        ctx.traces(okh)
        ctx.cov["rule"] = "re-execution of one stored history prefix against the current tree"
        ctx.sample(dict(calls=[s["op"]["name"] for s in histories[0]][-8:]))
        ctx.note("stored history: %d calls, %s" % (len(histories[0]), "completed" if okh else "failed again"))
    finally:
        shutil.rmtree(rd, ignore_errors=True)
