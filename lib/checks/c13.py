"""C13 - multithreaded kernels equal their sequential definition for any thread count.

(M)  Slicing.tla: both slicing recurrences hand out every row exactly once for all (rows, threads); the condensed
     index map is a bijection onto 0..n(n-1)/2-1 in row-major order of the strict upper triangle.
(C)  c13_drv drives the 10 slicing sites of the real library for every (rows, threads) pair with hooks H2/H3,
     records the ranges actually handed out, value agreement with an independent definition, the exported
     index map, where the condensed routines really store each pair, and integer distance tables; TLC validates
     the whole recording against TraceSlicing.tla (Prop layer: exactly-once cover, values, bijection, metric
     axioms recomputed by TLC; Impl layer: the code's own recurrence and index formula).
"""
import os, shutil
from vf import build, tlc, trace
from vf import run as hrun
from vf.core import InfraError

LEVEL = "model_checking"
READY = True
TECHNIQUE = ("TLC model checking of Slicing.tla (all rows x threads, condensed-index bijection) + TLC trace validation of the ranges, "
             "value flags, index positions and integer distance tables recorded from the real kernels (hooks H2, H3)")
LEVEL_TEXT = ("The slicing recurrences and the condensed index map are model-checked exhaustively for every (rows, threads) pair of the property's "
              "quantifier; the real library is then driven through the same pairs at all ten slicing sites and TLC validates every recorded range, value "
              "flag, index position and integer distance table against the specification (exactly-once cover, bijection, metric axioms recomputed by TLC).")
LEVEL_NOTE = ("Trusts TLC, the H2/H3 hook placement, the harness's double-precision comparison of MT result vs definition (logged as flags), "
              "ASan/UBSan as memory monitor. Value agreement is sampled data per (site, rows, threads); slicing coverage is exhaustive within bounds.")


def _sig(ev):
    e = ev.get("e")
    if e == "Slices":
        return "MT:%s:coverage" % ev["site"], "rows=%d threads=%d ranges=%s do not cover every row exactly once" % (ev["rows"], ev["th"], ev["sl"])
    if e == "Value":
        return "MT:%s:value:%s" % (ev["site"], ev["kind"]), "rows=%d threads=%d: result differs (%s)" % (ev["rows"], ev["th"], ev["kind"])
    if e == "Idx":
        return "MT:square_to_condensed_index:index", "n=%d: exported index map differs from the documented map" % ev["n"]
    if e == "Cond":
        return "MT:DistanceCondensed:index", "n=%d threads=%d: condensed table does not hold the strict upper triangle exactly once: %s" % (ev["n"], ev["th"], ev["pos"])
    if e == "Dist":
        return "MT:CalculateDistance:axiom", "integer distance table differs from the definition or violates a metric axiom: %s" % ev
    return "MT:trace:%s" % e, "unexpected event %s" % ev


def run_check(ctx, maxrows, maxth, mode, parts):
    ctx.assumptions += [
        "TLC explores Slicing.tla exhaustively within the stated (rows, threads) bounds only",
        "value agreement (MT vs definition) is evaluated by the harness in double precision and logged as a flag; TLC checks the flags, the logged ranges, index positions and integer distance tables",
        "hook H3 reports the ranges at the moment they are handed to pthread_create; hook H2 forces the processor count",
        "ASan/UBSan build: any sanitizer report during the drive is a violation",
    ]
    # (M)
    cfg = "MC_Slicing_quick.cfg" if ctx.quick else "MC_Slicing_thorough.cfg"
    r = tlc.run("Slicing", cfg, timeout=1500)
    ctx.add_tlc(r, "mc_slicing")
    if not r.ok:
        # a counterexample of the design model alone is not reported as a violation of the code (DESIGN section 4 (V))
        raise InfraError("Slicing.tla: invariant %s fails in the model itself:\n%s" % (r.violation, r.trace_text[:1500]))
    ctx.note("model: %d (rows,threads) states, invariants InvA InvB InvSame InvC hold" % r.distinct)
    # (C)
    lib = build.build_lib("san")
    exe = build.build_harness("c13", ["c13_drv.c"], lib)
    rd = tlc.rundir()
    try:
        bounds = []
        per = (maxrows + parts) // parts
        lo = 0
        while lo <= maxrows:
            hi = min(maxrows, lo + per - 1)
            bounds.append((lo, hi))
            lo = hi + 1
        jobs = [[os.path.join(rd, "t%d.ndjson" % i), lo, hi, maxth, ctx.seed, mode] for i, (lo, hi) in enumerate(bounds)]
        # thread counts beyond the exhaustive grid ("every requested thread count, including counts larger than the number of rows")
        for i, r in enumerate([33, 48, 64, 100] if ctx.quick else []):
            jobs.append([os.path.join(rd, "w%d.ndjson" % i), r, r, 64, ctx.seed + 7, "slices"])
        res = hrun.run_many(exe, jobs, timeout=2400)
        events = []
        for j, h in zip(jobs, res):
            ev = hrun.read_ndjson(j[0])
            if h.rc != 0:
                last = ev[-1] if ev else {}
                if h.san:
                    ctx.violation("MT:%s:%s" % (last.get("site", "?"), h.san), "sanitizer report while driving rows %s..%s threads<=%s (last event %s):\n%s"
                                  % (j[1], j[2], j[3], last, h.err[:1500]), dict(kind="harness", args=j[1:], last=last))
                elif h.timed_out:
                    raise InfraError("c13 harness timed out (rows %s..%s)" % (j[1], j[2]))
                else:
                    ctx.violation("MT:%s:crash:rc%d" % (last.get("site", "?"), h.rc), "harness died (rc=%d) after event %s\n%s" % (h.rc, last, h.err[-800:]),
                                  dict(kind="harness", args=j[1:], last=last))
            events += ev
        if not events:
            raise InfraError("c13 harness produced no events")
        nsl = 0
        for ev in events:
            if ev["e"] == "Slices":
                nsl += 1
                nt = ev["rows"] % ev["th"] != 0 or ev["th"] > ev["rows"]
                ctx.case(("S", ev["site"], ev["rows"], ev["th"]), nt)
            elif ev["e"] in ("Value", "Cond", "Dist", "Idx"):
                ctx.case(("V", ev.get("site", ev["e"]), ev.get("rows", ev.get("n")), ev.get("th", 0), ev.get("kind", "")),
                         ev["e"] != "Value" or ev["rows"] % max(1, ev["th"]) != 0 or ev["th"] > ev["rows"])
        if nsl == 0:
            raise InfraError("no Slices events: hook H3 is not firing (hooks removed or guard off)")
        for ev in events:
            if ev["e"] == "Slices" and ev["th"] > 1 and ev["rows"] % ev["th"] != 0:
                ctx.sample(ev, 3)
        for ev in events:
            if ev["e"] in ("Cond", "Dist"):
                ctx.sample(ev, 5)
        ctx.cov["rule"] = ("every (site, rows, threads) with rows 0..%d, threads 1..%d driven through the real library; a case is one recorded "
                           "Slices/Value/Cond/Dist/Idx event keyed by (site, rows, threads, kind); non-trivial = threads does not divide rows or threads > rows "
                           "(all Cond/Dist/Idx events count)") % (maxrows, maxth)
        ctx.cov["exhaustive"] = True

        def on_reject(ev, idx, block):
            sig, what = _sig(ev)
            ctx.violation(sig, what, dict(kind="event", event=ev))
            return lambda e: _sig(e)[0] == sig
        trace.check_trace(ctx, "TraceSlicing", "Trace_Slicing.cfg", "Trace_Slicing_prop.cfg", events, on_reject, drop="event", label="trace_slicing")
        ctx.traces(len(jobs))
        # binding self-test: shorten one recorded range / flip one flag -> must be rejected

        def corrupt(ev):
            for e in ev:
                if e["e"] == "Slices" and e["rows"] >= 3 and len(e["sl"]) >= 2 and e["sl"][0][1] > 1:
                    e["sl"][0][1] -= 1
                    return True
            return False
        trace.binding_selftest(ctx, "TraceSlicing", "Trace_Slicing_prop.cfg", [e for e in events if e["e"] == "Slices" and e["rows"] >= 3 and e["th"] >= 2][:200], corrupt, "binding_slices")
    finally:
        shutil.rmtree(rd, ignore_errors=True)


def run(ctx):
    if ctx.quick:
        run_check(ctx, 40, 24, "slices", 14)
    else:
        run_check(ctx, 40, 24, "full", 16)
        # beyond the property's stated bounds: a deeper sweep of the slicing sites only
        run_check_extra(ctx)


def run_check_extra(ctx):
    lib = build.build_lib("san")
    exe = build.build_harness("c13", ["c13_drv.c"], lib)
    rd = tlc.rundir()
    try:
        jobs = [[os.path.join(rd, "x%d.ndjson" % i), lo, lo + 3, 64, ctx.seed + 1, "slices"] for i, lo in enumerate(range(41, 105, 4))]
        res = hrun.run_many(exe, jobs, timeout=2400)
        events = []
        for j, h in zip(jobs, res):
            ev = hrun.read_ndjson(j[0])
            if h.rc != 0:
                last = ev[-1] if ev else {}
                ctx.violation("MT:%s:%s" % (last.get("site", "?"), h.san or "crash:rc%d" % h.rc), "harness failed on rows %s..%s threads<=64:\n%s" % (j[1], j[2], h.err[:1200]),
                              dict(kind="harness", args=j[1:]))
            events += ev
        for ev in events:
            if ev["e"] in ("Slices", "Value"):
                ctx.case(("X", ev["site"], ev["rows"], ev["th"], ev.get("kind", "")), ev["rows"] % ev["th"] != 0)

        def on_reject(ev, idx, block):
            sig, what = _sig(ev)
            ctx.violation(sig, what, dict(kind="event", event=ev))
        trace.check_trace(ctx, "TraceSlicing", "Trace_Slicing.cfg", "Trace_Slicing_prop.cfg", events, on_reject, drop="event", label="trace_slicing_deep", xmx="8g")
        ctx.traces(len(jobs))
    finally:
        shutil.rmtree(rd, ignore_errors=True)


def replay(ctx, body):
    case = body.get("case") or {}
    if case.get("kind") == "event":
        ev = case["event"]
        events = [dict(e="Reset", rows=ev.get("rows", 0), th=ev.get("th", 1)), ev]
        # re-record the same (rows, threads) from the current tree rather than trusting the stored event
        rows, th = ev.get("rows", ev.get("n", 0)), ev.get("th", 1)
        lib = build.build_lib("san")
        exe = build.build_harness("c13", ["c13_drv.c"], lib)
        rd = tlc.rundir()
        try:
            h = hrun.run(exe, [os.path.join(rd, "r.ndjson"), rows, rows, max(th, 1), body.get("seed", ctx.seed), "full"])
            events = [e for e in hrun.read_ndjson(os.path.join(rd, "r.ndjson")) if e.get("th", th) == th or e["e"] in ("Idx", "Dist")]
            if h.rc != 0:
                ctx.violation("MT:replay:%s" % (h.san or "crash"), h.err[:1500], case)

            def on_reject(e, idx, block):
                sig, what = _sig(e)
                ctx.violation(sig, what, dict(kind="event", event=e))
            trace.check_trace(ctx, "TraceSlicing", "Trace_Slicing.cfg", "Trace_Slicing_prop.cfg", events, on_reject, label="replay")
            ctx.case(("replay", rows, th))
            ctx.case(("replay2", rows, th))
            ctx.sample(ev)
            ctx.traces(1)
        finally:
            shutil.rmtree(rd, ignore_errors=True)
    else:
        run(ctx)
