"""C13 - multithreaded kernels equal their sequential definition for any thread count.

(M)  Slicing.tla: both slicing recurrences hand out every row exactly once for all (rows, threads) (InvA, InvB, InvSame);
     the condensed index map is a bijection onto 0..n(n-1)/2-1 in row-major order of the strict upper triangle (InvC);
     composed with the slicing, the workers of a condensed launch write every cell exactly once for every thread
     count (InvD).  MtKernel.tla: launcher + workers as a concurrent state machine over HISTORIES of calls into one
     output object, all interleavings: no cell written twice (WriteOnce), no write outside the object (InBounds),
     after the join the object has exactly the shape and content of the definition of THIS call whatever it held
     before (DoneIsDef), every launch is joined (Live); self-tests: with the "return before the resize" guard DoneIsDef
     fails (MC_MtKernel_guard), without the zero-initialised output only the accumulating kernels fail (NeedsZero).
     DistAxioms.tla: the integer distance definitions satisfy symmetry / zero self-distance / non-negativity /
     triangle inequality, and Cauchy-Schwarz for the cosine, on EVERY point set of a small integer cube.
(C)  c13_drv drives the 10 slicing sites of the real library for every (rows, threads) pair with hooks H2/H3 and
     records the ranges handed out, value flags, the exported index map, where the condensed routines really store
     each pair, integer distance tables.  c13_val drives every threaded kernel (two MT products, CalculateDistance x 4
     kinds, *_ST x 4, *DistanceCondensed x 4, getLabels_) on the input classes K1..K9 of INPUT-CLASSES.md, each call three
     times and into fresh AND already used output objects, and records a value ledger (Cmp events: shape, cells
     not bit-identical, largest error in units of 2^-53 x scale); K7 histories (descending / ascending row counts
     6..0..6 and thread counts 1,2,3,5,8,16,24 up and down into ONE output object) on integer points with the whole
     table logged (Tab events) so that TLC recomputes shape, every cell, the strict-upper-triangle layout and the
     axioms exactly; labels of integer points (Lab events); MDC / MaxDis / MaxDis_Fast / k-means++ / k-means on tie
     and duplicate classes for thread counts up to 64 against the one-thread result.  TLC validates the whole
     recording against TraceSlicing.tla (Prop layer: exactly-once cover, shapes, cells, tolerances Tol(kind, len)
     of Slicing.tla, bit-identical repeats, axioms; Impl layer: the code's recurrence, index formula, tie rule,
     bit-identical MT/sequential results).

Clauses of the statement -> deciding operator / action -> event
  every row processed by exactly one worker ............ ExactlyOnce, InvA/InvB, MtKernel!WriteOnce; TSlices ...... Slices
  for every requested or detected thread count ......... Init rows x th (model); th field; H2 forces nproc ......... Slices, Cmp, Tab, Lab
  MT result = single-threaded result to rounding ....... PropCmp: err <= Tol(tol, len), exact kinds ndiff = 0 ..... Cmp (mt-vs-st, mt-vs-def), Value
  bit-identical between repeated runs .................. PropCmp what = "repeat", TTab rep = 0, TLab rep = 0 ..... Cmp, Tab, Lab
  into a zero-initialised output / self-sized outputs .. MtKernel!DoneIsDef, NeedsZero; TTab post = TabShape ..... Tab (pre, post)
  distance results match their definitions ............. CellOK (SumSq, SumAbs, SqrtQ, CosQ) in TTab, TDist ....... Tab, Dist
  symmetry, zero self-distance, >= 0, triangle ......... MetricAxioms (DistAxioms.tla), TabAxioms, TDist .......... Tab, Dist
  condensed = strict upper triangle under the index map  TabCells form = "condensed", CondSize, Idx; TCond ........ Tab, Cond, Cmp (cond-vs-square)
  the index map is a bijection ......................... CondensedBijection InvC, CondWriteOnce InvD; TIdx, TCond ... Idx, Cond
  k-means labelling .................................... NearestSet / FirstNearest in TLab; PropCmp exact .......... Lab, Cmp (getLabels_), Value
  selection algorithms built on them ................... PropCmp exact, what = "vs-1thread" ....................... Cmp (MDC, MaxDis, MaxDis_Fast, KMeans*), Value
"""
import os, shutil, copy
from concurrent.futures import ThreadPoolExecutor
from vf import build, tlc, trace
from vf import run as hrun
from vf.core import InfraError
from checks.deferred import Deferred

W = max(2, int(os.environ.get("VERIF_WORKERS", "8")))

LEVEL = "model_checking"
READY = True
TECHNIQUE = ("TLC model checking of Slicing.tla (all rows x threads: exactly-once slicing, condensed-index bijection, write-once of the condensed "
             "kernel), MtKernel.tla (launcher + interleaved workers over call histories into one output object) and DistAxioms.tla (metric axioms on "
             "every integer point set of a cube) + TLC trace validation of the ranges (hooks H2, H3), a value ledger with tolerances defined in the "
             "specification, whole integer distance tables / labels recomputed by TLC, recorded from the real kernels on input classes K1..K9 and "
             "in-process histories")
LEVEL_TEXT = ("The slicing recurrences, the condensed index map and their composition are model-checked exhaustively for every (rows, threads) pair of the "
              "property's quantifier; a concurrent model of launcher and workers shows shape and content of the output after the join for every interleaving "
              "and every history of earlier calls.  The real library is driven through the same pairs at all ten slicing sites, through every threaded "
              "kernel on the cross-cutting input classes (shapes, slice / block boundaries, offsets, magnitudes, ties, missing codes, thread counts up to "
              "257, reused outputs) and through descending / ascending histories into one output object; TLC validates every recorded range, ledger "
              "entry (tolerance = function of the reduction length, defined in the spec), integer table cell, shape, label and axiom.")
LEVEL_NOTE = ("Trusts TLC, the H2/H3 hook placement, the harness's measurement of the ledger entries (cell comparison in long double, quantised to units "
              "of 2^-53 x scale; TLC judges them), ASan/UBSan as memory monitor.  Value agreement is sampled data per (site, class, rows, threads); slicing "
              "coverage is exhaustive within bounds.  Classes NOT emitted because the quantifier excludes them: K10 label alphabets (labels are produced, "
              "not consumed); magnitudes whose squares overflow or underflow for the distances (non-finite definitions) - overflowing PRODUCTS are covered "
              "for the two MT products only, where the statement's single-threaded result skips them; MISSING cells in distance inputs are plain numbers "
              "(compared MT vs sequential only, no definition); the cosine of a zero vector (undefined); pre-filled selection vectors for MDC/MaxDis (the "
              "routines append by contract); non-zero initial outputs for the two MT products (the statement says zero-initialised); k-means on fewer rows "
              "than clusters; matrices beyond 60 x 10 for values (slicing sweeps go further); concurrent callers (re-entrancy is not claimed).")

VAL_PARTS_Q, VAL_PARTS_T = 6, 12


def _sig(ev):
    e = ev.get("e")
    if e == "Slices":
        return "MT:%s:coverage" % ev["site"], "rows=%d threads=%d ranges=%s do not cover every row exactly once" % (ev["rows"], ev["th"], ev["sl"])
    if e == "Value":
        return "MT:%s:value:%s" % (ev["site"], ev["kind"]), "rows=%d threads=%d: result differs (%s)" % (ev["rows"], ev["th"], ev["kind"])
    if e == "Cmp":
        return ("MT:%s:value:%s" % (ev["site"], ev["what"]),
                "%s %s: rows=%d cols=%d threads=%d class %s/%s: shape_equal=%d, %d cells not bit-identical, largest error %d units of 2^-53*scale (tolerance kind '%s', reduction length %d)"
                % (ev["site"], ev["what"], ev["rows"], ev["cols"], ev["th"], ev["cls"], ev["shp"], ev["shape"], ev["ndiff"], ev["err"], ev["tol"], ev["len"]))
    if e == "Tab":
        n, nb = ev["n"], ev["nb"]
        want = [nb, n] if ev["form"] == "square" else [n * (n - 1) // 2]
        what = "shape" if ev["post"] != want else ("repeat" if ev["rep"] else "table")
        return ("MT:%s:%s:%s" % (ev["site"], ev["kind"], what),
                "%s %s (%s form) on %d integer points, threads=%d, output object had shape %s before the call (%s): shape after the call %s (definition: %s), "
                "%d cells differ between three repeated calls; table %s" % (ev["site"], ev["kind"], ev["form"], n, ev["th"], ev["pre"], ev["cls"], ev["post"], want,
                                                                         ev["rep"], ev.get("sq", ev.get("cv"))))
    if e == "Lab":
        return "MT:%s:labels" % ev["site"], "labels %s of points %s against centroids %s (threads=%d) are not nearest-centroid labels / differ between repeats" % (ev["lab"], ev["P"], ev["C"], ev["th"])
    if e == "Idx":
        return "MT:square_to_condensed_index:index", "n=%d: exported index map differs from the documented map" % ev["n"]
    if e == "Cond":
        return "MT:DistanceCondensed:index", "n=%d threads=%d: condensed table does not hold the strict upper triangle exactly once: %s" % (ev["n"], ev["th"], ev["pos"])
    if e == "Dist":
        return "MT:CalculateDistance:axiom", "integer distance table differs from the definition or violates a metric axiom: %s" % ev
    return "MT:trace:%s" % e, "unexpected event %s" % ev


# ---------------------------------------------------------------------------------------------- (M) models
def models(ctx):
    q = ctx.quick
    runs = [("Slicing", "MC_Slicing_quick.cfg" if q else "MC_Slicing_thorough.cfg", "mc_slicing", True),
            ("MtKernel", "MC_MtKernel_quick.cfg" if q else "MC_MtKernel_thorough.cfg", "mc_mtkernel", True),
            ("MtKernel", "MC_MtKernel_nozero.cfg", "mc_mtkernel_nozero", True),
            ("MtKernel", "MC_MtKernel_live.cfg", "mc_mtkernel_live", True),
            ("MtKernel", "MC_MtKernel_guard.cfg", "mc_mtkernel_guard_selftest", False),
            ("DistAxioms", "MC_DistAxioms_quick.cfg" if q else "MC_DistAxioms_thorough.cfg", "mc_distaxioms", True)]
    if not q:
        runs += [("MtKernel", "MC_MtKernel_deep3.cfg", "mc_mtkernel_deep3", True), ("DistAxioms", "MC_DistAxioms_thorough2.cfg", "mc_distaxioms_dim3", True)]
    wk = 1 if q else max(1, min(4, W // 2))
    with ThreadPoolExecutor(2 if q else max(1, min(len(runs), W // wk))) as ex:
        res = list(ex.map(lambda r: tlc.run(r[0], r[1], workers=wk, timeout=1700, coverage=(r[0] == "MtKernel")), runs))
    for (mod, cfg, label, must_hold), r in zip(runs, res):
        ctx.add_tlc(r, label)
        if must_hold:
            if not r.ok:
                # a counterexample of the design model alone is not reported as a violation of the code (DESIGN section 4 (V))
                raise InfraError("%s/%s: %s fails in the model itself:\n%s" % (mod, cfg, r.violation, r.trace_text[:1500]))
            if mod == "MtKernel" and r.zero_actions():
                raise InfraError("%s/%s: actions never taken: %s" % (mod, cfg, r.zero_actions()))
        elif r.ok or r.violation != "DoneIsDef":
            raise InfraError("%s/%s: the seeded 'return before the resize' guard must violate DoneIsDef (got %s): the invariant does not bite" % (mod, cfg, r.violation))
        ctx.case(("model", label))
    ctx.note("models: Slicing %d (rows,threads) states (InvA InvB InvSame InvC InvD), MtKernel %d states (WriteOnce InBounds DoneIsDef NeedsZero, Live), "
             "guard self-test rejected as it must, DistAxioms %d point sets" % (res[0].distinct, res[1].distinct, res[5].distinct))


# ---------------------------------------------------------------------------------------------- (C) drive
def _val_jobs(ctx, rd, tier):
    parts = VAL_PARTS_Q if ctx.quick else VAL_PARTS_T
    jobs = [[os.path.join(rd, "vc%d.ndjson" % i), "classes", i, parts, ctx.seed, tier] for i in range(parts)]
    jobs.append([os.path.join(rd, "vh.ndjson"), "hist", 0, 1, ctx.seed, tier])
    up = 2 if ctx.quick else 6
    jobs += [[os.path.join(rd, "vu%d.ndjson" % i), "users", i, up, ctx.seed, tier] for i in range(up)]
    return jobs


def _collect(ctx, exe, jobs, what, origin, name, deferred=None):
    res = hrun.run_many(exe, jobs, timeout=2400, workers=W)
    events = []
    for j, h in zip(jobs, res):
        ev = hrun.read_ndjson(j[0])
        if h.rc != 0:
            last = ev[-1] if ev else {}
            case = dict(kind="harness", driver=name, args=j[1:], last=last)
            if h.san:
                ctx.violation("MT:%s:%s" % (last.get("site", "?"), h.san), "sanitizer report while driving %s %s (last event %s):\n%s" % (what, j[1:], last, h.err[:1500]), case)
            elif h.timed_out:
                if deferred is None:
                    raise InfraError("%s harness timed out (%s)" % (name, j[1:]))
                deferred.add("%s harness timed out (%s) after event %s" % (name, j[1:], last))      # a changed kernel may hang: not a verdict; what was recorded is still judged
            elif h.rc in (2, 3):
                raise InfraError("%s harness failed rc=%d: %s" % (name, h.rc, h.err[-500:]))
            else:
                ctx.violation("MT:%s:crash:rc%d" % (last.get("site", "?"), h.rc), "harness died (rc=%d) after event %s\n%s" % (h.rc, last, h.err[-800:]), case)
        for e in ev:
            origin[id(e)] = (name, j[1:])
        events += ev
    return events


def _account(ctx, events):
    n = dict(Slices=0, Value=0, Cmp=0, Tab=0, Lab=0, Idx=0, Cond=0, Dist=0)
    sites, k7 = set(), {}
    for ev in events:
        e = ev["e"]
        if e not in n:
            continue
        n[e] += 1
        th, rows = ev.get("th", 0), ev.get("rows", ev.get("n", 0))
        nt = th > 0 and (rows % th != 0 or th > rows)
        if e == "Slices":
            ctx.case(("S", ev["site"], rows, th), nt)
            ctx.cls("K2:rows=k*th" if rows % th == 0 else ("K6:th>rows" if th > rows else "K6:th-not-dividing"))
        elif e == "Value":
            ctx.case(("V", ev["site"], rows, th, ev["kind"]), nt)
        elif e == "Cmp":
            ctx.case(("C", ev["site"], ev["what"], ev["cls"], ev["shp"], rows, ev["cols"], th), True)
            ctx.cls(ev["cls"]); ctx.cls(ev["shp"]); ctx.cls("K6:th%d" % th if th <= 24 else "K6:th>24")
            if th > rows:
                ctx.cls("K6:th>rows")
            sites.add(ev["site"].split(":")[0])
        elif e == "Tab":
            ctx.case(("T", ev["site"], ev["kind"], ev["form"], ev["n"], ev["nb"], th, tuple(ev["pre"])), True)
            ctx.cls(ev["cls"]); ctx.cls("K6:th%d" % th)
            k7[ev["cls"]] = k7.get(ev["cls"], 0) + 1
            sites.add("Tab:%s:%s" % (ev["site"], ev["kind"]))
        elif e == "Lab":
            ctx.case(("L", ev["site"], ev["n"], ev["k"], th, str(ev["P"])), True)
            ctx.cls(ev["cls"])
        else:
            ctx.case((e, ev.get("n"), th), True)
    return n, sites, k7


def _vacuity(ctx, n, sites, k7, events):
    if n["Slices"] == 0:
        raise InfraError("no Slices events: hook H3 is not firing (hooks removed or guard off)")
    for e in ("Cmp", "Tab", "Lab", "Idx", "Cond", "Dist"):
        if n[e] == 0:
            raise InfraError("no %s events recorded: a harness path went silent" % e)
    need = ["MT_MatrixDVectorDotProduct", "MT_DVectorMatrixDotProduct", "CalculateDistance", "DistanceCondensed", "getLabels_", "MDC", "MaxDis", "MaxDis_Fast",
            "KMeansppCenters", "KMeans", "PruneResults"]
    need += ["Tab:%s:%s" % (s, k) for s in ("CalculateDistance", "DistanceCondensed", "Distance_ST") for k in ("euclidean", "sqeuclidean", "manhattan", "cosine")]
    miss = [s for s in need if s not in sites]
    if miss:
        raise InfraError("kernels never compared: %s" % miss)
    for c in ("K7:fresh", "K7:stale-larger", "K7:stale-to-empty", "K7:stale-smaller", "K7:same-shape"):
        if k7.get(c, 0) < 4:
            raise InfraError("history class %s reached only %d times" % (c, k7.get(c, 0)))
    # every class the generator is supposed to emit must really have been executed
    want = ["K1:tall", "K1:square", "K1:wide", "K1:single-col", "K1:single-row", "K1:n=p-1", "K1:n=p+1", "K2:rows=k*th", "K2:rows=k*th-1", "K2:rows=k*th+1",
            "K2:rows-32-60-boundary", "K3:offset1e6", "K3:offset1e8", "K4:scale1e-6", "K4:scale1e6", "K4:colunits-2^-30..2^30", "K4:overflowing-products",
            "K5:nonrepresentable", "K6:clamp-straddle", "K6:th>rows", "K6:th>24", "K7:inplace-refill", "K7:shape-history", "K8:dup-rows-cols-const", "K8:grid-ties",
            "K8:label-ties", "K9:missing-first-row", "K9:missing-last-row", "K9:missing-column"] + ["K6:th%d" % t for t in (1, 2, 3, 5, 8, 16, 24)]
    miss = [c for c in want if ctx.classes.get(c, 0) == 0]
    if miss:
        raise InfraError("input classes never executed: %s" % miss)
    # antecedents of the ledger: a non-trivial tolerance must have been exercised with a non-zero error somewhere
    if not any(e["e"] == "Cmp" and e["tol"] != "exact" and e["err"] > 0 for e in events):
        raise InfraError("value ledger never saw a rounding difference: the definition side is not independent")


def _selftests(ctx, events):
    """binding: corrupt one recorded field per event kind -> TLC must reject"""
    def first(pred, k=60):
        out = [e for e in events if pred(e)][:k]
        if not out:
            raise InfraError("binding self-test: no suitable event")
        return out

    def c_slices(ev):
        for e in ev:
            if e["e"] == "Slices" and e["rows"] >= 3 and len(e["sl"]) >= 2 and e["sl"][0][1] > 1:
                e["sl"][0][1] -= 1
                return True
        return False

    def c_cmp_err(ev):
        for e in ev:
            if e["e"] == "Cmp" and e["tol"] != "exact":
                e["err"] = 2 * e["len"] * 4 + 40
                return True
        return False

    def c_cmp_rep(ev):
        for e in ev:
            if e["e"] == "Cmp" and e["what"] == "repeat":
                e["ndiff"] = 1
                return True
        return False

    def c_tab_cell(ev):
        for e in ev:
            if e["e"] == "Tab" and e["form"] == "condensed" and len(e["cv"]) >= 3:
                e["cv"][2] += 7
                return True
        return False

    def c_tab_shape(ev):
        for e in ev:
            if e["e"] == "Tab" and e["form"] == "condensed" and e["n"] <= 1:
                e["post"], e["cv"] = [1], [0]
                return True
        return False

    def c_tab_sq(ev):
        for e in ev:
            if e["e"] == "Tab" and e["form"] == "square" and e["n"] >= 2 and e["nb"] >= 1:
                e["sq"][0][1] += 7
                return True
        return False

    def c_lab(ev):
        for e in ev:
            if e["e"] == "Lab" and e["k"] >= 2:
                d = [sum((p - c) ** 2 for p, c in zip(e["P"][0], cc)) for cc in e["C"]]
                far = d.index(max(d))
                if d[far] > min(d):
                    e["lab"][0] = far
                    return True
        return False
    tests = [("binding_slices", lambda e: e["e"] == "Slices" and e["rows"] >= 3 and e["th"] >= 2, c_slices),
             ("binding_cmp_tolerance", lambda e: e["e"] == "Cmp" and e["tol"] != "exact", c_cmp_err),
             ("binding_cmp_repeat", lambda e: e["e"] == "Cmp" and e["what"] == "repeat", c_cmp_rep),
             ("binding_tab_condensed_cell", lambda e: e["e"] == "Tab" and e["form"] == "condensed" and len(e["cv"]) >= 3, c_tab_cell),
             ("binding_tab_stale_shape", lambda e: e["e"] == "Tab" and e["form"] == "condensed" and e["n"] <= 1, c_tab_shape),
             ("binding_tab_square_cell", lambda e: e["e"] == "Tab" and e["form"] == "square" and e["n"] >= 2 and e["nb"] >= 1, c_tab_sq),
             ("binding_lab", lambda e: e["e"] == "Lab" and e["k"] >= 2, c_lab)]

    def one(t):
        label, pred, cor = t
        return trace.binding_selftest(ctx, "TraceSlicing", "Trace_Slicing_prop.cfg", first(pred), cor, label)
    with ThreadPoolExecutor(max(1, min(len(tests), W))) as ex:
        list(ex.map(one, tests))


def run_check(ctx, maxrows, maxth, mode, parts):
    ctx.assumptions += [
        "TLC explores Slicing.tla / MtKernel.tla / DistAxioms.tla exhaustively within the stated bounds only",
        "ledger entries (shape, cells not bit-identical, largest error in units of 2^-53 x scale) are measured by the harness in long double and logged as integers; "
        "TLC judges them against Tol(kind, len) of Slicing.tla; integer tables, labels, ranges and index positions are recomputed by TLC itself",
        "hook H3 reports the ranges at the moment they are handed to pthread_create; hook H2 forces the processor count",
        "ASan/UBSan build: any sanitizer report during the drive is a violation",
    ]
    lib = build.build_lib("san")
    exe = build.build_harness("c13", ["c13_drv.c"], lib)
    exv = build.build_harness("c13v", ["c13_val.c"], lib)
    rd = tlc.rundir()
    origin = {}
    mpool = ThreadPoolExecutor(1)
    mfut = mpool.submit(models, ctx)       # the models do not depend on the library: checked while the harnesses run
    try:
        bounds = []
        per = (maxrows + parts) // parts
        lo = 0
        while lo <= maxrows:
            hi = min(maxrows, lo + per - 1)
            bounds.append((lo, hi))
            lo = hi + 1
        jobs = [[os.path.join(rd, "t%d.ndjson" % i), lo, hi, maxth, ctx.seed, mode] for i, (lo, hi) in enumerate(bounds)]
        # thread counts beyond the exhaustive grid ("every requested thread count, including counts larger than the number of rows")
        for i, r in enumerate([33, 48, 64, 100] if ctx.quick else []):
            jobs.append([os.path.join(rd, "w%d.ndjson" % i), r, r, 64, ctx.seed + 7, "slices"])
        vjobs = _val_jobs(ctx, rd, 0 if ctx.quick else 1)
        deferred = Deferred(ctx)
        with ThreadPoolExecutor(2) as ex:
            f1 = ex.submit(_collect, ctx, exe, jobs, "rows..rows threads<= seed mode", origin, "drv", deferred)
            f2 = ex.submit(_collect, ctx, exv, vjobs, "mode part nparts seed tier", origin, "val", deferred)
            ev1, ev2 = f1.result(), f2.result()
        ctx.note("harness drive finished: %d + %d events" % (len(ev1), len(ev2)))
        mfut.result()
        if not ev1 or not ev2:
            # (a harness that dies at once on a changed tree was reported by _collect with its crash signature; the other recording is still judged)
            deferred.add("c13 harness produced no events (%s)" % ("drv" if not ev1 else "val"))
        events = ev1 + ev2
        n, sites, k7 = _account(ctx, events)
        for ev in ev1:
            if ev["e"] == "Slices" and ev["th"] > 1 and ev["rows"] % ev["th"] != 0:
                ctx.sample(ev, 2)
        for kind in ("Cond", "Dist"):
            for ev in ev1:
                if ev["e"] == kind:
                    ctx.sample(ev, 4)
                    break
        for ev in ev2:
            if ev["e"] == "Tab" and ev["cls"] == "K7:stale-to-empty":
                ctx.sample(ev, 5)
                break
        for ev in ev2:
            if ev["e"] == "Cmp" and ev["cls"].startswith("K3") and ev["err"] > 0:
                ctx.sample(ev, 6)
                break
        ctx.cov["rule"] = ("every (site, rows, threads) with rows 0..%d, threads 1..%d driven through the real library (Slices/Value events keyed by site, rows, threads, "
                           "kind; non-trivial = threads does not divide rows or threads > rows); plus one case per ledger entry (site, comparison, input class, shape "
                           "class, rows, cols, threads), per integer table (site, kind, form, points, threads, shape before the call), per label set, per model run; "
                           "events by kind: %s") % (maxrows, maxth, n)
        ctx.cov["exhaustive"] = True

        def on_reject(ev, idx, block):
            sig, what = _sig(ev)
            if ev.get("xt"):
                # routine outside the statement (driven because the specification covers the kernel it is built on): never a verdict
                ctx.extra(sig, what)
                return lambda e: _sig(e)[0] == sig
            drv, args = origin.get(id(ev), ("drv", None))
            ctx.violation(sig, what, dict(kind="event", event=ev, driver=drv, args=args))
            return lambda e: _sig(e)[0] == sig
        with ThreadPoolExecutor(2) as ex:
            fs = [ex.submit(trace.check_trace, ctx, "TraceSlicing", "Trace_Slicing.cfg", "Trace_Slicing_prop.cfg", ev, on_reject, "event", 12, None, 1500, lb)
                  for ev, lb in ((ev1, "trace_slicing"), (ev2, "trace_values")) if ev]
            for f in fs:
                f.result()
        ctx.traces(len(jobs) + len(vjobs))
        # vacuity after the validation: a harness that a changed library ended early leaves event kinds / classes empty - the recorded part decides first
        deferred.guard(_vacuity, ctx, n, sites, k7, events)
        if not deferred:
            _selftests(ctx, events)
        deferred.settle()
    finally:
        mpool.shutdown(wait=True)
        shutil.rmtree(rd, ignore_errors=True)


def run(ctx):
    if ctx.quick:
        run_check(ctx, 40, 24, "slices", 14)
    else:
        run_check(ctx, 40, 24, "full", 16)
        # beyond the property's stated bounds: a deeper sweep of the slicing sites only
        run_check_extra(ctx)


def run_check_extra(ctx):
    lib = build.build_lib("san")
    exe = build.build_harness("c13", ["c13_drv.c"], lib)
    rd = tlc.rundir()
    try:
        jobs = [[os.path.join(rd, "x%d.ndjson" % i), lo, lo + 3, 64, ctx.seed + 1, "slices"] for i, lo in enumerate(range(41, 105, 4))]
        res = hrun.run_many(exe, jobs, timeout=2400, workers=W)
        events = []
        for j, h in zip(jobs, res):
            ev = hrun.read_ndjson(j[0])
            if h.rc != 0:
                last = ev[-1] if ev else {}
                ctx.violation("MT:%s:%s" % (last.get("site", "?"), h.san or "crash:rc%d" % h.rc), "harness failed on rows %s..%s threads<=64:\n%s" % (j[1], j[2], h.err[:1200]),
                              dict(kind="harness", driver="drv", args=j[1:]))
            events += ev
        for ev in events:
            if ev["e"] in ("Slices", "Value"):
                ctx.case(("X", ev["site"], ev["rows"], ev["th"], ev.get("kind", "")), ev["rows"] % ev["th"] != 0)

        def on_reject(ev, idx, block):
            sig, what = _sig(ev)
            ctx.violation(sig, what, dict(kind="event", event=ev, driver="drv", args=None))
        trace.check_trace(ctx, "TraceSlicing", "Trace_Slicing.cfg", "Trace_Slicing_prop.cfg", events, on_reject, drop="event", label="trace_slicing_deep", xmx="8g")
        ctx.traces(len(jobs))
    finally:
        shutil.rmtree(rd, ignore_errors=True)


def replay(ctx, body):
    case = body.get("case") or {}
    lib = build.build_lib("san")
    rd = tlc.rundir()
    try:
        def on_reject(e, idx, block):
            sig, what = _sig(e)
            ctx.violation(sig, what, dict(kind="event", event=e, driver=case.get("driver"), args=case.get("args")))
            return lambda x: _sig(x)[0] == sig
        if case.get("driver") == "val" and case.get("args"):
            # re-record the whole job (mode, part, nparts, seed, tier) the event came from, from the current tree
            exv = build.build_harness("c13v", ["c13_val.c"], lib)
            out = os.path.join(rd, "r.ndjson")
            h = hrun.run(exv, [out] + list(case["args"]), timeout=2400)
            events = hrun.read_ndjson(out)
            if h.rc != 0:
                ctx.violation("MT:replay:%s" % (h.san or "crash:rc%d" % h.rc), h.err[:1500], case)
            if events:
                trace.check_trace(ctx, "TraceSlicing", "Trace_Slicing.cfg", "Trace_Slicing_prop.cfg", events, on_reject, label="replay")
            ctx.case(("replay", "val", str(case["args"])))
            ctx.case(("replay2", "val", str(case["args"])))
            if case.get("event"):
                ctx.sample(case["event"])
            ctx.traces(1)
        elif case.get("kind") in ("event", "harness"):
            ev = case.get("event") or case.get("last") or {}
            # re-record the same (rows, threads) from the current tree rather than trusting the stored event
            rows, th = ev.get("rows", ev.get("n", 0)), ev.get("th", 1)
            exe = build.build_harness("c13", ["c13_drv.c"], lib)
            h = hrun.run(exe, [os.path.join(rd, "r.ndjson"), rows, rows, max(th, 1), body.get("seed", ctx.seed), "full"])
            events = [e for e in hrun.read_ndjson(os.path.join(rd, "r.ndjson")) if e.get("th", th) == th or e["e"] in ("Idx", "Dist")]
            if h.rc != 0:
                ctx.violation("MT:replay:%s" % (h.san or "crash"), h.err[:1500], case)
            if events:
                trace.check_trace(ctx, "TraceSlicing", "Trace_Slicing.cfg", "Trace_Slicing_prop.cfg", events, on_reject, label="replay")
            ctx.case(("replay", rows, th))
            ctx.case(("replay2", rows, th))
            ctx.sample(ev)
            ctx.traces(1)
        else:
            run(ctx)
    finally:
        shutil.rmtree(rd, ignore_errors=True)
